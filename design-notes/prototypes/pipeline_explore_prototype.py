"""Throwaway explicit-state exploration of the pipeline model (design validation only)."""
import sys, collections, itertools
CLOSED='C'
def explore(N, cap, items, cb, fault, order, refuse=None, join_fix=False, max_states=3_000_000):
    # items: tuple of 'd' (data) | 'e' (exception item)
    P=len(items)
    # state = (M, R, Hs, J, PQ, HQ, fin, stop, tracked, started, collected, Rexc)
    # M: ('startR',) ('startJ',) ('look0',) ('startH', h, rest) ('slice',) ('get',) ('joinR', exc) ('joinH', i, exc) ('joinJ', exc) ('ret', outcome)
    def init():
        return (('startR',), ('ns',), tuple(('ns',) for _ in range(N)), ('ns',), (), (), False, False, tuple(range(N)), frozenset(), (), None)
    def done_thread(st, t):
        M,R,Hs,J,PQ,HQ,fin,stop,tracked,started,collected,Rexc = st
        if t=='R': return R[0]=='done'
        if t=='J': return J[0] in ('done',) 
        return Hs[t][0]=='done'
    def running(st, h):   # is_alive of hasher h
        Hs=st[2]; return Hs[h][0] not in ('ns','done','refused')
    def succ(st):
        M,R,Hs,J,PQ,HQ,fin,stop,tracked,started,collected,Rexc = st
        out=[]
        def mk(**kw):
            d=dict(M=M,R=R,Hs=Hs,J=J,PQ=PQ,HQ=HQ,fin=fin,stop=stop,tracked=tracked,started=started,collected=collected,Rexc=Rexc); d.update(kw)
            return (d['M'],d['R'],d['Hs'],d['J'],d['PQ'],d['HQ'],d['fin'],d['stop'],d['tracked'],d['started'],d['collected'],d['Rexc'])
        # ---- main
        m=M[0]
        after_pool=('get',)
        if m=='startR':
            if refuse=='R': out.append(('M.startR!', mk(M=('ret',('exc','RuntimeError')))))
            else: out.append(('M.startR', mk(M=('startJ',) if order=='orig' else ('look0',), R=('next',0))))
        elif m=='startJ':
            nxt = ('look0',) if order=='orig' else after_pool
            if refuse=='J': out.append(('M.startJ!', mk(M=('ret',('exc','RuntimeError')))))
            else: out.append(('M.startJ', mk(M=nxt, J=('wait',))))
        elif m=='look0':
            if len(tracked)==0: out.append(('M.look0!', mk(M=('ret',('exc','IndexError')))))
            else: out.append(('M.look0', mk(M=('startH0', tracked[0]))))
        elif m=='startH0':
            h=M[1]
            if refuse==('H',h): out.append(('M.startH0!', mk(M=('ret',('exc','RuntimeError')))))
            else:
                Hs2=list(Hs); Hs2[h]=('wait',); out.append(('M.startH0', mk(M=('slice',), Hs=tuple(Hs2))))
        elif m=='slice':
            rest=tracked[1:]
            out.append(('M.slice', mk(M=('startHs', rest))))
        elif m=='startHs':
            rest=M[1]
            if not rest:
                out.append(('M.poolDone', mk(M=('startJ',) if order=='fixed' else after_pool)))
            else:
                h=rest[0]; Hs2=list(Hs)
                if refuse==('H',h): Hs2[h]=('refused',)
                elif Hs[h][0]=='ns': Hs2[h]=('wait',)
                out.append(('M.startH', mk(M=('startHs', rest[1:]), Hs=tuple(Hs2))))
        elif m=='get':
            if HQ:
                x=HQ[0]; HQ2=HQ[1:]
                if x==CLOSED: out.append(('M.getC', mk(M=('joinR',None), HQ=HQ2)))
                else:
                    idx,kind=x; col2=collected+(idx,)
                    assert idx not in collected, 'duplicate piece'
                    ndone=len(col2)
                    if kind=='e' and cb is None:
                        out.append(('M.collect!', mk(M=('joinR',('exc','item',idx)), HQ=HQ2, collected=col2, stop=True)))
                    elif cb is not None and cb[0]=='raise' and ndone==cb[1]:
                        out.append(('M.cbraise', mk(M=('joinR',('exc','cb')), HQ=HQ2, collected=col2, stop=True)))
                    elif cb is not None and cb[0]=='cancel' and ndone==cb[1]:
                        out.append(('M.cbcancel', mk(HQ=HQ2, collected=col2, stop=True)))
                    else:
                        out.append(('M.collect', mk(HQ=HQ2, collected=col2)))
        elif m=='joinR':
            if R[0]=='done':
                exc=M[1]
                if Rexc is not None and not join_fix:
                    out.append(('M.joinR!', mk(M=('ret', exc or ('exc','read')))))   # hashers.join skipped (D04b)
                else:
                    out.append(('M.joinR', mk(M=('joinH',0, exc or (('exc','read') if Rexc else None)))))
        elif m=='joinH':
            i,exc=M[1],M[2]
            if i>=len(tracked): out.append(('M.joinHend', mk(M=('joinJ',exc))))
            else:
                h=tracked[i]
                if not running(st,h): out.append(('M.joinH', mk(M=('joinH',i+1,exc))))
        elif m=='joinJ':
            if J[0] in ('done','ns'):   # join of not-started thread returns immediately (is_running False)
                exc=M[1]
                if exc: out.append(('M.ret', mk(M=('ret',exc))))
                else: out.append(('M.ret', mk(M=('ret',('ok',tuple(sorted(collected)))))))
        # ---- reader
        r=R[0]
        if r=='next':
            k=R[1]
            if k==P: out.append(('R.end', mk(R=('final',))))
            elif fault==('read',k): out.append(('R.fault', mk(R=('final',), Rexc='read')))
            elif stop: out.append(('R.stop', mk(R=('final',))))
            else: out.append(('R.ok', mk(R=('put',k))))
        elif r=='put':
            if len(PQ)<cap: out.append(('R.put', mk(R=('next',R[1]+1), PQ=PQ+((R[1],items[R[1]]),))))
        elif r=='final':
            if len(PQ)<cap: out.append(('R.putC', mk(R=('done',), PQ=PQ+(CLOSED,))))
        # ---- hashers
        for h in range(N):
            hs=Hs[h]; Hs2=list(Hs)
            if hs[0]=='wait':
                if PQ:
                    x=PQ[0]
                    Hs2[h]=('requeue',) if x==CLOSED else ('hold',x)
                    out.append((f'H{h}.get', mk(Hs=tuple(Hs2), PQ=PQ[1:])))
                else:
                    if h!=0:
                        Hs2[h]=('done',); out.append((f'H{h}.bored', mk(Hs=tuple(Hs2))))
                    # vital timeout = stutter (self loop), omitted
            elif hs[0]=='hold':
                Hs2[h]=('wait',); out.append((f'H{h}.push', mk(Hs=tuple(Hs2), HQ=HQ+(hs[1],))))
            elif hs[0]=='requeue':
                if len(PQ)<cap:
                    Hs2[h]=('setfin',); out.append((f'H{h}.requeue', mk(Hs=tuple(Hs2), PQ=PQ+(CLOSED,))))
            elif hs[0]=='setfin':
                Hs2[h]=('done',); out.append((f'H{h}.setfin', mk(Hs=tuple(Hs2), fin=True)))
        # ---- janitor
        j=J[0]
        if j=='wait':
            if fin: out.append(('J.wake', mk(J=('spin',0))))
            else: out.append(('J.timeout', mk(J=('prune', tracked, 0))))
        elif j=='prune':
            snap,i=J[1],J[2]
            if i>=len(snap): out.append(('J.pruned', mk(J=('wait',))))
            else:
                h=snap[i]
                if not running(st,h): out.append(('J.prune', mk(J=('prune',snap,i+1), tracked=tuple(x for x in tracked if x!=h))))
                else: out.append(('J.keep', mk(J=('prune',snap,i+1))))
        elif j=='spin':
            i=J[1]
            if i>=len(tracked): out.append(('J.allDone', mk(J=('close',))))
            else:
                h=tracked[i]
                if not running(st,h): out.append(('J.chk', mk(J=('spin',i+1))))
                # else: busy wait = stutter (restart from 0, same as staying) -> self loop omitted but must restart at 0:
                elif i>0: out.append(('J.respin', mk(J=('spin',0))))
        elif j=='close':
            out.append(('J.close', mk(J=('done',), HQ=HQ+(CLOSED,))))
        return [(l,s) for l,s in out if s!=st]
    s0=init(); seen={s0:None}; q=collections.deque([s0]); problems=collections.Counter(); examples={}
    def trace(s):
        t=[]
        while seen[s] is not None:
            p,l=seen[s]; t.append(l); s=p
        return t[::-1]
    def note(kind, s):
        problems[kind]+=1
        if kind not in examples: examples[kind]=trace(s)
    nterm=0
    while q:
        s=q.popleft()
        M=s[0]
        sc=succ(s)
        if M[0]=='ret':
            nterm+=1
            # property checks at the moment main returns
            alive=[t for t in ['R','J']+list(range(N)) if not done_thread(s,t) and not (t=='J' and s[3][0]=='ns') and not (t!='R' and t!='J' and s[2][t][0] in ('ns','refused'))]
            if alive: note('threads alive at return: '+str(alive), s)
            outcome=M[1]
            exp_full=tuple(range(P))
            has_e=[i for i,k in enumerate(items) if k=='e']
            if fault is None and refuse is None and cb is None and not has_e:
                if outcome!=('ok',exp_full): note(f'wrong outcome {outcome}', s)
            if outcome[0]=='exc' and outcome[1] in ('IndexError',): note('internal error '+outcome[1], s)
            if outcome[0]=='ok' and cb is not None and cb[0]=='passive' and fault is None and refuse is None:
                if outcome!=('ok',exp_full): note(f'wrong outcome {outcome}', s)
            # after main returned, remaining threads must still be able to finish (no permanent leak)
        if not sc:
            # no successors: fine only if everything is finished
            allfin = M[0]=='ret' and all(done_thread(s,t) or (t=='J' and s[3][0]=='ns') or (t not in ('R','J') and s[2][t][0] in ('ns','refused')) for t in ['R','J']+list(range(N)))
            if not allfin:
                note('STUCK main='+M[0]+' R='+s[1][0]+' J='+s[3][0]+' H='+','.join(x[0] for x in s[2]), s)
        for l,s2 in sc:
            if s2 not in seen:
                seen[s2]=(s,l); q.append(s2)
                if len(seen)>max_states: return ('too big', len(seen), problems, examples)
    # cycle check (ignoring omitted self loops): DFS
    color={}
    cyc=False
    sys.setrecursionlimit(10000)
    stack=[(s0,iter(succ(s0)))]; color[s0]=1
    while stack and not cyc:
        s,it=stack[-1]
        for l,s2 in it:
            c=color.get(s2,0)
            if c==1: cyc=True; examples['cycle']=trace(s)+[l]; break
            if c==0:
                color[s2]=1; stack.append((s2,iter(succ(s2)))); break
        else:
            color[s]=2; stack.pop()
    if cyc: problems['cycle']+=1
    return ('ok', len(seen), problems, examples, nterm)

if __name__=='__main__':
    import time
    for order in ('orig','fixed'):
        for join_fix in (False, True):
            if order=='orig' and join_fix: continue
            tot=collections.Counter(); exs={}
            t0=time.time(); nst=0
            for N in (1,2):
              for cap in (1,2):
                for P in range(0,4):
                  for items in itertools.product('de', repeat=P):
                    if items.count('e')>1: continue
                    cbs=[None,('passive',)]+[('cancel',k) for k in range(1,P+1)]+[('raise',k) for k in range(1,P+1)]
                    for cb in cbs:
                      faults=[None]+[('read',k) for k in range(P+1)]
                      for fault in faults:
                        r=explore(N,cap,items,cb,fault,order,join_fix=join_fix)
                        nst+=r[1]
                        for k,v in r[2].items():
                            kk=k.split(' ')[0]+' '+(k.split(' ')[1] if ' ' in k else '')
                            tot[kk]+=1; exs.setdefault(kk,(N,cap,items,cb,fault,k,r[3].get(k)))
            print(f'== order={order} join_fix={join_fix}: states {nst} time {time.time()-t0:.0f}s problems:', dict(tot))
            for k,v in exs.items(): print('   ',k,'->',v)
