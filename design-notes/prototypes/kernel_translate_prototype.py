import ast, sys
src = open('/repo/torf/_errors.py').read()
tree = ast.parse(src)
def find_func(tree, cls, name):
    for n in ast.walk(tree):
        if isinstance(n, ast.ClassDef) and n.name==cls:
            for m in n.body:
                if isinstance(m, ast.FunctionDef) and m.name==name: return m
OPS={ast.LtE:'≤', ast.Lt:'<', ast.GtE:'≥', ast.Gt:'>', ast.Eq:'=', ast.NotEq:'≠'}
BIN={ast.Add:'+', ast.Sub:'-', ast.Mult:'*', ast.FloorDiv:'/', ast.Mod:'%'}
def lean(e):
    if isinstance(e, ast.BoolOp):
        op=' ∧ ' if isinstance(e.op, ast.And) else ' ∨ '
        return '('+op.join(lean(v) for v in e.values)+')'
    if isinstance(e, ast.Compare):
        parts=[]; left=e.left
        for op,right in zip(e.ops,e.comparators):
            parts.append(f'{lean(left)} {OPS[type(op)]} {lean(right)}'); left=right
        return '('+' ∧ '.join(parts)+')'
    if isinstance(e, ast.BinOp): return f'({lean(e.left)} {BIN[type(e.op)]} {lean(e.right)})'
    if isinstance(e, ast.Name): return e.id
    if isinstance(e, ast.Constant) and isinstance(e.value,int): return str(e.value)
    if isinstance(e, ast.Attribute): return lean(e.value)+'_'+e.attr
    raise NotImplementedError(ast.dump(e))
f = find_func(tree, 'VerifyContentError', '__init__')
# the `if` inside the for-loop whose body appends to corrupt_files
for n in ast.walk(f):
    if isinstance(n, ast.If) and any(isinstance(c, ast.Expr) and isinstance(c.value, ast.Call) and getattr(c.value.func,'attr',None)=='append' for c in n.body):
        names=sorted({x.id for x in ast.walk(n.test) if isinstance(x, ast.Name)})
        print(f"def errOverlap ({' '.join(names)} : Int) : Prop :=\n  {lean(n.test)}")
src2=open('/repo/torf/_stream.py').read(); t2=ast.parse(src2)
g=find_func(t2,'TorrentFileStream','get_files_at_byte_range')
for n in ast.walk(g):
    if isinstance(n, ast.If) and isinstance(n.test, ast.BoolOp):
        names=sorted({x.id for x in ast.walk(n.test) if isinstance(x, ast.Name)})
        print(f"def byteRangeHit ({' '.join(names)} : Int) : Prop :=\n  {lean(n.test)}")
