import Lean.Data.Json
import Lt.Basic
open Lean
partial def loop (h : IO.FS.Stream) : IO Unit := do
  let line ← h.getLine
  if line.isEmpty then return ()
  match Json.parse line with
  | .error e => IO.println (Json.compress (Json.mkObj [("err", e)]))
  | .ok j =>
    let L := (j.getObjValAs? Nat "L").toOption.getD 0
    let sizes := (j.getObjValAs? (Array Nat) "sizes").toOption.getD #[]
    let files := sizes.toList.zipIdx.map (fun (sz, i) => (List.range sz).map (fun k => (i, k)))
    let ps := Proto.iterPieces L files
    IO.println (Json.compress (Json.mkObj [("lens", toJson (ps.map (·.length)))]))
  loop h
def main : IO Unit := do loop (← IO.getStdin)
