"""Prototype: cooperative deterministic scheduler for torf._generate (no repo changes).
Every controlled thread runs only while it holds the baton. At each sync operation it
announces the operation it wants to perform and blocks; the scheduler picks one thread whose
operation is enabled (or fires its timeout) according to a seeded PRNG / explicit schedule."""
import threading as _t, random, collections, types, time

class Deadlock(Exception): pass

class Sched:
    def __init__(self, seed=0, choose=None, max_steps=100000):
        self.rng = random.Random(seed)
        self.choose = choose
        self.lock = _t.Lock()
        self.threads = {}        # name -> CT
        self.trace = []
        self.steps = 0
        self.max_steps = max_steps
        self.main_done = _t.Event()
        self.wake_sched = _t.Semaphore(0)
        self.clock = 0.0
    # ---- called by controlled threads
    def yield_op(self, ct, op):
        """ct announces op = (kind, obj, enabled_fn, can_timeout); blocks until scheduled.
        returns 'go' or 'timeout'"""
        ct.pending = op
        self.wake_sched.release()
        ct.sem.acquire()
        r = ct.decision
        ct.pending = None
        return r
    def run(self, main_fn, name='main'):
        ct = CT(self, name, main_fn)
        self.threads[name] = ct
        ct.real.start(); ct.first_park.wait(); self.wake_sched.release()
        # scheduler loop (runs in caller thread)
        while True:
            self.wake_sched.acquire()      # wait until the running thread parks or exits
            live = [c for c in self.threads.values() if c.started and not c.finished]
            if not live:
                break
            cands = []
            for c in live:
                if c.pending is None: continue
                kind, obj, enabled, can_to = c.pending
                if enabled(): cands.append((c, 'go'))
                elif can_to: cands.append((c, 'timeout'))
            if not cands:
                self.deadlock = [(c.name, c.pending[0]) for c in live]
                raise Deadlock(self.deadlock)
            self.steps += 1
            if self.steps > self.max_steps: raise Deadlock('step budget')
            cands.sort(key=lambda x: (x[0].name, x[1]))
            c, d = self.choose(self, cands) if self.choose else self.rng.choice(cands)
            self.trace.append((c.name, c.pending[0], d))
            c.decision = d
            c.sem.release()
        return ct

class CT:
    def __init__(self, sched, name, fn):
        self.sched=sched; self.name=name; self.fn=fn; self.sem=_t.Semaphore(0)
        self.pending=None; self.decision=None; self.started=False; self.finished=False
        self.first_park=_t.Event()
        self.real=_t.Thread(target=self._run, name=name, daemon=True); self.exc=None
        self.started=True
    def _run(self):
        _local.ct = self
        try:
            # park without waking the scheduler: the starter thread is still running
            self.pending=('begin', None, lambda: True, False)
            self.first_park.set()
            self.sem.acquire(); self.pending=None
            self.fn()
        except BaseException as e:
            self.exc = e
        finally:
            self.finished=True
            self.sched.wake_sched.release()

_local = _t.local()
def cur(): return _local.ct

def make_shims(sched, refuse_start=()):
    class Thread:
        def __init__(self, name=None, target=None):
            self.name=name; self._target=target; self._ct=None
        def start(self):
            cur().sched.yield_op(cur(), ('start:'+self.name, None, lambda: True, False))
            if self.name in refuse_start: raise RuntimeError("can't start new thread")
            self._ct = CT(sched, self.name, self._target); sched.threads[self.name]=self._ct
            self._ct.real.start()
            self._ct.first_park.wait()   # dedicated handshake (not the scheduler's semaphore)
        def is_alive(self):
            cur().sched.yield_op(cur(), ('is_alive:'+self.name, None, lambda: True, False))
            return self._ct is not None and not self._ct.finished
        def join(self, timeout=None):
            cur().sched.yield_op(cur(), ('join:'+self.name, None, lambda: self._ct is None or self._ct.finished, False))
    class Event:
        def __init__(self): self._f=False
        def set(self):
            cur().sched.yield_op(cur(), ('ev.set', None, lambda: True, False)); self._f=True
        def wait(self, timeout=None):
            r = cur().sched.yield_op(cur(), ('ev.wait', None, lambda: self._f, timeout is not None))
            return r == 'go'
    class Empty(Exception): pass
    class Queue:
        def __init__(self, maxsize=0): self.maxsize=maxsize; self.q=collections.deque()
        def put(self, item):
            cur().sched.yield_op(cur(), ('put', None, lambda: self.maxsize<=0 or len(self.q)<self.maxsize, False))
            self.q.append(item)
        def get(self, timeout=None):
            r = cur().sched.yield_op(cur(), ('get', None, lambda: len(self.q)>0, timeout is not None))
            if r=='timeout': raise Empty
            return self.q.popleft()
        def qsize(self): return len(self.q)
    th = types.SimpleNamespace(Thread=Thread, Event=Event, current_thread=lambda: types.SimpleNamespace(name=cur().name))
    qu = types.SimpleNamespace(Queue=Queue, Empty=Empty)
    return th, qu
