namespace Proto

/-- spec: cut a list into consecutive chunks of length L (last may be shorter) -/
def chunks (L : Nat) (xs : List α) : List (List α) :=
  if h : L = 0 ∨ xs = [] then [] else
    xs.take L :: chunks L (xs.drop L)
termination_by xs.length
decreasing_by
  simp only [List.length_drop]
  have : xs.length ≠ 0 := by
    intro h0; exact h (Or.inr (List.eq_nil_of_length_eq_zero h0))
  omega

/-- code-shaped: process one file given carried trailing bytes -/
def fileStep (L : Nat) (st : List α × List (List α)) (f : List α) : List α × List (List α) :=
  let d := st.1 ++ f
  let n := d.length / L
  (d.drop (n * L), st.2 ++ (chunks L (d.take (n * L))))

def iterPieces (L : Nat) (files : List (List α)) : List (List α) :=
  let st := files.foldl (fileStep L) ([], [])
  if st.1 = [] then st.2 else st.2 ++ [st.1]

theorem chunks_nil (L : Nat) : chunks L ([] : List α) = [] := by
  unfold chunks; simp

theorem chunks_append_of_dvd (L : Nat) (hL : 0 < L) (xs ys : List α) (n : Nat)
    (h : xs.length = n * L) : chunks L (xs ++ ys) = chunks L xs ++ chunks L ys := by
  induction n generalizing xs with
  | zero =>
    have : xs = [] := List.eq_nil_of_length_eq_zero (by simpa using h)
    subst this; simp [chunks_nil]
  | succ n ih =>
    have hlen : L ≤ xs.length := by rw [h]; exact Nat.le_mul_of_pos_left L (Nat.succ_pos n)
    have hne : xs ≠ [] := by intro h0; subst h0; simp at hlen; omega
    rw [chunks.eq_def (xs := xs ++ ys), chunks.eq_def (xs := xs)]
    have h1 : ¬ (L = 0 ∨ xs ++ ys = []) := by
      intro hh; cases hh with
      | inl h => omega
      | inr h => simp at h; exact hne h.1
    have h2 : ¬ (L = 0 ∨ xs = []) := by
      intro hh; cases hh with
      | inl h => omega
      | inr h => exact hne h
    simp only [h1, h2, dite_false, dif_neg, not_false_eq_true]
    have ht : (xs ++ ys).take L = xs.take L := by
      rw [List.take_append_of_le_length hlen]
    have hd : (xs ++ ys).drop L = xs.drop L ++ ys := by
      rw [List.drop_append_of_le_length hlen]
    rw [ht, hd, ih (xs.drop L) (by simp [h, Nat.succ_mul])]
    simp

end Proto

namespace Proto

theorem chunks_short (L : Nat) (xs : List α) (hne : xs ≠ []) (h : xs.length ≤ L) (hL : 0 < L) :
    chunks L xs = [xs] := by
  rw [chunks.eq_def]
  have h1 : ¬ (L = 0 ∨ xs = []) := by
    intro hh; cases hh with
    | inl h => omega
    | inr h => exact hne h
  simp only [h1, dif_neg, not_false_eq_true]
  rw [List.take_of_length_le h, List.drop_eq_nil_of_le h, chunks_nil]

/-- loop invariant of the fold -/
theorem fold_inv (L : Nat) (hL : 0 < L) (files : List (List α)) (st : List α × List (List α))
    (hst : st.1.length < L) :
    let st' := files.foldl (fileStep L) st
    st'.1.length < L ∧ st'.2 ++ chunks L st'.1 = st.2 ++ chunks L (st.1 ++ files.flatten) := by
  induction files generalizing st with
  | nil => simp [hst]
  | cons f fs ih =>
    simp only [List.foldl_cons, List.flatten_cons]
    have hlt : (fileStep L st f).1.length < L := by
      simp only [fileStep, List.length_drop]
      have := Nat.mod_lt (st.1 ++ f).length hL
      have h2 := Nat.div_add_mod (st.1 ++ f).length L
      rw [Nat.mul_comm] at h2
      omega
    obtain ⟨h1, h2⟩ := ih (fileStep L st f) hlt
    refine ⟨h1, ?_⟩
    rw [h2]
    simp only [fileStep]
    rw [List.append_assoc, ← List.append_assoc st.1 f fs.flatten]
    generalize st.1 ++ f = d
    have hd : d ++ fs.flatten = d.take (d.length / L * L) ++ (d.drop (d.length / L * L) ++ fs.flatten) := by
      rw [← List.append_assoc, List.take_append_drop]
    conv => rhs; rw [hd]
    have hlen : (d.take (d.length / L * L)).length = d.length / L * L := by
      rw [List.length_take]
      have := Nat.div_mul_le_self d.length L
      omega
    rw [chunks_append_of_dvd L hL (d.take (d.length / L * L)) _ (d.length / L) hlen]

theorem iterPieces_eq_chunks (L : Nat) (hL : 0 < L) (files : List (List α)) :
    iterPieces L files = chunks L files.flatten := by
  have := fold_inv L hL files ([], []) (by simpa using hL)
  simp only [List.nil_append] at this
  obtain ⟨h1, h2⟩ := this
  unfold iterPieces
  simp only
  split
  · rename_i h; rw [h, chunks_nil] at h2; simpa using h2
  · rename_i h
    rw [chunks_short L _ h (Nat.le_of_lt h1) hL] at h2
    exact h2

end Proto
