import sys, os, shutil, time, threading
sys.path.insert(0,'/tmp/scratch/sched')
import shim
import torf, torf._generate as G
from torf import Torrent
os.makedirs('/dev/shm/tq', exist_ok=True)
open('/dev/shm/tq/a','wb').write(bytes(range(256))*1)   # 256 bytes
def one(seed, threads, L=16, refuse=()):
    s = shim.Sched(seed=seed)
    th, qu = shim.make_shims(s, refuse_start=refuse)
    G.threading, G.queue = th, qu
    tr = Torrent('/dev/shm/tq/a'); tr.metainfo['info']['piece length']=L
    res={}
    def main():
        try: res['r']=tr.generate(threads=threads)
        except BaseException as e: res['r']=repr(e)
    try:
        s.run(main)
    except shim.Deadlock as e:
        res['r']='DEADLOCK '+str(e)
    alive=[c.name for c in s.threads.values() if not c.finished]
    import hashlib
    data=open('/dev/shm/tq/a','rb').read()
    want=b''.join(hashlib.sha1(data[i:i+L]).digest() for i in range(0,len(data),L))
    ok = res['r'] is True and tr.metainfo['info'].get('pieces')==want and not alive
    return ok, res['r'], alive, len(s.trace), s
import collections
t0=time.time(); c=collections.Counter(); ex={}
for seed in range(300):
    ok, r, alive, n, s = one(seed, threads=1+seed%3)
    key=(ok, str(r)[:60], tuple(alive))
    c[key]+=1; ex.setdefault(key, seed)
print('elapsed', time.time()-t0)
for k,v in c.items(): print(v, k, 'seed', ex[k])
