import torf, io, traceback, sys
from torf import Torrent, Magnet
def t(label, f):
    try:
        r = f()
        print(f'{label}: OK -> {r!r}'[:300])
    except BaseException as e:
        print(f'{label}: {type(e).__module__}.{type(e).__name__}: {e}'[:300])

# --- C08 read_stream
base = b'd4:infod6:lengthi16384e4:name1:a12:piece lengthi16384e6:pieces20:' + b'x'*20 + b'ee'
t('valid', lambda: Torrent.read_stream(base))
t('huge len prefix', lambda: Torrent.read_stream(b'99999999999999999999999:'))
t('creation date str', lambda: Torrent.read_stream(b'd13:creation date3:foo4:info' + base[7:]))
t('creation date huge', lambda: Torrent.read_stream(b'd13:creation datei99999999999999999e4:info' + base[7:]))
t('creation date neg huge', lambda: Torrent.read_stream(b'd13:creation datei-99999999999999999e4:info' + base[7:]))
t('creation date list', lambda: Torrent.read_stream(b'd13:creation datele4:info' + base[7:]))
t('creation date nonempty list', lambda: Torrent.read_stream(b'd13:creation dateli1ee4:info' + base[7:]))
t('deep nest', lambda: Torrent.read_stream(b'd1:a' + b'l'*5000 + b'e'*5000 + b'4:info' + base[7:]))
t('deep nest novalidate', lambda: Torrent.read_stream(b'd1:a' + b'l'*5000 + b'e'*5000 + b'e', validate=False))
t('non-utf8 key + dump', lambda: Torrent.read_stream(base[:-1] + b'2:\xff\xfei1ee').dump())
t('non-utf8 key in info + dump', lambda: Torrent.read_stream(b'd4:infod2:\xff\xfei1e' + base[7:]).dump())
t('non-utf8 key + validate', lambda: Torrent.read_stream(base[:-1] + b'2:\xff\xfei1ee').validate())
t('private list', lambda: Torrent.read_stream(b'd4:infod6:lengthi16384e4:name1:a12:piece lengthi16384e6:pieces20:' + b'x'*20 + b'7:privatelee'))
t('info is list novalidate', lambda: Torrent.read_stream(b'd4:infolee', validate=False))
t('info missing novalidate dump', lambda: Torrent.read_stream(b'de', validate=False).dump(validate=False))
t('not dict', lambda: Torrent.read_stream(b'le'))
t('int', lambda: Torrent.read_stream(b'i5e'))
t('empty', lambda: Torrent.read_stream(b''))
t('ie', lambda: Torrent.read_stream(b'ie'))
t('pieces int novalidate dump', lambda: Torrent.read_stream(b'd4:infod6:piecesi5eee', validate=False).dump(validate=False))
t('pieces dict novalidate dump', lambda: Torrent.read_stream(b'd4:infod6:piecesd1:ai1eeee', validate=False).dump(validate=False))
t('pieces dict novalidate validate', lambda: Torrent.read_stream(b'd4:infod6:piecesd1:ai1eeee', validate=False).validate())
