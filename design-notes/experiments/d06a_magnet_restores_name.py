import os, sys, tempfile, shutil, hashlib
sys.path.insert(0, '/repo')
import torf
tmp = tempfile.mkdtemp()
try:
    os.mkdir(tmp + '/content')
    open(tmp + '/content/a.bin', 'wb').write(bytes(range(256)) * 100)
    t = torf.Magnet('urn:btih:' + 'ab' * 20).torrent()     # no metadata: the magnet's hash is stored on the object
    t.path = tmp + '/content'; t.generate()                  # completed from local content: valid, own hash
    del t.metainfo['info']['name']                           # only the name is missing now
    link = str(t.magnet())                                   # falls back to the stored hash ... and restores the default name
    after = t.infohash                                       # the object is valid again: calculated hash
    print(link); print(after, hashlib.sha1(t.dump()[t.dump().index(b'4:info') + 6:-1]).hexdigest())
    assert ('ab' * 20) in link and after != 'ab' * 20 and after in str(t.magnet())
    print('D06a reproduced: the link returned by magnet() carries a hash that is not the infohash of the object it left behind')
finally:
    shutil.rmtree(tmp)
