import random, hashlib, collections, base64
from torf import Torrent, Magnet
import flatbencode
def ser(v):
    if isinstance(v,int): return b'i%de'%v
    if isinstance(v,bytes): return b'%d:'%len(v)+v
    if isinstance(v,list): return b'l'+b''.join(map(ser,v))+b'e'
    if isinstance(v,dict): return b'd'+b''.join(ser(k)+ser(v[k]) for k in sorted(v))+b'e'
def strict_parse(bs, i=0):
    c=bs[i:i+1]
    if c==b'i':
        j=bs.index(b'e',i); s=bs[i+1:j]; n=int(s); assert str(n).encode()==s, 'noncanon int'; return n,j+1
    if c==b'l':
        i+=1; out=[]
        while bs[i:i+1]!=b'e':
            v,i=strict_parse(bs,i); out.append(v)
        return out,i+1
    if c==b'd':
        i+=1; out={}; last=None; spans={}
        while bs[i:i+1]!=b'e':
            k,i=strict_parse(bs,i); assert isinstance(k,bytes); assert last is None or k>last, 'key order'; last=k
            s=i; v,i=strict_parse(bs,i); out[k]=v; spans[k]=(s,i)
        out['__spans__']=spans
        return out,i+1
    j=bs.index(b':',i); n=int(bs[i:j]); assert str(n).encode()==bs[i:j]; assert j+1+n<=len(bs); return bs[j+1:j+1+n], j+1+n
r=random.Random(1)
def rbytes(utf8=None):
    if utf8 is None: utf8 = r.random()<0.7
    if utf8:
        return ''.join(r.choice(['a','b','é','ü','߿','ࠀ','￿','\U00010000','','퟿',' ','/','\x00']) for _ in range(r.randint(0,4))).encode()
    return bytes(r.choice([0xff,0xfe,0x80,0xc0,0x61,0xed,0xa0]) for _ in range(r.randint(1,4)))
def rval(d=0):
    k=r.random()
    if d>3 or k<0.3: return r.choice([0,1,-1,2**64,-2**70,10**30, r.randint(-5,5)])
    if k<0.6: return rbytes()
    if k<0.8: return [rval(d+1) for _ in range(r.randint(0,3))]
    return {rbytes(True): rval(d+1) for _ in range(r.randint(0,3))}
K=16384
fails=collections.Counter(); ex={}
for it in range(20000):
    single = r.random()<0.5
    info={b'name': rbytes(True) if r.random()<0.8 else rbytes(False), b'piece length': K*r.randint(1,4)}
    if single:
        info[b'length']=r.randint(1,5*K)
        size=info[b'length']
    else:
        files=[{b'length': r.randint(0,2*K), b'path':[rbytes(True) or b'x' for _ in range(r.randint(1,3))]} for _ in range(r.randint(1,4))]
        for f in files:
            for _ in range(r.randint(0,1)): f[rbytes(True)]=rval(2)
        info[b'files']=files; size=sum(f[b'length'] for f in files)
    if size==0: continue
    n=-(-size//info[b'piece length'])
    info[b'pieces']=bytes(r.randrange(256) for _ in range(20*n))
    if r.random()<0.3: info[b'private']=r.randint(0,1)
    for _ in range(r.randint(0,2)): info.setdefault(rbytes(True), rval(1))
    md={b'info':info}
    if r.random()<0.5: md[b'creation date']=r.randint(0,2**31)
    if r.random()<0.5: md[b'announce']=b'http://a.b/c'
    if r.random()<0.3: md[b'announce-list']=[[b'http://a.b/c',b'udp://x:1/y'],[b'http://z/']]
    if r.random()<0.3: md[b'comment']=rbytes()
    for _ in range(r.randint(0,3)): md.setdefault(rbytes(True), rval(0))
    # remove md5sum-like or reserved collisions
    x=ser(md)
    try:
        t=Torrent.read_stream(x)
    except Exception as e:
        fails['read '+type(e).__name__+': '+str(e)[:40]]+=1; ex.setdefault('read '+type(e).__name__+': '+str(e)[:40], x); continue
    try:
        y=t.dump()
    except Exception as e:
        fails['dump '+type(e).__name__]+=1; ex.setdefault('dump '+type(e).__name__, x); continue
    if y!=x: fails['roundtrip differs']+=1; ex.setdefault('roundtrip differs',(x,y)); continue
    t2=Torrent.read_stream(y)
    if t2!=t: fails['reread not equal']+=1; ex.setdefault('reread not equal',x)
    # C06
    p,_=strict_parse(y); s,e=p['__spans__'][b'info']
    h=hashlib.sha1(y[s:e]).hexdigest()
    if t.infohash!=h: fails['infohash != sha1(span)']+=1; ex.setdefault('infohash != sha1(span)',x)
    if base64.b32decode(t.infohash_base32)!=bytes.fromhex(h): fails['b32']+=1
    try:
        m=t.magnet()
        if m.infohash!=h: fails['magnet hash']+=1
    except Exception as e:
        fails['magnet '+type(e).__name__+': '+str(e)[:60]]+=1; ex.setdefault('magnet '+type(e).__name__+': '+str(e)[:60], x)
print(dict(fails))
for k,v in ex.items(): print(k, '\n   ', v if not isinstance(v,tuple) else v)
