import sys, os; sys.path.insert(0, '/repo')
import torf
def t(label, f):
    try: print(label, 'OK', repr(f())[:60])
    except Exception as e: print(label, type(e).__name__, str(e)[:100])
def mk(top=None, **info):
    tr = torf.Torrent()
    tr.metainfo['info'].update({'name':'a','piece length':16384,'pieces':b'x'*20}); tr.metainfo['info'].update(info)
    tr.metainfo.update(top or {}); return tr
# D07f
t('D07f files mapping', lambda: mk(files={0:{'length':5,'path':['a']}}).validate())
os.makedirs('T', exist_ok=True); open('T/f','wb').write(b'12345')
def withpath(path):
    tr = torf.Torrent(); tr.path='T'
    tr.metainfo['info'].update({'name':'T','piece length':16384,'pieces':b'x'*20,'files':[{'length':5,'path':path}]})
    return tr
t('D07f path bytes comps + content path', lambda: withpath([b'f']).validate())
t('D07f path empty + content path', lambda: withpath([]).validate())
t('     path ok + content path', lambda: withpath(['f']).validate())
# D07g
def cyc():
    tr=mk(length=5); d=[]; d.append(d); tr.metainfo['x']=d; return tr.dump()
t('D07g cyclic', cyc)
def deep():
    tr=mk(length=5); d=[]
    for _ in range(5000): d=[d]
    tr.metainfo['x']=d; return tr.dump()
t('D07g deep', deep)
# D07h
t('D07h huge int length', lambda: mk(length=10**400).validate())
t('D07h float sum', lambda: mk(files=[{'length':1.7e308,'path':['a']},{'length':1.7e308,'path':['b']}]).is_ready)
t('D07h float len/huge pl', lambda: mk(**{'length':5.0,'piece length':16384*10**400}).validate())
t('D07h 2^54+1 wrong count exported', lambda: mk(**{'length':2**54+1,'piece length':2**54}).dump())
# D07i
t('D07i url-list int', lambda: mk({'url-list':5}, length=5).magnet())
t('D07i url-list bad', lambda: mk({'url-list':['nope']}, length=5).magnet())
t('D07i announce-list dict', lambda: mk({'announce-list':{0:['http://a']}}, length=5).magnet())
t('D07i announce-list tier dict', lambda: mk({'announce-list':[{0:'http://a'}]}, length=5).magnet())
# D07j (fixed in /repo 3420ff7: safe_repr; all three now raise MetainfoError / return False, see also c07_hugeint_probe.py)
t('D07j(fixed) huge int where str expected', lambda: mk({'announce': 10**4300}, length=5).validate())
t('D07j(fixed) huge piece length not /16KiB', lambda: mk(**{'length':5, 'piece length': 10**4300+1}).is_ready)
t('     10**4299 ', lambda: mk({'announce': 10**4299}, length=5).validate())
t('D07j(fixed) Expected N pieces', lambda: mk(length=10**4305).validate())
t('D07j(fixed) nested in list', lambda: mk({'announce': [1, [10**4300]]}, length=5).validate())
