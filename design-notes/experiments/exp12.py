import torf, os, shutil, io, hashlib, time
from torf import Torrent
K=16384
def mkdir(name, files):
    shutil.rmtree(name, ignore_errors=True); os.makedirs(name)
    for fn, data in files.items():
        p=os.path.join(name, fn); os.makedirs(os.path.dirname(p), exist_ok=True); open(p,'wb').write(data)
def t(label, f):
    try:
        r = f(); print(f'{label}: OK -> {r!r}'[:500])
    except BaseException as e:
        print(f'{label}: {type(e).__module__}.{type(e).__name__}: {e}'[:300])
mkdir('c/V', {'a': os.urandom(K+5), 'b': os.urandom(7), 'c': os.urandom(2*K)})
tr = Torrent('c/V', piece_size=K); tr.generate()
data = tr.dump()
# C12: progress with interval
calls=[]
def cb(t_, fp, done, total, pi, ph, exc): calls.append((done,total,pi,type(exc).__name__ if exc else None))
t2 = Torrent.read_stream(data)
t('verify ok', lambda: t2.verify('c/V', callback=cb, interval=1000, threads=3)); print(calls); calls.clear()
# corrupt one byte in middle piece
p='c/V/c'; d=bytearray(open(p,'rb').read()); d[100]^=1; open(p,'wb').write(d)
t('verify corrupt interval', lambda: t2.verify('c/V', callback=cb, interval=1000, threads=3)); print(calls); calls.clear()
t('verify corrupt nocb', lambda: t2.verify('c/V'))
os.remove('c/V/b')
t('verify missing interval', lambda: t2.verify('c/V', callback=cb, interval=1000, threads=3)); print(calls); calls.clear()
t('verify_filesize missing nocb', lambda: t2.verify_filesize('c/V'))
fc=[]
t('verify_filesize missing cb', lambda: t2.verify_filesize('c/V', callback=lambda t_, fs, tf, done, total, exc: fc.append((str(fs), str(tf), done, total, type(exc).__name__ if exc else None)))); print(fc)
# zero-length entries in verify_filesize
t3 = Torrent(); t3.metainfo['info'].update({'name':'Z','piece length':K,'files':[{'length':5,'path':['a']},{'length':0,'path':['z']}],'pieces':b'x'*20})
mkdir('c/Z', {'a': b'12345'})
t('filesize zero-length missing', lambda: t3.verify_filesize('c/Z'))
t('verify zero-length missing nocb', lambda: t3.verify('c/Z'))
t('verify zero-length missing cb', lambda: t3.verify('c/Z', callback=lambda *a: print('   cb', a[2:])))
# C17 write
t4 = Torrent('c/Z'); 
open('c/out.torrent','wb').write(b'OLD')
t('write invalid over existing, overwrite', lambda: t4.write('c/out.torrent', overwrite=True)); print(open('c/out.torrent','rb').read())
t('write valid no overwrite', lambda: tr.write('c/out.torrent')); print(open('c/out.torrent','rb').read()[:10])
bio = io.BytesIO(b'OLDOLDOLD' * 1000); bio.seek(5)
t('write_stream invalid', lambda: t4.write_stream(bio)); print(len(bio.getvalue()), bio.tell())
t('write_stream valid', lambda: tr.write_stream(bio)); print(bio.getvalue()==tr.dump())
t('write to dir', lambda: tr.write('c/Z', overwrite=True))
t('write to missing dir', lambda: tr.write('c/nonexist/x.torrent'))
