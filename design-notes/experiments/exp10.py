import torf, os, itertools, shutil, collections, traceback, hashlib, math
from torf import Torrent, TorrentFileStream
import torf._utils as U
def mkdir(name, files):
    shutil.rmtree(name, ignore_errors=True); os.makedirs(name)
    for fn, data in files.items():
        open(os.path.join(name, fn),'wb').write(data)
fails = collections.Counter(); ex = {}
def fail(kind, info):
    fails[kind]+=1; ex.setdefault(kind, info)
L = 4
cnt=0
for n in (1,2,3):
  for sizes in itertools.product(range(0, 2*L+2), repeat=n):
    if sum(sizes)==0: continue
    cnt+=1
    names = [chr(97+i) for i in range(n)]
    data = {nm: bytes([65+i])*sz for i,(nm,sz) in enumerate(zip(names,sizes))}
    mkdir('c/S', data)
    tr = Torrent()
    tr.metainfo['info'].update({'name':'S','piece length':L,'files':[{'length':sz,'path':[nm]} for nm,sz in zip(names,sizes)]})
    stream = b''.join(data[nm] for nm in names); total=len(stream)
    npieces = -(-total//L)
    tr.metainfo['info']['pieces'] = b''.join(hashlib.sha1(stream[i*L:(i+1)*L]).digest() for i in range(npieces))
    files = list(tr.files)
    pos = [sum(sizes[:i]) for i in range(n)]
    with TorrentFileStream(tr, content_path='c/S') as tfs:
        # max_piece_index
        if tfs.max_piece_index != npieces-1: fail('max_piece_index', (sizes,))
        for i,f in enumerate(files):
            try:
                if tfs.get_file_position(f) != pos[i]: fail('file_position', (sizes,i, tfs.get_file_position(f)))
            except Exception as e: fail('file_position exc', (sizes,i,repr(e)))
            # piece indexes of file
            want = sorted({b//L for b in range(pos[i], pos[i]+sizes[i])})
            try:
                got = tfs.get_piece_indexes_of_file(f)
                if got != want: fail('piece_indexes_of_file' + (' (zero-len file)' if sizes[i]==0 else ''), (sizes,i,got,want))
            except Exception as e: fail('piece_indexes_of_file exc', (sizes,i,repr(e)))
            wantx = [p for p in want if all(not (pos[j] < (p+1)*L and pos[j]+sizes[j] > p*L) for j in range(n) if j!=i)]
            try:
                got = tfs.get_piece_indexes_of_file(f, exclusive=True)
                if got != wantx: fail('piece_indexes_of_file exclusive'+ (' (zero-len file)' if sizes[i]==0 else (' (layout has zero-len)' if 0 in sizes else '')), (sizes,i,got,wantx))
            except Exception as e: fail('piece_indexes_of_file excl exc'+ (' (zero-len file)' if sizes[i]==0 else (' (layout has zero-len)' if 0 in sizes else '')), (sizes,i,repr(e)))
        for b in range(-1, total+1):
            want = next((j for j in range(n) if pos[j] <= b < pos[j]+sizes[j]), None) if 0<=b<total else None
            try:
                got = tfs.get_file_at_position(b)
                goti = [os.path.basename(str(got))]
                if want is None: fail('file_at_position no raise', (sizes,b,str(got)))
                elif os.path.basename(str(got)) != names[want]: fail('file_at_position'+(' (layout has zero-len)' if 0 in sizes else ''), (sizes,b,str(got),names[want]))
            except ValueError as e:
                if want is not None: fail('file_at_position raise', (sizes,b))
            except Exception as e: fail('file_at_position exc', (sizes,b,repr(e)))
        for p in range(-1, npieces+1):
            want = [names[j] for j in range(n) if sizes[j]>0 and pos[j] < (p+1)*L and pos[j]+sizes[j] > p*L] if 0<=p<npieces else None
            try:
                got = [os.path.basename(str(x)) for x in tfs.get_files_at_piece_index(p)]
                if want is None: fail('files_at_piece_index no raise', (sizes,p,got))
                elif got != want: fail('files_at_piece_index'+(' (layout has zero-len)' if 0 in sizes else ''), (sizes,p,got,want))
            except ValueError as e:
                if want is not None: fail('files_at_piece_index raise', (sizes,p))
            except Exception as e: fail('files_at_piece_index exc', (sizes,p,repr(e)))
            # get_piece
            try:
                got = tfs.get_piece(p)
                if not (0<=p<npieces): fail('get_piece no raise', (sizes,p))
                elif got != stream[p*L:(p+1)*L]: fail('get_piece wrong'+(' (layout has zero-len)' if 0 in sizes else ''), (sizes,p,got,stream[p*L:(p+1)*L]))
            except ValueError as e:
                if 0<=p<npieces: fail('get_piece raise', (sizes,p))
            except BaseException as e: fail('get_piece exc '+type(e).__name__+(' (layout has zero-len)' if 0 in sizes else ''), (sizes,p,repr(e)))
            try:
                got = tfs.verify_piece(p)
                if not (0<=p<npieces): fail('verify_piece no raise', (sizes,p,got))
                elif got is not True: fail('verify_piece'+(' (layout has zero-len)' if 0 in sizes else ''), (sizes,p,got))
            except ValueError as e:
                if 0<=p<npieces: fail('verify_piece raise', (sizes,p))
            except BaseException as e: fail('verify_piece exc '+type(e).__name__+(' (layout has zero-len)' if 0 in sizes else ''), (sizes,p,repr(e)))
    with TorrentFileStream(tr, content_path='c/S') as tfs:
        try:
            seq = [p for p,_,_ in tfs.iter_pieces()]
            want = [stream[i*L:(i+1)*L] for i in range(npieces)]
            if seq != want: fail('iter_pieces'+(' (layout has zero-len)' if 0 in sizes else ''), (sizes, seq, want))
        except BaseException as e: fail('iter_pieces exc', (sizes, repr(e)))
print('layouts', cnt)
for k,v in sorted(fails.items()): print(k, v, ex[k])
