"""Where can an int beyond the int->str limit (4300 digits) still meet a conversion?  Plain script on /repo
after fix 3420ff7 (safe_repr): every export answers MetainfoError / a result, never ValueError."""
import sys, os; sys.path.insert(0, '/repo')
import torf
H = 10**4300; H5 = 10**4305
def t(label, f):
    try: print(label, 'OK', repr(f())[:60])
    except Exception as e: print(label, type(e).__name__, str(e)[:100])
def mk(top=None, **info):
    tr = torf.Torrent()
    tr.metainfo['info'].update({'name':'a','piece length':16384,'pieces':b'x'*20}); tr.metainfo['info'].update(info)
    tr.metainfo.update(top or {}); return tr
for op in ('validate','dump','infohash','magnet','is_ready'):
    def call(tr):
        a = getattr(tr, op)
        return a() if callable(a) else a
    print('==', op)
    t('announce huge', lambda: call(mk({'announce': H}, length=5)))
    t('length 10**4305', lambda: call(mk(length=H5)))
    t('nested in list', lambda: call(mk({'announce': [1,[H]]}, length=5)))
    t('piece length huge not div', lambda: call(mk(**{'length':5,'piece length':H})))
    t('piece length huge div', lambda: call(mk(**{'length':5,'piece length':H*16384})))
    t('length huge + piece length huge valid', lambda: call(mk(**{'length':H*16384,'piece length':H*16384})))
    t('length huge valid multi', lambda: call(mk(**{'files':[{'length':H*16384,'path':['a']}],'piece length':H*16384})))
    t('huge int key', lambda: call(mk({H: 1}, length=5)))
    t('huge int key in info', lambda: call(mk(length=5, **{'x': {H: 1}})))
    t('huge int val unknown key', lambda: call(mk({'foo': H}, length=5)))
    t('private huge', lambda: call(mk(length=5, private=H)))
    t('creation date huge', lambda: call(mk({'creation date':H}, length=5)))
    t('announce-list idx huge key', lambda: call(mk({'announce-list':{H:['http://a']}}, length=5)))
    t('files mapping w huge key', lambda: call(mk(files={H:{'length':5,'path':['a']}})))
    t('files length huge float-ish', lambda: call(mk(files=[{'length':-H,'path':['a']}])))
    t('files path huge', lambda: call(mk(files=[{'length':5,'path':[H]}])))
    t('md5sum huge', lambda: call(mk(length=5, md5sum=H)))
    t('pieces huge int', lambda: call(mk(length=5, pieces=H)))
    t('name huge int', lambda: call(mk(length=5, name=H)))
    t('info huge', lambda: call(mk({'info':H})))

# --- a *valid* torrent whose size has 4301 digits (two files of 9*10**4299, every single int printable):
# validate/dump/infohash/magnet() succeed (model: ok); only str(Magnet) raises ValueError (Magnet.__str__ formats xl) —
# that is after the export returned, outside C07's statement (candidate for the Magnet properties C13/C14).
pl = 16384 * 10**4295
L = 9 * 10**4299
t = torf.Torrent()
t.metainfo['info'].update({'name':'a','piece length':pl,'pieces':b'x'*220,
  'files':[{'length':L,'path':['a']},{'length':L,'path':['b']}]})
t.validate(); print('validate ok; size digits', len(str(t.size)) if False else 'n/a')
print('dump', len(t.dump()), 'infohash', t.infohash)
m = t.magnet(); print('magnet() ok', type(m).__name__)
try: str(m)
except Exception as e: print('str(magnet):', type(e).__name__)
