import sys, time; sys.path.insert(0,'/repo'); import torf
def k(f):
    try: f(); return 'ok'
    except Exception as e: return type(e).__name__
# D08f
print('D08f', k(lambda: torf.Torrent.read_stream(b'd4:name223372036854775807:xe')))
# D08g (fixed by 19d011f: now MetainfoError; RecursionError before)
x = b'd1:a' + b'l'*495 + b'e'*495 + b'4:infod6:lengthi5e4:name1:a12:piece lengthi16384e6:pieces20:' + b'x'*20 + b'ee'
t = torf.Torrent.read_stream(x)
def f(n): return t.dump() if n == 0 else f(n-1)
try: f(10); print('D08g ok')
except Exception as e: print('D08g', type(e).__name__)
print('D08g-pieces', k(lambda: torf.Torrent.read_stream(b'd4:infod6:pieces'+b'l'*600+b'e'*600+b'ee', validate=False).dump(validate=False)))
# D08i (fixed in /repo 3420ff7: all three print MetainfoError now)
print('D08i', k(lambda: torf.Torrent.read_stream(b'd4:infod6:lengthi5e4:name1:a12:piece lengthi16384e6:pieces'+b'l'*2000+b'e'*2000+b'ee')))
t2 = torf.Torrent.read_stream(b'd4:infod6:lengthi5e4:name1:a12:piece lengthi16384e6:pieces'+b'l'*2000+b'e'*2000+b'ee', validate=False)
print('D08i validate', k(t2.validate), 'dump', k(t2.dump))
# D08h
for n in (4000, 8000, 16000):
    s = 'magnet:?xt=' + 'a'*40 + ''.join('&tr=http://t%d.example/a' % i for i in range(n))
    t0=time.process_time(); torf.Magnet.from_string(s); print('D08h', n, len(s), round(time.process_time()-t0,2))
