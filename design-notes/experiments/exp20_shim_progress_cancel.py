import sys, os, shutil, time, hashlib, collections, random
sys.path.insert(0,'/verif/design-notes/prototypes')
import sched_shim_prototype as shim
import torf, torf._generate as G
from torf import Torrent
K=16384
ROOT='/dev/shm/tq/V'; shutil.rmtree(ROOT, ignore_errors=True); os.makedirs(ROOT)
sizes={'a':K+5,'b':7,'c':2*K,'d':K-12+3*K}
for n,s in sizes.items(): open(os.path.join(ROOT,n),'wb').write(os.urandom(s))
base=Torrent(ROOT, piece_size=K); base.generate(); DATA=base.dump(); TOTAL=base.pieces
def run(seed, mode, threads, interval, damage=None, cbplan=None):
    r=random.Random(seed)
    s=shim.Sched(seed=seed)
    th,qu=shim.make_shims(s)
    G.threading,G.queue=th,qu
    clock=[0.0]
    def mono():
        clock[0]+= r.choice([0.0,0.0,0.3,5.0])
        return clock[0]
    G.time_monotonic=mono
    calls=[]; res={}
    if mode=='gen':
        t=Torrent(ROOT, piece_size=K)
        def cb(tor,fp,done,total):
            calls.append((done,total,None,None))
            if cbplan and cbplan[0]=='cancel' and done==cbplan[1]: return 'stop'
            if cbplan and cbplan[0]=='raise' and done==cbplan[1]: raise KeyError('boom')
        def main():
            try: res['r']=t.generate(threads=threads, callback=cb, interval=interval)
            except BaseException as e: res['r']=e
    else:
        t=Torrent.read_stream(DATA)
        def cb(tor,fp,done,total,pi,ph,exc):
            calls.append((done,total,pi,type(exc).__name__ if exc else None))
            if cbplan and cbplan[0]=='cancel' and done==cbplan[1]: return 'stop'
            if cbplan and cbplan[0]=='raise' and done==cbplan[1]: raise KeyError('boom')
        def main():
            try: res['r']=t.verify(ROOT, threads=threads, callback=cb, interval=interval)
            except BaseException as e: res['r']=e
    try: s.run(main)
    except shim.Deadlock as e: res['r']='DEADLOCK %s'%e
    alive=[c.name for c in s.threads.values() if not c.finished]
    return res['r'], calls, alive, t
fails=collections.Counter(); ex={}
def fail(k,info): fails[k]+=1; ex.setdefault(k,info)
t0=time.time(); n=0
for seed in range(1200):
    r=random.Random(seed*7+1)
    mode=r.choice(['gen','ver']); threads=r.choice([1,2,3]); interval=r.choice([0,0,1,1000])
    cbplan=r.choice([None,None,('cancel',r.randint(1,TOTAL)),('raise',r.randint(1,TOTAL))])
    res,calls,alive,t=run(seed,mode,threads,interval,cbplan=cbplan); n+=1
    key=(mode,threads,interval,cbplan)
    if isinstance(res,str) and res.startswith('DEADLOCK'): fail('deadlock/janitor-race '+res[:40], (seed,key)); continue
    if alive: fail('alive '+str(alive), (seed,key,res))
    dones=[c[0] for c in calls]
    if any(not (1<=d<=TOTAL) for d in dones): fail('done out of range',(seed,key,calls))
    if any(c[1]!=TOTAL for c in calls): fail('total wrong',(seed,key,calls))
    if dones!=sorted(dones): fail('done decreases',(seed,key,calls))
    if len(set(dones))!=len(dones): fail('done repeats',(seed,key,calls))
    if cbplan is None:
        if res is not True: fail('result not True',(seed,key,res))
        if not calls or dones[-1]!=TOTAL: fail('no final call',(seed,key,calls))
        if interval==0 and dones!=list(range(1,TOTAL+1)): fail('zero interval not 1..n',(seed,key,calls))
        if mode=='gen' and t.metainfo['info'].get('pieces')!=base.metainfo['info']['pieces']: fail('pieces wrong',(seed,key))
    elif cbplan[0]=='raise':
        hit = cbplan[1] in dones
        if hit and not isinstance(res,KeyError): fail('raise not propagated',(seed,key,res,calls))
        if mode=='gen' and hit and 'pieces' in t.metainfo['info']: fail('pieces stored after raise',(seed,key))
    elif cbplan[0]=='cancel':
        hit = cbplan[1] in dones
        if hit and mode=='gen':
            full = t.metainfo['info'].get('pieces')==base.metainfo['info']['pieces']
            if res is True and not full: fail('True without full pieces',(seed,key))
            if res is False and 'pieces' in t.metainfo['info']: fail('False but pieces stored',(seed,key))
            if res not in (True,False): fail('cancel result '+repr(res)[:40],(seed,key))
print('runs',n,'time',round(time.time()-t0,1))
for k,v in fails.items(): print(v,k,ex[k])
