import torf, io, traceback, sys, datetime, base64
from torf import Torrent, Magnet
def t(label, f):
    try:
        r = f()
        print(f'{label}: OK -> {r!r}'[:400])
    except BaseException as e:
        print(f'{label}: {type(e).__module__}.{type(e).__name__}: {e}'[:300])
h16 = 'ab'*20
h32 = base64.b32encode(bytes.fromhex(h16)).decode()
print(h32)
t('hex+garbage infohash', lambda: Magnet(h16).__setattr__('infohash', h16+'zzz'))
t('hex+garbage xt ctor', lambda: Magnet(h16+'zzz').infohash)
t('b32+newline', lambda: Magnet(h32+'\n').infohash)
t('hex+newline', lambda: Magnet(h16+'\n').infohash)
t('urn+hex+newline', lambda: Magnet('urn:btih:'+h16+'\n').infohash)
t('garbage+b32', lambda: Magnet('zz'+h32).infohash)
def inval_after_valid():
    m = Magnet(h16); m.xt = 'nonsense'; return m.infohash
t('invalid xt after valid', inval_after_valid)
def inval_after_valid2():
    m = Magnet(h16); m.infohash = 'nonsense'; return m.infohash
t('invalid infohash after valid', inval_after_valid2)
t('lower b32 torrent()', lambda: Magnet(h32.lower()).torrent().infohash)
t('upper b32 torrent()', lambda: Magnet(h32).torrent().infohash)
t('upper hex torrent()', lambda: Magnet(h16.upper()).torrent().infohash)
t('from_string bracket', lambda: Magnet.from_string('magnet://[?xt=urn:btih:'+h16))
t('from_string bracket2', lambda: Magnet.from_string('//['))
t('from_string bracket3', lambda: Magnet.from_string('magnet://[v1.x]/?xt=urn:btih:'+h16))
t('from_string as_ roundtrip', lambda: Magnet.from_string(str(Magnet(h16, as_='http://a/b'))))
t('from_string x roundtrip', lambda: Magnet.from_string(str(Magnet(h16, x_pe='1.2.3.4:5'))))
t('from_string x_ ', lambda: Magnet.from_string('magnet:?xt=urn:btih:'+h16+'&x_pe=5').x)
t('dn empty roundtrip', lambda: Magnet.from_string(str(Magnet(h16, dn=''))).dn)
t('dn weird roundtrip', lambda: Magnet.from_string(str(Magnet(h16, dn='a&b=c+d%e#f?g ü\t\r x'))).dn)
t('kt empty', lambda: Magnet.from_string(str(Magnet(h16, kt=['']))).kt)
t('kt a,,b', lambda: Magnet.from_string(str(Magnet(h16, kt=['a','','b']))).kt)
t('kt plus', lambda: Magnet.from_string(str(Magnet(h16, kt=['a+b','c%20d']))).kt)
t('kt nbsp', lambda: Magnet.from_string(str(Magnet(h16, kt=['a b']))).kt)
t('tr space', lambda: (Magnet(h16, tr=['http://a/b c']).tr, Magnet.from_string(str(Magnet(h16, tr=['http://a/b c']))).tr))
t('tr plus', lambda: (Magnet.from_string(str(Magnet(h16, tr=['http://a/b+c']))).tr))
t('xl 0', lambda: Magnet(h16, xl=0))
t('xl list', lambda: Magnet(h16, xl=[]))
t('xl float', lambda: Magnet(h16, xl=1.5).xl)
t('xl str float', lambda: Magnet(h16, xl='1.5').xl)
t('xl inf', lambda: Magnet(h16, xl=float('inf')).xl)
t('xl fullwidth', lambda: Magnet(h16, xl='１２').xl)
t('from_string xl huge', lambda: Magnet.from_string('magnet:?xt=urn:btih:'+h16+'&xl='+'9'*5000).xl)
t('from_string no scheme', lambda: Magnet.from_string('?xt=urn:btih:'+h16))
t('from_string dup dn', lambda: Magnet.from_string('magnet:?xt=urn:btih:'+h16+'&dn=a&dn=b'))
t('from_string tr bad', lambda: Magnet.from_string('magnet:?xt=urn:btih:'+h16+'&tr=foo'))
t('from_string bytes', lambda: Magnet.from_string(b'magnet:?xt=urn:btih:'+h16.encode()))
t('from_string semicolon', lambda: Magnet.from_string('magnet:?xt=urn:btih:'+h16+';dn=a').dn)
t('from_string surrogate', lambda: Magnet.from_string('magnet:?xt=urn:btih:'+h16+'&dn=\udc80').dn)
t('from_string many fields', lambda: Magnet.from_string('magnet:?xt=urn:btih:'+h16+'&tr=http://a'*5).tr)
t('torrent magnet roundtrip', None) if False else None
def ws_none():
    m = Magnet(h16, ws=['http://a/b']); return Magnet.from_string(str(m)).ws
t('ws', ws_none)
def tr_dup():
    m = Magnet(h16, tr=['http://a/b','http://a/b']); return m.tr
t('tr dup', tr_dup)
def xs_space():
    m = Magnet(h16, xs='http://a/b c'); return (m.xs, Magnet.from_string(str(m)).xs)
t('xs space', xs_space)
