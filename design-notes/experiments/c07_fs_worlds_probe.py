"""What does the unchanged Torrent.validate() (and every export) do when the OS answers something else than
"regular file of the listed size" for a listed path?  Real worlds (long names, PATH_MAX, NUL, symlink loops,
ENOTDIR, directories, FIFOs, sockets) as root and search-permission denied as uid 65534 in a forked child.
Result on /repo f86a28a: MetainfoError everywhere (os.path.exists/isfile swallow OSError and ValueError)."""
import sys, os, io, socket, shutil, errno
sys.path.insert(0, sys.argv[1] if len(sys.argv) > 1 else '/repo')
import torf
root = '/dev/shm/c07-fs-probe'
shutil.rmtree(root, ignore_errors=True)
os.makedirs(root + '/T/sub'); os.chmod(root, 0o755)
open(root + '/T/a', 'wb').write(b'a' * 5); open(root + '/T/sub/b', 'wb').write(b'b' * 7)
os.makedirs(root + '/T/locked'); open(root + '/T/locked/c', 'wb').write(b'c' * 3)
T0 = torf.Torrent(); T0.path = root + '/T'
os.symlink('loop', root + '/T/loop'); os.symlink('nowhere', root + '/T/dangling'); os.symlink('a', root + '/T/link-a')
os.symlink('sub', root + '/T/link-sub')
os.mkfifo(root + '/T/fifo'); s = socket.socket(socket.AF_UNIX); s.bind(root + '/T/sock')
def mk(entries):
    t = torf.Torrent(); t._path = T0._path
    total = sum(l for l, _ in entries)
    t.metainfo['info'].update({'name': 'T', 'piece length': 16384, 'pieces': b'x' * 20 * max(1, -(-total // 16384)),
                               'files': [{'length': l, 'path': p} for l, p in entries]})
    return t
def ops(t):
    r = []
    for name, f in (('validate', t.validate), ('dump', t.dump), ('infohash', lambda: t.infohash), ('magnet', t.magnet),
                    ('is_ready', lambda: t.is_ready), ('write_stream', lambda: t.write_stream(io.BytesIO()))):
        try: v = f(); r.append(name + ':' + ('ok' if name != 'is_ready' else str(v)))
        except BaseException as e: r.append(name + ':' + type(e).__name__)
    return ' '.join(r)
def st(p):
    try: s = os.stat(p); return 'mode=%o size=%d' % (s.st_mode, s.st_size)
    except OSError as e: return errno.errorcode.get(e.errno, e.errno)
    except ValueError as e: return 'ValueError'
worlds = {
 'ok': [(5, ['a']), (7, ['sub', 'b'])],
 'missing': [(5, ['nope'])],
 'name255': [(5, ['x' * 255])], 'name256': [(5, ['x' * 256])], 'name300': [(5, ['x' * 300])], 'euro100': [(5, ['€' * 100])],
 'sub/name256': [(5, ['sub', 'y' * 256])],
 'path4095': [(5, ['p' * 200] * 19 + ['q' * 50])], 'path5000': [(5, ['p' * 200] * 25)],
 'nul': [(5, ['a\0b'])], 'nul-only': [(5, ['\0'])],
 'loop': [(5, ['loop'])], 'below-loop': [(5, ['loop', 'x'])], 'dangling': [(5, ['dangling'])], 'link-a': [(5, ['link-a'])],
 'link-sub/b': [(7, ['link-sub', 'b'])],
 'below-file': [(5, ['a', 'x'])], 'dir-as-file': [(5, ['sub'])], 'dir-as-file-size': [(os.stat(root + '/T/sub').st_size, ['sub'])],
 'fifo': [(0, ['fifo'])], 'sock': [(0, ['sock'])], 'dev-null-abs': [(0, ['/dev/null'])], 'abs-file': [(5, [root + '/T/a'])],
 'dotdot': [(5, ['..', 'T', 'a'])], 'locked/c': [(3, ['locked', 'c'])], 'empty-comp': [(5, ['', 'a'])], 'dot': [(5, ['.', 'a'])],
 'surrogate': [(5, ['\udcff'])], 'trailing-slash': [(5, ['a/'])], 'slash-in-comp': [(7, ['sub/b'])],
}
def run(tag):
    for k, e in worlds.items():
        try: fp = os.path.join(root + '/T', os.path.join(*e[-1][1]))
        except Exception as x: fp = None
        print(tag, k.ljust(18), (st(fp) if fp else '-').ljust(24), ops(mk(e)))
run('root  ')
os.chmod(root + '/T/locked', 0)
pid = os.fork()
if pid == 0:
    os.setgid(65534); os.setuid(65534)
    for k in ('ok', 'locked/c', 'missing'):
        e = worlds[k]; fp = os.path.join(root + '/T', os.path.join(*e[-1][1]))
        print('nobody', k.ljust(18), st(fp).ljust(24), ops(mk(e)))
    os._exit(0)
os.waitpid(pid, 0)
os.chmod(root + '/T/locked', 0o755)
shutil.rmtree(root)
