# usage: timeout -s KILL 15 python path_component_slash_generate_walks_root.py slash|noslash   (slash never returns: walks the file system from /)
import os, sys, tempfile
sys.path.insert(0, '/repo')
import torf
tmp = tempfile.mkdtemp()
f = tmp + '/content'; open(f, 'wb').write(b'x')
t = torf.Torrent(path=f); t.generate()                       # _path is the 1-byte file
variant = sys.argv[1]
files = {'slash':   [{'length': 13871, 'path': ['a']}, {'length': 1, 'path': ['b', 'c', '/']}],
         'noslash': [{'length': 13871, 'path': ['a']}, {'length': 1, 'path': ['b', 'c', 'd']}]}[variant]
info = t.metainfo['info']; info.pop('length'); info['files'] = files; info['piece length'] = 65536; info['pieces'] = bytes(20)
print(variant, '-> joined path of 2nd entry:', os.path.join(f, *files[1]['path'])); sys.stdout.flush()
print('generate() returned', t.generate())
