import sys, os, tempfile, hashlib
sys.path.insert(0, '/repo')
import torf
from torf import TorrentFileStream
def mk(L, sizes):
    d = tempfile.mkdtemp(dir='/dev/shm'); top = os.path.join(d, 'T'); os.makedirs(top)
    for i, s in enumerate(sizes): open(os.path.join(top, f'f{i}'), 'wb').write(bytes([65 + i]) * s)
    t = torf.Torrent(); t.metainfo['info'].update({'name': 'T', 'piece length': L, 'files': [{'length': s, 'path': [f'f{i}']} for i, s in enumerate(sizes)]})
    stream = b''.join(bytes([65 + i]) * s for i, s in enumerate(sizes))
    t.metainfo['info']['pieces'] = b''.join(hashlib.sha1(stream[k:k + L]).digest() for k in range(0, len(stream), L))
    return t, TorrentFileStream(t, content_path=top)
def show(label, f):
    try: print(label, '->', f())
    except BaseException as e: print(label, '-> raises', type(e).__name__)
# D11a: zero-length entry after a file that ends on a piece boundary
t, s = mk(2, [2, 0])
show('D11a get_piece(0)            [want b"AA"]', lambda: s.get_piece(0))
show('D11a verify_piece(0)         [want True]', lambda: s.verify_piece(0))
show('D11a get_files_at_piece_index(1) [want ValueError: only piece 0 exists]', lambda: [str(f) for f in s.get_files_at_piece_index(1)])
show('D11a get_files_at_piece_index(0) [want [T/f0]]', lambda: [str(f) for f in s.get_files_at_piece_index(0, content_path='')])
t, s = mk(2, [1, 0, 1])
show('D11a get_piece_indexes_of_file(f1) [want []: no byte]', lambda: s.get_piece_indexes_of_file(t.files[1]))
show('D11a get_files_at_byte_range(0,0) [want [T/f0]]', lambda: [str(f) for f in s.get_files_at_byte_range(0, 0, content_path='')])
t, s = mk(2, [2, 0, 2])
show('D11a get_piece_indexes_of_file(f0, exclusive=True) [want [0]]', lambda: s.get_piece_indexes_of_file(t.files[0], exclusive=True))
# D11c
t, s = mk(2, [1, 2])
show('D11c get_relative_piece_indexes(f1, [-1]) [want [1]: f1 spans pieces 0 and 1]', lambda: s.get_relative_piece_indexes(t.files[1], [-1]))
show('     get_absolute_piece_indexes(f1, [-1]) [want [1]]', lambda: s.get_absolute_piece_indexes(t.files[1], [-1]))
