import torf, os, itertools, collections
from torf import Torrent, TorrentFileStream
fails=collections.Counter(); ex={}
def fail(k,i): fails[k]+=1; ex.setdefault(k,i)
for L in (2,3,4):
  for n in (1,2,3):
    for sizes in itertools.product(range(1,2*L+3), repeat=n):
        names=[chr(97+i) for i in range(n)]
        tr=Torrent(); tr.metainfo['info'].update({'name':'S','piece length':L,'files':[{'length':s,'path':[nm]} for nm,s in zip(names,sizes)]})
        pos=[sum(sizes[:i]) for i in range(n)]
        tfs=TorrentFileStream(tr)
        for i,f in enumerate(tr.files):
            a=pos[i]//L; b=(pos[i]+sizes[i]-1)//L; cnt=b-a+1
            for rel in range(-cnt-2, cnt+3):
                # arithmetic definition: negative counts from the end, clamp into [0,cnt-1]
                r = rel if rel>=0 else cnt+rel
                r = max(0,min(cnt-1,r))
                try:
                    got_abs=tfs.get_absolute_piece_indexes(f,[rel]); 
                    if got_abs!=[a+r]: fail('absolute',(L,sizes,i,rel,got_abs,[a+r]))
                except Exception as e: fail('absolute exc',(L,sizes,i,rel,repr(e)))
                try:
                    got_rel=tfs.get_relative_piece_indexes(f,[rel])
                    if got_rel!=[r]: fail('relative'+(' (file not piece-aligned)' if pos[i]%L else ' (aligned)'),(L,sizes,i,rel,got_rel,[r]))
                except Exception as e: fail('relative exc',(L,sizes,i,rel,repr(e)))
for k,v in fails.items(): print(k,v,ex[k])
print('done')
