#!/usr/bin/env python3
"""Plain script on the unmodified /repo: MemoryError in the middle of a buffered read of one piece.
The raw file returns at most 8 KiB per call (legal short reads); the 2nd raw call of the 3rd piece raises
MemoryError (what io.BufferedReader does when it cannot allocate the memoryview for a raw read).
torf retries the read after MemoryError (Reader._handle_oom) without restoring the file position."""
import hashlib, io, os, sys, tempfile, shutil
sys.path.insert(0, os.environ.get('REPO', '/repo'))
import torf
from torf import _stream

L, N = 16384, 6
class Raw(io.FileIO):
    calls = 0
    def readinto(self, b):
        Raw.calls += 1
        if Raw.calls == 6:
            raise MemoryError('cannot allocate')
        return super().readinto(memoryview(b)[:8192])

d = tempfile.mkdtemp(prefix='oomraw-', dir='/dev/shm')
p = os.path.join(d, 'content.bin')
data = os.urandom(N * L - 4096)
open(p, 'wb').write(data)
exp = b''.join(hashlib.sha1(data[i:i + L]).digest() for i in range(0, len(data), L))
_stream.open = lambda path, mode='r', *a, **k: io.BufferedReader(Raw(os.fspath(path), 'rb'))
try:
    t = torf.Torrent(path=p, piece_size=L)
    try:
        r = t.generate(threads=2)
    except BaseException as e:
        r = repr(e)
finally:
    del _stream.open
got = t.metainfo['info'].get('pieces')
print('generate() ->', r, '| raw calls', Raw.calls, '| digests stored', None if got is None else len(got) // 20,
      '| correct' if got == exp else '| WRONG digests at ' + str([i for i in range(N) if got and got[20*i:20*i+20] != exp[20*i:20*i+20]]))
shutil.rmtree(d)
sys.exit(1 if (r is True and got != exp) else 0)
