import torf, io, os, traceback, sys, datetime, base64, shutil, hashlib
from torf import Torrent, Magnet, TorrentFileStream
def t(label, f):
    try:
        r = f()
        print(f'{label}: OK -> {r!r}'[:700])
    except BaseException as e:
        print(f'{label}: {type(e).__module__}.{type(e).__name__}: {e}'[:300])
        traceback.print_exc()
K=16384
def mkdir(name, files):
    shutil.rmtree(name, ignore_errors=True)
    os.makedirs(name)
    for fn, data in files.items():
        p = os.path.join(name, fn); os.makedirs(os.path.dirname(p) or '.', exist_ok=True)
        open(p,'wb').write(data)
# C18: middle piece of second file not sampled
a = os.urandom(10*K); b = os.urandom(10*K)
mkdir('c/orig/R', {'a': a, 'b': b})
cand = Torrent('c/orig/R', piece_size=K); cand.generate(); os.makedirs('c/tor', exist_ok=True); cand.write('c/tor/cand.torrent', overwrite=True)
# local content differs in the middle piece of b (piece index 15)
b2 = bytearray(b); b2[5*K+7] ^= 0xff
mkdir('c/local/R', {'a': a, 'b': bytes(b2)})
def c18():
    tr = Torrent('c/local/R')
    r = tr.reuse('c/tor')
    return r, (tr.verify('c/local/R', callback=lambda *a: None) if r else None)
t('C18 middle piece unsampled', c18)
# C18: atomicity with slash path candidate
def c18b():
    mkdir('c/local2/R', {'d/a': a})
    c = Torrent('c/local2/R', piece_size=K); c.generate()
    c.metainfo['info']['files'][0]['path'] = ['d/a']
    os.makedirs('c/tor2', exist_ok=True); c.write('c/tor2/x.torrent', overwrite=True)
    tr = Torrent('c/local2/R', piece_size=2*K)
    before = repr(tr.metainfo)
    try:
        r = tr.reuse('c/tor2')
    except BaseException as e:
        r = repr(e)[:80]
    return r, before == repr(tr.metainfo), 'pieces' in tr.metainfo['info'], tr.piece_size
t('C18 slash path atomicity', c18b)

# C15: empty files and location independence
def c15():
    mkdir('c/T', {'a': b'aaa', 'empty': b'', 'sub/b': b'bbb', 'sub/.hid': b'h', '.hid2':b'x'})
    cwd = os.getcwd()
    res = {}
    res['rel from parent'] = [str(f) for f in Torrent('c/T').files]
    res['abs'] = [str(f) for f in Torrent(os.path.abspath('c/T')).files]
    os.chdir('c'); res['in c: T'] = [str(f) for f in Torrent('T').files]
    res['in c: ./T/'] = [str(f) for f in Torrent('./T/').files]
    os.chdir('T'); res['in T: .'] = [str(f) for f in Torrent('.').files]
    os.chdir('sub'); res['in sub: ..'] = [str(f) for f in Torrent('..').files]
    os.chdir(cwd)
    os.chdir('/'); res['abs from /'] = [str(f) for f in Torrent(os.path.join(cwd,'c/T')).files]
    os.chdir(cwd)
    return res
r = c15()
for k,v in r.items(): print('C15', k, v)
