# usage: python path_component_absolute_validate_escapes.py /etc/hostname   (validate() reports the size of a file outside the content directory)
import os, sys, tempfile
sys.path.insert(0, '/repo')
import torf
tmp = tempfile.mkdtemp()
d = tmp + '/content'; os.mkdir(d); open(d + '/a', 'wb').write(b'x' * 10)
t = torf.Torrent(path=d); t.generate()                       # _path is a directory this time
info = t.metainfo['info']
info['files'] = [{'length': 10, 'path': ['a']}, {'length': 1, 'path': ['b', sys.argv[1]]}]
print('validate() with 2nd entry path', ['b', sys.argv[1]], '->', os.path.join(d, 'b', sys.argv[1])); sys.stdout.flush()
try:
    t.validate(); print('validate() accepted')
except Exception as e:
    print('validate() raised', type(e).__name__, str(e)[:120])
