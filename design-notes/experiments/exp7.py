import torf, io, os, traceback, sys, time, threading, shutil
from torf import Torrent
import torf._generate as G
K=16384
def alive():
    return sorted(t.name for t in threading.enumerate() if t is not threading.main_thread())
orig_start = G.Worker.start
def slow_start(self, fail_ok=False):
    if self.name == 'hasher2':
        time.sleep(1.3)
    return orig_start(self, fail_ok=fail_ok)
G.Worker.start = slow_start
orig_sha1 = G.sha1
def slow_sha1(data):
    if threading.current_thread().name == 'hasher2':
        time.sleep(0.5)
    else:
        time.sleep(0.08)
    return orig_sha1(data)
G.sha1 = slow_sha1
tr = Torrent('c/G', piece_size=K)
res = {}
def run():
    try:
        res['r'] = tr.generate(threads=2)
    except BaseException as e:
        res['r'] = repr(e)
th = threading.Thread(target=run, name='driver'); th.start(); th.join(20)
print('untracked hasher2: result', res.get('r', 'HUNG'), 'alive right after:', alive(), 'pieces stored:', 'pieces' in tr.metainfo['info'], 'expected pieces', tr.pieces)
time.sleep(1); print('alive 1s later', alive())
