#!/usr/bin/env python3
"""Plain script on the unmodified /repo: an exception inside a hasher thread's hashing step.
usage: hfault.py <threads> <victim hasher name> <slow:0|1>"""
import os, sys, tempfile, threading, time, shutil, faulthandler
sys.path.insert(0, os.environ.get('REPO', '/repo'))
import torf, torf._generate as G, torf._stream as S

threads, victim, slow = int(sys.argv[1]), sys.argv[2], int(sys.argv[3])
L = 16384
d = tempfile.mkdtemp(prefix='hf-', dir='/dev/shm')
p = os.path.join(d, 'data.bin')
open(p, 'wb').write(os.urandom(L * 40 + 5))
t = torf.Torrent(path=p, piece_size=L)
state = {'fired': False, 'reads': 0, 'h1': 0}
real_sha1, real_read = G.sha1, S.TorrentFileStream._read_from_fh

def flaky(data=b''):
    n = threading.current_thread().name
    if n == 'hasher1' and victim != 'hasher1':
        state['h1'] += 1
        if state['h1'] == 1:
            time.sleep(0.3)          # keep the vital hasher busy so that hasher2 gets a piece
    if n == victim and not state['fired']:
        state['fired'] = True
        raise MemoryError(f'{n}: out of memory in sha1()')
    return real_sha1(data)

def slow_read(self, fh, size, oom_callback):
    state['reads'] += 1
    if slow and state['reads'] == 10:
        time.sleep(1.8)              # a slow disk: the run lasts longer than the janitor's 1 s period
    return real_read(self, fh, size, oom_callback)

G.sha1 = flaky
S.TorrentFileStream._read_from_fh = slow_read
res = {}
def run():
    try:
        res['ret'] = t.generate(threads=threads)
    except BaseException as e:
        res['exc'] = repr(e)
th = threading.Thread(target=run, daemon=True)
th.start()
th.join(8)
print('fault fired:', state['fired'])
if th.is_alive():
    print('generate() has NOT returned after 8 s; threads alive:', sorted(x.name for x in threading.enumerate()))
else:
    print('generate() ->', res, '| pieces stored:', 'pieces' in t.metainfo['info'],
          '| threads alive:', sorted(x.name for x in threading.enumerate() if x is not threading.main_thread()))
shutil.rmtree(d, ignore_errors=True)
os._exit(0)
