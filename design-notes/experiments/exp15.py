import torf, os, itertools, shutil, collections, sys
from torf import Torrent, TorrentFileStream
import torf._errors as E
ROOT='/dev/shm/tv/S'
fails = collections.Counter(); ex = {}
def fail(kind, info):
    fails[kind]+=1; ex.setdefault(kind, info)
def run(L, sizes, states, allow_zero):
    n=len(sizes); names=[chr(97+i) for i in range(n)]
    shutil.rmtree(ROOT, ignore_errors=True); os.makedirs(ROOT)
    for i,(nm,sz,st) in enumerate(zip(names,sizes,states)):
        if st=='missing': continue
        real = sz + {'ok':0,'short':-1,'long':1}[st]
        if real<0: return None
        open(os.path.join(ROOT,nm),'wb').write(bytes([65+i])*real)
    tr = Torrent()
    tr.metainfo['info'].update({'name':'S','piece length':L,'files':[{'length':sz,'path':[nm]} for nm,sz in zip(names,sizes)]})
    stream = b''.join(bytes([65+i])*sz for i,sz in enumerate(sizes)); total=len(stream)
    P = -(-total//L)
    pos=[sum(sizes[:i]) for i in range(n)]
    bad=[i for i,st in enumerate(states) if st!='ok']
    spoiled=[any(sizes[j]>0 and pos[j] < (p+1)*L and pos[j]+sizes[j] > p*L for j in bad) for p in range(P)]
    try:
        with TorrentFileStream(tr, content_path=ROOT) as tfs:
            items=list(tfs.iter_pieces())
    except BaseException as e:
        fail('exc '+type(e).__name__, (L,sizes,states)); return
    if len(items)!=P: fail('count', (L,sizes,states,len(items),P)); return
    reported=[]
    for p,(piece,fp,excs) in enumerate(items):
        for e in excs:
            nm=os.path.basename(str(getattr(e,'path',None) or getattr(e,'filepath',None)))
            reported.append((nm, type(e).__name__))
        if spoiled[p]:
            if piece is not None: fail('spoiled piece has data', (L,sizes,states,p,piece))
        else:
            # zero-length bad entries may spoil the touching piece (interpretation)
            touch = any(sizes[j]==0 and (pos[j]//L==p or (pos[j]-1)//L==p) for j in bad)
            if piece is None and touch: continue
            if piece != stream[p*L:(p+1)*L]: fail('good piece wrong', (L,sizes,states,p,piece,stream[p*L:(p+1)*L]))
    want=sorted((names[j], 'ReadError' if states[j]=='missing' else 'VerifyFileSizeError') for j in bad)
    if sorted(reported)!=want: fail('reported', (L,sizes,states,sorted(reported),want))
cnt=0
for L in (2,3):
  for n in (1,2,3,4):
    rng = range(1, 2*L+2) if n<4 else range(1, L+2)
    for sizes in itertools.product(rng, repeat=n):
      for states in itertools.product(('ok','missing','short','long'), repeat=n):
        if all(s=='ok' for s in states): continue
        if sum(s!='ok' for s in states) > 3: continue
        cnt+=1
        run(L, sizes, states, False)
print('cases', cnt)
for k,v in sorted(fails.items()): print(k, v, ex[k])
