import torf, io, os, traceback, sys, time, threading, shutil
from torf import Torrent
import torf._generate as G
K=16384
def alive():
    return sorted(t.name for t in threading.enumerate() if t is not threading.main_thread() and t.name!='driver')
orig_start = threading.Thread.start
for victim in ('reader','janitor','hasher1','hasher2'):
    def refusing_start(self, victim=victim):
        if self.name == victim:
            raise RuntimeError("can't start new thread")
        return orig_start(self)
    threading.Thread.start = refusing_start
    tr = Torrent('c/G', piece_size=K)
    res = {}
    def run():
        try:
            res['r'] = tr.generate(threads=2)
        except BaseException as e:
            res['r'] = repr(e)
    th = threading.Thread(target=run, name='driver'); orig_start(th); th.join(5)
    print(f'refuse {victim}: result', res.get('r', 'HUNG'), '| alive after:', alive(), '| pieces stored:', 'pieces' in tr.metainfo['info'])
    time.sleep(2); print('   alive 2s later', alive())
threading.Thread.start = orig_start
os._exit(0)
