import torf, random, traceback, sys
from torf import Torrent
import torf._utils as U
GOOD = ['http://a/1','http://b/2','http://c/3','udp://d:80/4','http://e/5 x']
BAD = ['foo', 'http://', '', 'http://[::1', 'http://h:99999/']
def check(t, hist):
    md = t.metainfo
    try:
        tiers = [list(map(str,tier)) for tier in t.trackers]
        ws = list(map(str,t.webseeds)); hs = list(map(str,t.httpseeds))
    except Exception as e:
        return f'reading back failed: {e!r}'
    flat = [u for tier in tiers for u in tier]
    ann = md.get('announce'); al = md.get('announce-list')
    if flat:
        if ann != flat[0]: return f'announce {ann!r} != first url {flat[0]!r}'
    else:
        if ann is not None: return f'announce {ann!r} but no trackers'
    if len(flat) > 1:
        if al != tiers: return f'announce-list {al!r} != tiers {tiers!r}'
    else:
        if al is not None: return f'announce-list present {al!r} with <=1 urls'
    if len(set(flat)) != len(flat): return f'duplicate url {flat}'
    if any(len(tier)==0 for tier in tiers): return f'empty tier {tiers}'
    for u in flat+ws+hs:
        if not U.is_url(u): return f'invalid url stored {u!r}'
    if md.get('url-list', []) != ws: return f'url-list {md.get("url-list")} != {ws}'
    if md.get('httpseeds', []) != hs: return 'httpseeds'
    if len(set(ws))!=len(ws): return f'dup webseed {ws}'
    return None
def rnd_url(r):
    return r.choice(GOOD) if r.random()<0.8 else r.choice(BAD)
def step(t, r):
    which = r.choice(['tr','tr','tier','ws','hs'])
    if which in ('ws','hs'):
        lst = t.webseeds if which=='ws' else t.httpseeds
        op = r.choice(['set','append','insert','setitem','slice','del','clear','extend','iadd','setnone','setstr'])
        n = len(lst)
        if op=='set':
            v=[rnd_url(r) for _ in range(r.randint(0,3))]; setattr(t, 'webseeds' if which=='ws' else 'httpseeds', v); return (which,op,v)
        if op=='setnone': setattr(t, 'webseeds' if which=='ws' else 'httpseeds', None); return (which,op)
        if op=='setstr': v=rnd_url(r); setattr(t, 'webseeds' if which=='ws' else 'httpseeds', v); return (which,op,v)
        if op=='append': v=rnd_url(r); lst.append(v); return (which,op,v)
        if op=='insert': v=rnd_url(r); i=r.randint(-1,n+1); lst.insert(i,v); return (which,op,i,v)
        if op=='setitem':
            if n==0: return None
            v=rnd_url(r); i=r.randrange(n); lst[i]=v; return (which,op,i,v)
        if op=='slice':
            v=[rnd_url(r) for _ in range(r.randint(0,3))]; i=r.randint(0,n); j=r.randint(i,n); lst[i:j]=v; return (which,op,i,j,v)
        if op=='del':
            if n==0: return None
            i=r.randrange(n); del lst[i]; return (which,op,i)
        if op=='clear': lst.clear(); return (which,op)
        if op=='extend': v=[rnd_url(r) for _ in range(r.randint(0,3))]; lst.extend(v); return (which,op,v)
        if op=='iadd': v=[rnd_url(r) for _ in range(r.randint(0,3))]; lst += v; return (which,op,v)
    if which=='tr':
        trk = t.trackers; n=len(trk)
        op = r.choice(['set','setflat','append','insert','setitem','slice','del','clear','extend','iadd','setnone','setstr'])
        def tier(): return [rnd_url(r) for _ in range(r.randint(0,3))] if r.random()<0.7 else rnd_url(r)
        if op=='set': v=[tier() for _ in range(r.randint(0,3))]; t.trackers=v; return (which,op,v)
        if op=='setflat': v=[rnd_url(r) for _ in range(r.randint(0,3))]; t.trackers=v; return (which,op,v)
        if op=='setnone': t.trackers=None; return (which,op)
        if op=='setstr': v=rnd_url(r); t.trackers=v; return (which,op,v)
        if op=='append': v=tier(); trk.append(v); return (which,op,v)
        if op=='insert': v=tier(); i=r.randint(-1,n+1); trk.insert(i,v); return (which,op,i,v)
        if op=='setitem':
            if n==0: return None
            v=tier(); i=r.randrange(n); trk[i]=v; return (which,op,i,v)
        if op=='slice':
            v=[tier() for _ in range(r.randint(0,3))]; i=r.randint(0,n); j=r.randint(i,n); trk[i:j]=v; return (which,op,i,j,v)
        if op=='del':
            if n==0: return None
            i=r.randrange(n); del trk[i]; return (which,op,i)
        if op=='clear': trk.clear(); return (which,op)
        if op=='extend': v=[tier() for _ in range(r.randint(0,3))]; trk.extend(v); return (which,op,v)
        if op=='iadd': v=[tier() for _ in range(r.randint(0,3))]; trk += v; return (which,op,v)
    if which=='tier':
        trk = t.trackers
        if len(trk)==0: return None
        ti = r.randrange(len(trk)); lst = trk[ti]; n=len(lst)
        op = r.choice(['append','insert','setitem','slice','del','clear','extend','iadd'])
        if op=='append': v=rnd_url(r); lst.append(v); return (which,ti,op,v)
        if op=='insert': v=rnd_url(r); i=r.randint(-1,n+1); lst.insert(i,v); return (which,ti,op,i,v)
        if op=='setitem':
            v=rnd_url(r); i=r.randrange(n); lst[i]=v; return (which,ti,op,i,v)
        if op=='slice':
            v=[rnd_url(r) for _ in range(r.randint(0,3))]; i=r.randint(0,n); j=r.randint(i,n); lst[i:j]=v; return (which,ti,op,i,j,v)
        if op=='del':
            i=r.randrange(n); del lst[i]; return (which,ti,op,i)
        if op=='clear': lst.clear(); return (which,ti,op)
        if op=='extend': v=[rnd_url(r) for _ in range(r.randint(0,3))]; lst.extend(v); return (which,ti,op,v)
        if op=='iadd': v=[rnd_url(r) for _ in range(r.randint(0,3))]; lst += v; return (which,ti,op,v)
import collections
fails = collections.Counter(); examples = {}
for seed in range(3000):
    r = random.Random(seed); t = Torrent(); hist=[]
    for k in range(6):
        try:
            op = step(t, r)
            hist.append(op)
        except torf.URLError as e:
            hist.append(('URLError', str(e)))
        except Exception as e:
            hist.append(('EXC', repr(e)))
            key = 'exc:'+type(e).__name__
            fails[key]+=1; examples.setdefault(key, (seed, list(hist), traceback.format_exc().splitlines()[-3:]))
            break
        msg = check(t, hist)
        if msg:
            key = msg.split(' ')[0]+' '+msg.split(' ')[1] if ' ' in msg else msg
            fails[key]+=1
            if key not in examples or len(hist) < len(examples[key][1]): examples[key]=(seed, list(hist), msg)
            break
print(fails)
for k,v in examples.items(): print(k, '\n   ', v)
