import os, shutil
from torf import Torrent, Magnet
def mkdir(name, files):
    shutil.rmtree(name, ignore_errors=True); os.makedirs(name)
    for fn, data in files.items():
        p=os.path.join(name, fn); os.makedirs(os.path.dirname(p), exist_ok=True); open(p,'wb').write(data)
mkdir('c/P/T', {'a.txt': b'aaa', 'sub/b.TXT': b'bbb', 'sub/c.dat': b'ccc'})
cwd=os.getcwd()
def files(path, **kw): return [str(f) for f in Torrent(path, **kw).files]
os.chdir('c/P')
print('T  excl T/sub/*', files('T', exclude_globs=['T/sub/*']))
print('T  excl */B.txt', files('T', exclude_globs=['*/B.txt']))
print('T  regex b\\.txt', files('T', exclude_regexs=[r'b\.txt$']))
print('./T excl T/sub/*', files('./T', exclude_globs=['T/sub/*']))
print('T/ excl T/sub/*', files('T/', exclude_globs=['T/sub/*']))
print('../P/T excl T/sub/*', files('../P/T', exclude_globs=['T/sub/*']))
print('abs excl T/sub/*', files(os.path.abspath('T'), exclude_globs=['T/sub/*']))
os.chdir('T')
print('. excl T/sub/*', files('.', exclude_globs=['T/sub/*']), Torrent('.').name)
print('./ excl T/sub/*', files('./', exclude_globs=['T/sub/*']))
os.chdir('sub')
print('.. excl T/sub/*', files('..', exclude_globs=['T/sub/*']), Torrent('..').name)
print('../ excl T/sub/*', files('../', exclude_globs=['T/sub/*']))
print('../../T excl T/sub/*', files('../../T', exclude_globs=['T/sub/*']))
print('../. excl', files('../.', exclude_globs=['T/sub/*']), Torrent('../.').name)
os.chdir(cwd)
# C13 torrent->magnet->torrent
K=16384
mkdir('c/M', {'x': os.urandom(K+3), 'y': os.urandom(5)})
t = Torrent('c/M', trackers=[['http://a/1','http://b/2'],['http://c/3']], webseeds=['http://w/1'], name='N ü&=+%')
t.generate()
m = t.magnet(); print(str(m))
t2 = Magnet.from_string(str(m)).torrent()
print(t2.infohash == t.infohash, t2.name == t.name, t2.size == t.size, [u for tier in t2.trackers for u in tier] == [u for tier in t.trackers for u in tier], list(t2.webseeds)==list(t.webseeds))
t3 = m.torrent(); print(t3.infohash == t.infohash, t3.name, t3.size, t3.trackers, t3.webseeds)
