import http.server, threading, base64, os, shutil
from torf import Torrent, Magnet
K=16384
os.makedirs('c/H', exist_ok=True); open('c/H/a','wb').write(os.urandom(K+1))
tr = Torrent('c/H/a'); tr.generate(); data = tr.dump(); ih = tr.infohash
class H(http.server.BaseHTTPRequestHandler):
    def do_GET(self):
        self.send_response(200); self.end_headers(); self.wfile.write(data)
    def log_message(self,*a): pass
srv = http.server.HTTPServer(('127.0.0.1',0), H); port = srv.server_address[1]
threading.Thread(target=srv.serve_forever, daemon=True).start()
b32 = base64.b32encode(bytes.fromhex(ih)).decode()
for label, h in (('hex lower', ih), ('hex upper', ih.upper()), ('b32 upper', b32), ('b32 lower', b32.lower())):
    for kind, kw in (('xs', dict(xs=f'http://127.0.0.1:{port}/t.torrent')), ('ws', dict(ws=[f'http://127.0.0.1:{port}/t'])), ('tr', dict(tr=[f'http://127.0.0.1:{port}/announce']))):
        m = Magnet(h, **kw)
        try:
            r = m.get_info(timeout=3)
            t = m.torrent()
            out = (r, 'pieces' in t.metainfo['info'])
        except BaseException as e:
            out = f'{type(e).__name__}: {e}'[:90]
        print(label, kind, '->', out)
srv.shutdown()
