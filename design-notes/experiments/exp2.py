import torf, io, traceback, sys, datetime
from torf import Torrent, Magnet
def t(label, f):
    try:
        r = f()
        print(f'{label}: OK -> {r!r}'[:400])
    except BaseException as e:
        print(f'{label}: {type(e).__module__}.{type(e).__name__}: {e}'[:300])

def mk(**info):
    tr = Torrent()
    tr.metainfo['info'].update({'name':'a','piece length':16384,'pieces':b'x'*20})
    tr.metainfo['info'].update(info)
    return tr
# C07
t('neg compensating', lambda: mk(files=[{'length':-16384,'path':['a']},{'length':32768,'path':['b']}]).dump())
t('float length', lambda: mk(length=16384.5, pieces=b'x'*40).dump())
t('float length files', lambda: mk(files=[{'length':8000.5,'path':['a']},{'length':8383.5,'path':['b']}]).dump())
t('neg piece length single', lambda: mk(**{'length':-16384,'piece length':-16384}).dump())
t('piece length 0', lambda: mk(**{'length':5,'piece length':0}).dump())
t('piece length bool', lambda: mk(**{'length':5,'piece length':True}).dump())
t('piece length float', lambda: mk(**{'length':5,'piece length':16384.0}).dump())
def mixed():
    tr = mk(length=5); tr.metainfo[1]='x'; return tr.dump()
t('mixed key types', mixed)
def intkey():
    tr = mk(length=5); tr.metainfo['x']={1:'x'}; return tr.dump()
t('int key nested', intkey)
def inf():
    tr = mk(length=5); tr.metainfo['x']=float('inf'); return tr.dump()
t('inf', inf)
def nan():
    tr = mk(length=5); tr.metainfo['x']=float('nan'); return tr.dump()
t('nan', nan)
def none():
    tr = mk(length=5); tr.metainfo['x']=None; return tr.dump()
t('None', none)
def big():
    tr = mk(length=5); tr.metainfo['x']=10**5000; return tr.dump()
t('bigint', big)
def dt():
    tr = mk(length=5); tr.metainfo['creation date']=datetime.datetime(1,1,1); return tr.dump()
t('datetime min', dt)
def dt2():
    tr = mk(length=5); tr.metainfo['creation date']=datetime.datetime(9999,12,31,23,59,59, tzinfo=datetime.timezone(datetime.timedelta(hours=-23))); return tr.dump()
t('datetime max tz', dt2)
def cyc():
    tr = mk(length=5); d={}; d['d']=d; tr.metainfo['x']=d; return tr.dump()
t('cyclic', cyc)
def name_int():
    tr = mk(length=5, name=5); return tr.dump()
t('name int', name_int)
def files_str():
    tr = mk(files='abc'); return tr.dump()
t('files str', files_str)
def files_gen():
    tr = mk(files=({'length':5,'path':['a']} for _ in range(1))); return tr.dump()
t('files generator', files_gen)
def files_path_bytes():
    tr = mk(files=[{'length':5,'path':b'ab'}]); return tr.dump()
t('files path bytes (iterable of ints)', files_path_bytes)
def files_path_empty():
    tr = mk(files=[{'length':5,'path':[]}]); return tr.dump()
t('files path empty', files_path_empty)
def files_empty():
    tr = mk(files=[]); return tr.dump()
t('files empty', files_empty)
def files_dict():
    tr = mk(files={0:{'length':5,'path':['a']}}); return tr.dump()
t('files dict', files_dict)
def al():
    tr = mk(length=5); tr.metainfo['announce-list']=[['http://a'], 'http://b']; return tr.dump()
t('announce-list tier str', al)
def al2():
    tr = mk(length=5); tr.metainfo['announce-list']={'x':['http://a']}; return tr.dump()
t('announce-list dict', al2)
def al3():
    tr = mk(length=5); tr.metainfo['announce-list']=[{'http://a':1}]; return tr.dump()
t('announce-list tier dict', al3)
def ann():
    tr = mk(length=5); tr.metainfo['announce']='http://[::1'; return tr.dump()
t('announce bad', ann)
def ann2():
    tr = mk(length=5); tr.metainfo['announce']=b'http://foo'; return tr.dump()
t('announce bytes', ann2)
def md5():
    tr = mk(length=5, md5sum='0'*32+'\n'); return tr.dump()
t('md5 newline', md5)
def pieces_ba():
    tr = mk(length=5, pieces=bytearray(b'x'*20)); return tr.dump()
t('pieces bytearray', pieces_ba)
def info_not_dict():
    tr = Torrent(); tr._metainfo['info']=[1]; return tr.dump()
t('info list', info_not_dict)
def info_str():
    tr = Torrent(); tr._metainfo['info']='abc'; return tr.dump()
t('info str', info_str)
def length_bool():
    tr = mk(length=True); return tr.dump()
t('length True', length_bool)
def length_huge_float():
    tr = mk(length=1e308, pieces=b'x'*20); return tr.dump()
t('length 1e308', length_huge_float)
def length_nan():
    tr = mk(length=float('nan')); return tr.dump()
t('length nan', length_nan)
def length_inf():
    tr = mk(length=float('inf')); return tr.dump()
t('length inf', length_inf)
def private_int():
    tr = mk(length=5, private=7); return tr.dump()
t('private 7', private_int)
def cd_int():
    tr = mk(length=5); tr.metainfo['creation date']=10**18; return (tr.dump(), tr.creation_date)
t('creation date int huge', cd_int)
