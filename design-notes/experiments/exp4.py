import torf, io, os, traceback, sys, datetime, base64, shutil, hashlib
from torf import Torrent, Magnet, TorrentFileStream
def t(label, f):
    try:
        r = f()
        print(f'{label}: OK -> {r!r}'[:600])
    except BaseException as e:
        print(f'{label}: {type(e).__module__}.{type(e).__name__}: {e}'[:300])
        #traceback.print_exc()
K=16384
def mkdir(name, files):
    shutil.rmtree(name, ignore_errors=True)
    os.makedirs(name)
    for fn, data in files.items():
        p = os.path.join(name, fn); os.makedirs(os.path.dirname(p), exist_ok=True)
        open(p,'wb').write(data)
# C09: stale pieces after piece_size change
mkdir('c/A', {'a': os.urandom(5*K)})
def c09():
    tr = Torrent('c/A', piece_size=3*K)
    tr.generate()
    h1 = tr.metainfo['info']['pieces']
    tr.piece_size = 4*K
    return ('pieces' in tr.metainfo['info'], tr.is_ready, (lambda: tr.verify('c/A'))() if tr.is_ready else None)
t('C09 stale after piece_size change', c09)
def c09b():
    tr = Torrent('c/A', piece_size=3*K)
    tr.generate()
    tr.piece_size_min = 4*K
    return (tr.piece_size, 'pieces' in tr.metainfo['info'], tr.is_ready)
t('C09 stale after piece_size_min change', c09b)
def c09c():
    tr = Torrent()
    try:
        tr.piece_size_min = 64*K*1024
    except Exception as e: print('  raised', repr(e))
    r = (tr.piece_size_min, tr.piece_size_max)
    try:
        tr.path = 'c/A'
    except Exception as e: print('  raised', repr(e))
    return r, tr.metainfo['info']
t('C09 min>max', c09c)
def c09d():
    tr = Torrent('c/A')
    try:
        tr.piece_size_min = 64*K*1024
    except Exception as e: print('  raised', repr(e))
    return (tr.piece_size_min, tr.piece_size_max, tr.piece_size)
t('C09 min>max with content', c09d)

# C19: second sequential iteration on the same stream
mkdir('c/B', {'a': b'a'*20, 'b': b'b'*20, 'c': b'c'*20})
def c19():
    tr = Torrent('c/B'); tr.metainfo['info']['piece length'] = 8
    with TorrentFileStream(tr) as tfs:
        p1 = [p for p,_,_ in tfs.iter_pieces()]
        p2 = [p for p,_,_ in tfs.iter_pieces()]
        return (p1 == p2, len(p1), len(p2), p2[:3])
t('C19 second iteration', c19)
def c19b():
    tr = Torrent('c/B'); tr.metainfo['info']['piece length'] = 8
    with TorrentFileStream(tr) as tfs:
        x = tfs.get_piece(1)
        p2 = [p for p,_,_ in tfs.iter_pieces()]
    with TorrentFileStream(tr) as tfs:
        p1 = [p for p,_,_ in tfs.iter_pieces()]
    return (p1 == p2, len(p1), len(p2))
t('C19 get_piece then iteration', c19b)

# C10/C02 zero-length entries
def zl(files, missing, L=8):
    name='c/Z'
    mkdir(name, {fn: bytes([65+i])*sz for i,(fn,sz) in enumerate(files)})
    tr = Torrent()
    tr.metainfo['info'].update({'name':'Z','piece length':L,'files':[{'length':sz,'path':[fn]} for fn,sz in files]})
    for m in missing: os.remove(os.path.join(name,m))
    with TorrentFileStream(tr, content_path=name) as tfs:
        return [(p, str(fp), tuple(type(e).__name__+':'+os.path.basename(str(getattr(e,'path',None) or getattr(e,'filepath',None))) for e in ex)) for p,fp,ex in tfs.iter_pieces()]
t('zero-length present mid', lambda: zl([('a',5),('z',0),('b',11)], []))
t('zero-length missing mid-piece', lambda: zl([('a',5),('z',0),('b',11)], ['z']))
t('zero-length missing at boundary', lambda: zl([('a',8),('z',0),('b',8)], ['z']))
t('zero-length missing at start', lambda: zl([('z',0),('b',8)], ['z']))
t('zero-length missing at end', lambda: zl([('b',8),('z',0)], ['z']))
t('zero-length missing at end mid', lambda: zl([('b',5),('z',0)], ['z']))
t('two bad in one piece', lambda: zl([('a',3),('b',3),('c',10)], ['a','b']))
t('bad then bad spanning', lambda: zl([('a',3),('b',13),('c',8)], ['a','b']))
t('bad file ending on boundary', lambda: zl([('a',8),('b',8)], ['a']))
t('tiny files in spoiled piece', lambda: zl([('a',9),('b',1),('c',1),('d',1),('e',12)], ['a']))
t('tiny files, later one bad too', lambda: zl([('a',9),('b',1),('c',1),('d',1),('e',12)], ['a','c']))
t('good A, bad B last in piece', lambda: zl([('a',3),('b',5),('c',8)], ['b']))
t('bad A spans, bad B within', lambda: zl([('a',10),('b',2),('c',12)], ['a','b']))
t('bad A spans, B good, C bad beyond', lambda: zl([('a',10),('b',2),('c',12),('d',8)], ['a','c']))
