import random, os, shutil, collections, hashlib, traceback
import torf
from torf import Torrent
K=16384
ROOT='/dev/shm/tv/H'
shutil.rmtree(ROOT, ignore_errors=True)
def mk(name, files):
    for fn,sz in files.items():
        p=os.path.join(ROOT,name,fn); os.makedirs(os.path.dirname(p), exist_ok=True); open(p,'wb').write(os.urandom(sz))
mk('A', {'a':5*K, 'b':K+1, 'sub/c':3, '.hid':7, 'e.tmp':K})
mk('B', {'x':2*K+5})
open(os.path.join(ROOT,'single'),'wb').write(os.urandom(3*K+1))
def ref_pieces(t):
    # recompute from disk for current layout & piece length
    if t.path is None: return None
    data=b''.join(open(fp,'rb').read() for fp in t.filepaths)
    L=t.piece_size
    return b''.join(hashlib.sha1(data[i:i+L]).digest() for i in range(0,len(data),L))
def inv(t):
    info=t.metainfo['info']; pl=info.get('piece length')
    if not (t.piece_size_min <= t.piece_size_max): return f'min>max {t.piece_size_min} {t.piece_size_max}'
    if pl is not None:
        if pl%K or pl<=0: return f'pl not multiple {pl}'
        if not (t.piece_size_min<=pl<=t.piece_size_max): return f'pl {pl} out of [{t.piece_size_min},{t.piece_size_max}]'
    if t.mode=='multifile' and t.size!=sum(f['length'] for f in info['files']): return 'size'
    if (t.mode is None) != (len(t.files)==0): return 'mode'
    if 'pieces' in info:
        if t.path is not None:
            rp=ref_pieces(t)
            if rp!=info['pieces']: return 'STALE pieces (differ from fresh hash of current layout/piece length)'
        if len(info['pieces'])//20 != t.pieces: return f'piece count {len(info["pieces"])//20} vs {t.pieces}'
    if t.size>0 and pl is None: return 'no piece length though size>0'
    return None
def step(t,r):
    op=r.choice(['path','path','files_del','files_set','filepaths_del','excl','incl','name','ps','ps','psnone','min','max','minnone','maxnone','gen','gen','comment','pathnone','filepaths_app'])
    if op=='path': v=r.choice(['A','B','single']); t.path=os.path.join(ROOT,v); return (op,v)
    if op=='pathnone': t.path=None; return (op,)
    if op=='files_del':
        fs=t.files
        if len(fs): i=r.randrange(len(fs)); del fs[i]; return (op,i)
        return None
    if op=='files_set':
        t.files=[torf.File('N/a',size=r.choice([0,1,K,3*K])), torf.File('N/b',size=r.choice([0,5,2*K]))]; return (op,)
    if op=='filepaths_del':
        fp=t.filepaths
        if len(fp): i=r.randrange(len(fp)); del fp[i]; return (op,i)
        return None
    if op=='filepaths_app':
        t.filepaths.append(os.path.join(ROOT,'B','x')); return (op,)
    if op=='excl': v=r.choice([[],['*.tmp'],['*/sub/*']]); t.exclude_globs=v; return (op,v)
    if op=='incl': v=r.choice([[],['*.tmp']]); t.include_globs=v; return (op,v)
    if op=='name': v=r.choice([None,'Foo']); t.name=v; return (op,v)
    if op=='ps': v=K*r.choice([1,2,3,4,8,1024,2048]); t.piece_size=v; return (op,v)
    if op=='psnone': t.piece_size=None; return (op,)
    if op=='min': v=K*r.choice([1,2,4,8,2048]); t.piece_size_min=v; return (op,v)
    if op=='max': v=K*r.choice([1,2,4,8,1024]); t.piece_size_max=v; return (op,v)
    if op=='minnone': t.piece_size_min=None; return (op,)
    if op=='maxnone': t.piece_size_max=None; return (op,)
    if op=='gen':
        if t.path is not None and t.size>0: t.generate(threads=1); return (op,)
        return None
    if op=='comment': t.comment='x'; return (op,)
fails=collections.Counter(); ex={}
for seed in range(1500):
    r=random.Random(seed); t=Torrent(); hist=[]
    for k in range(8):
        try:
            o=step(t,r); hist.append(o)
        except torf.TorfError as e:
            hist.append(('ERR',type(e).__name__))
        except Exception as e:
            hist.append(('EXC',repr(e)[:80])); key='exc '+type(e).__name__; fails[key]+=1
            if key not in ex or len(hist)<len(ex[key][1]): ex[key]=(seed,list(hist))
            break
        m=inv(t)
        if m:
            key=m.split(' ')[0]+' '+m.split(' ')[1]
            fails[key]+=1
            if key not in ex or len(hist)<len(ex[key][1]): ex[key]=(seed,[h for h in hist],m)
            break
print(dict(fails))
for k,v in ex.items(): print(k,'->',v)
