import resource, time, tracemalloc
from torf import Torrent
resource.setrlimit(resource.RLIMIT_AS, (4*2**30, 4*2**30))
for n in ('99999999', '9999999999', '99999999999999', str(2**63-1), str(2**63)):
    t0=time.time()
    try:
        Torrent.read_stream(b'd1:a' + n.encode() + b':abce')
        r='ok'
    except BaseException as e:
        r=f'{type(e).__name__}: {e}'
    print(n, r[:100], f'{time.time()-t0:.3f}s', 'maxrss MB', resource.getrusage(resource.RUSAGE_SELF).ru_maxrss//1024)
