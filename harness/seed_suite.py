"""
Confirm, for seeded changes under /verif/seeded/<id>/, that /repo's pinned test suite still passes
with the change applied (scratch clone under /dev/shm, removed afterwards); records the result in
meta.json ("suite_confirmed").   usage: seed_suite.py [id ...]   (default: all without a result)
"""
import json, os, shutil, subprocess, sys
VERIF = os.path.dirname(os.path.dirname(os.path.abspath(__file__)))
ids = sys.argv[1:] or sorted(os.listdir(os.path.join(VERIF, 'seeded')))
head = subprocess.run(['git', '-C', '/repo', 'rev-parse', '--short', 'HEAD'], capture_output=True, text=True).stdout.strip()
for sid in ids:
    dst = os.path.join(VERIF, 'seeded', sid)
    mp = os.path.join(dst, 'meta.json')
    if not os.path.exists(mp):
        continue
    meta = json.load(open(mp))
    if not sys.argv[1:] and meta.get('suite_confirmed'):
        continue
    d = f'/dev/shm/seedsuite-{os.getpid()}'
    shutil.rmtree(d, ignore_errors=True)
    subprocess.check_call(['git', 'clone', '-q', '/repo', d])
    try:
        # a later fix: commit may have rewritten the site; the change was seeded against an earlier HEAD
        revs = subprocess.run(['git', '-C', d, 'rev-list', '-n', '60', 'HEAD'], capture_output=True, text=True).stdout.split()
        at = None
        for rev in revs:
            subprocess.check_call(['git', '-C', d, 'checkout', '-q', rev])
            r = subprocess.run(['git', '-C', d, 'apply', os.path.join(dst, 'patch.diff')], capture_output=True, text=True)
            if r.returncode == 0:
                at = rev[:7]
                break
        if at is None:
            res = {'repo_head': head, 'applies': False, 'note': r.stderr.strip()[-300:]}
        else:
            line = ''
            for attempt in (1, 2):
                p = subprocess.run(['/venv/bin/python', os.path.join(VERIF, 'harness', 'baseline_check.py'), d],
                                   capture_output=True, text=True)
                line = p.stdout.strip().splitlines()[0] if p.stdout.strip() else ''
                if p.returncode == 0:
                    break
            res = {'repo_head': head, 'applied_at': at, 'applies_to_head': at == head[:7], 'applies': True, 'passes': p.returncode == 0, 'line': line, 'attempts': attempt,
                   'not_passing': [l.strip() for l in p.stdout.splitlines()[1:6]]}
        meta['suite_confirmed'] = res
        json.dump(meta, open(mp, 'w'), indent=1)
        print(sid, res, flush=True)
    finally:
        shutil.rmtree(d, ignore_errors=True)
