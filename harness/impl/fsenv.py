"""The process locale / file-system encoding as a dimension of a check (owned by C13).

Nothing in a torrent or a magnet link depends on the locale: metainfo and magnet URIs are UTF-8 whatever
`sys.getfilesystemencoding()` is.  Code that routes a *name* through `os.fsencode` / `os.fsdecode` /
`locale.getpreferredencoding()` silently becomes locale dependent, and a UTF-8 box never shows it.  So a slice of
the cases of a check is run in child interpreters that differ only in this environment:

* real environments, selected by environment variables of the child (`LC_ALL`, `PYTHONUTF8`, `PYTHONCOERCECLOCALE`,
  `PYTHONIOENCODING`): an ASCII file-system encoding (C locale with UTF-8 mode and locale coercion off), forced
  UTF-8 mode, stdio encodings that differ from the file-system encoding;
* legacy charsets (only the C / C.utf8 locales are installed in the sandbox): before anything of the repository is
  imported, the functions whose result depends on the file-system encoding are replaced *in the whole child process*
  (`os.fsencode`, `os.fsdecode`, `sys.getfilesystemencoding`, `locale.getpreferredencoding`, `locale.getencoding`)
  by their behaviour under latin-1 / koi8-r / gbk / cp1252 / shift_jis — consistent by construction: every module
  sees the same replaced functions, the child does nothing else.

    ENVS                         -> [(label, env overrides, shadow charset or None)]
    run(label, module, func, payload) -> {'report': what the child says about its encodings, 'result': func(payload)}

`func` is a module-level function taking and returning JSON-able data (strings may hold lone surrogates).
"""
import json
import os
import subprocess
import sys

VERIF = os.path.dirname(os.path.dirname(os.path.dirname(os.path.abspath(__file__))))

ENVS = [
    ('C-ascii-fs', {'LC_ALL': 'C', 'LANG': 'C', 'PYTHONUTF8': '0', 'PYTHONCOERCECLOCALE': '0'}, None),
    ('C-utf8-mode', {'LC_ALL': 'C', 'LANG': 'C', 'PYTHONUTF8': '1'}, None),
    ('C.utf8-stdio-latin1', {'LC_ALL': 'C.utf8', 'PYTHONIOENCODING': 'latin-1'}, None),
    ('C-ascii-fs-stdio-backslashreplace', {'LC_ALL': 'C', 'PYTHONUTF8': '0', 'PYTHONCOERCECLOCALE': '0',
                                           'PYTHONIOENCODING': 'ascii:backslashreplace'}, None),
    ('shadow-latin-1', {}, 'latin-1'),
    ('shadow-koi8-r', {}, 'koi8-r'),
    ('shadow-gbk', {}, 'gbk'),
    ('shadow-cp1252', {}, 'cp1252'),
    ('shadow-shift_jis', {}, 'shift_jis'),
]
BY_LABEL = {e[0]: e for e in ENVS}

_BOOT = ('import sys; sys.path.insert(0, %r); from harness.impl import fsenv; fsenv.child_main()' % VERIF)


def shadow(charset):
    """make this process behave as if its file-system encoding were `charset`"""
    import locale

    def fsencode(filename):
        filename = os.fspath(filename)
        return filename.encode(charset, 'surrogateescape') if isinstance(filename, str) else filename

    def fsdecode(filename):
        filename = os.fspath(filename)
        return filename.decode(charset, 'surrogateescape') if isinstance(filename, bytes) else filename
    os.fsencode, os.fsdecode = fsencode, fsdecode
    sys.getfilesystemencoding = lambda: charset
    sys.getfilesystemencodeerrors = lambda: 'surrogateescape'
    locale.getpreferredencoding = lambda do_setlocale=True: charset
    if hasattr(locale, 'getencoding'):
        locale.getencoding = lambda: charset


def child_main():
    import importlib
    import locale
    req = json.loads(sys.stdin.buffer.read().decode('ascii'))
    if req.get('shadow'):
        shadow(req['shadow'])
    report = {'fs': sys.getfilesystemencoding(), 'preferred': locale.getpreferredencoding(False),
              'utf8_mode': sys.flags.utf8_mode, 'stdout': getattr(sys.stdout, 'encoding', None)}
    try:
        report['fsencode_e_acute'] = os.fsencode('\xe9').hex()
    except UnicodeError as e:
        report['fsencode_e_acute'] = 'raises ' + type(e).__name__
    fn = getattr(importlib.import_module(req['module']), req['func'])
    out = {'report': report, 'result': fn(req['payload'])}
    sys.stdout.buffer.write(json.dumps(out, ensure_ascii=True).encode('ascii'))
    sys.stdout.buffer.flush()


def run(label, module, func, payload, timeout=600):
    label, env, sh = BY_LABEL[label]
    e = {k: v for k, v in os.environ.items() if k not in ('LC_ALL', 'LC_CTYPE', 'LANG', 'LANGUAGE', 'PYTHONUTF8',
                                                          'PYTHONCOERCECLOCALE', 'PYTHONIOENCODING')}
    e.update(env)
    req = json.dumps({'shadow': sh, 'module': module, 'func': func, 'payload': payload}, ensure_ascii=True).encode('ascii')
    p = subprocess.run([sys.executable, '-c', _BOOT], input=req, env=e, capture_output=True, timeout=timeout)
    if p.returncode != 0:
        raise RuntimeError('child for environment %s failed: %s' % (label, p.stderr.decode('utf-8', 'replace')[-800:]))
    return json.loads(p.stdout.decode('ascii'))


def run_job(job):
    """pmap-able: job = (label, module, func, payload)"""
    return run(*job)
