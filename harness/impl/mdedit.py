"""Edits of a live `Torrent.metainfo` at every nesting depth (owned by C05).

An edit *spec* is generated without knowing the object (`gen_edit`); `apply_edit` resolves it against
the live metainfo deterministically (candidates in a fixed traversal order, `pick` modulo their number)
and performs it **in place on the very container objects the torrent holds** — or, for the
`replace-*` kinds, by assigning a new object to a key of the parent.  Validity is preserved: standard
keys are only touched in ways `validate()` accepts (path components stay non-empty strings, file
entries keep `length` and `path`, the file list is only permuted).

    kind                         what it does
    path-set/-append/-insert/-pop      a component of info['files'][i]['path'] (nested 4 deep, in place)
    files-swap / files-reverse         permutes info['files'] in place
    file-set / file-del                unknown key of a file entry (in place, 3 deep)
    list-append/-insert/-pop/-set/-extend/-reverse/-clear   a list inside an unknown field, any depth, in place
    dict-set/-del/-update/-clear       a dict inside an unknown field, any depth, in place
    info-set / info-del                unknown key of info: assignment of a new value (top level of info)
    info-name / info-source / info-private   standard scalar keys of info
    top-set / top-del / top-comment    unknown key / comment at the top level of the metainfo
    replace-copy                       parent[key] = deepcopy(parent[key])   (new object, same value)
    replace-modified                   parent[key] = deepcopy(...) with one element changed
    touch-revert                       in-place change of a nested element and back again (same object, same value)
    attr                               Torrent attribute setter (name, comment, source, private, creation_date,
                                       randomize_infohash)
"""
import copy
import datetime

STD_TOP = {'info', 'creation date', 'announce', 'announce-list', 'comment', 'created by', 'url-list', 'httpseeds',
           'encoding'}
STD_INFO = {'name', 'piece length', 'pieces', 'length', 'files', 'private', 'md5sum', 'source', 'entropy'}
STD_FILE = {'length', 'path', 'md5sum'}

KINDS = ['path-set', 'path-set', 'path-append', 'path-insert', 'path-pop', 'files-swap', 'files-reverse',
         'file-set', 'file-del', 'list-append', 'list-append', 'list-insert', 'list-pop', 'list-set', 'list-set',
         'list-extend', 'list-reverse', 'list-clear', 'dict-set', 'dict-set', 'dict-del', 'dict-update', 'dict-clear',
         'info-set', 'info-del', 'info-name', 'info-source', 'info-private', 'top-set', 'top-del', 'top-comment',
         'replace-copy', 'replace-modified', 'touch-revert', 'attr']
NESTED = {'path-set', 'path-append', 'path-insert', 'path-pop', 'files-swap', 'files-reverse', 'file-set', 'file-del',
          'list-append', 'list-insert', 'list-pop', 'list-set', 'list-extend', 'list-reverse', 'list-clear',
          'dict-set', 'dict-del', 'dict-update', 'dict-clear', 'touch-revert'}


def unknown_roots(md):
    """[(path, container)]: dict / list values under unknown keys of the top level, of info and of file entries"""
    out = []
    for k in sorted(k for k in md if isinstance(k, str) and k not in STD_TOP):
        out.append((('top', k), md[k]))
    info = md.get('info')
    if isinstance(info, dict):
        for k in sorted(k for k in info if isinstance(k, str) and k not in STD_INFO):
            out.append((('info', k), info[k]))
        files = info.get('files')
        if isinstance(files, list):
            for i, f in enumerate(files):
                if isinstance(f, dict):
                    for k in sorted(k for k in f if isinstance(k, str) and k not in STD_FILE):
                        out.append((('info', 'files', i, k), f[k]))
    return out


def nested_containers(md):
    """every list / dict inside an unknown field, at any depth: [(path, obj)] in a fixed order (no recursion)"""
    out = []
    stack = [(p, v) for p, v in reversed(unknown_roots(md))]
    while stack:
        p, v = stack.pop()
        if isinstance(v, list):
            out.append((p, v))
            for i in range(len(v) - 1, -1, -1):
                if isinstance(v[i], (list, dict)):
                    stack.append((p + (i,), v[i]))
        elif isinstance(v, dict):
            out.append((p, v))
            for k in sorted((k for k in v if isinstance(k, str)), reverse=True):
                if isinstance(v[k], (list, dict)):
                    stack.append((p + (k,), v[k]))
    return out


def file_entries(md):
    files = md.get('info', {}).get('files') if isinstance(md.get('info'), dict) else None
    return [f for f in files if isinstance(f, dict)] if isinstance(files, list) else []


def path_lists(md):
    return [f['path'] for f in file_entries(md) if isinstance(f.get('path'), list) and f['path']]


def _pick(xs, n):
    return xs[n % len(xs)] if xs else None


def from_json(j):
    """value of an edit spec: {'s': str} {'i': int-as-str} {'b': hex} {'l': [...]} {'d': [[k, v]...]} {'u': [...]} tuple
    {'B': bool} {'f': float}"""
    (t, v), = j.items()
    if t == 's':
        return v
    if t == 'i':
        return int(v)
    if t == 'b':
        return bytes.fromhex(v)
    if t == 'l':
        return [from_json(x) for x in v]
    if t == 'u':
        return tuple(from_json(x) for x in v)
    if t == 'd':
        return {k: from_json(x) for k, x in v}
    if t == 'B':
        return bool(v)
    if t == 'f':
        return float(v)
    raise ValueError(t)


def is_normal(j):
    """does the value survive dump -> read unchanged (str, int, list, dict, ill-formed bytes)?"""
    (t, v), = j.items()
    if t in ('s', 'i'):
        return True
    if t == 'b':
        try:
            bytes.fromhex(v).decode('utf8')
            return False
        except UnicodeDecodeError:
            return True
    if t == 'l':
        return all(is_normal(x) for x in v)
    if t == 'd':
        return all(is_normal(x) for _, x in v)
    return False


def gen_value(r, text, depth=0, exotic=0.08):
    k = r.random()
    if k < exotic:
        return r.choice([{'B': True}, {'B': False}, {'f': 3.0}, {'u': [{'i': '1'}, {'s': 'a'}]}, {'b': 'c3a9'}, {'b': '61'}])
    if depth >= 2 or k < 0.4:
        return {'s': text(r)} if r.random() < 0.6 else {'i': str(r.choice([0, 1, -1, 7, 2 ** 64, r.randint(-10 ** 6, 10 ** 6)]))}
    if k < 0.5:
        return {'b': r.choice(['ff', 'c328', 'eda080', 'fffe00'])}
    if k < 0.78:
        return {'l': [gen_value(r, text, depth + 1, exotic) for _ in range(r.randint(0, 3))]}
    return {'d': [[text(r) if r.random() < 0.4 else r.choice(['a', 'b', 'k', 'x-y', '']), gen_value(r, text, depth + 1, exotic)]
                  for _ in range(r.randint(0, 3))]}


def gen_edit(r, text):
    kind = r.choice(KINDS)
    e = {'kind': kind, 'pick': r.randrange(10 ** 6), 'idx': r.randrange(10 ** 6), 'val': gen_value(r, text),
         'key': r.choice(['x-tags', 'x-tree', 'x-attr', 'x-new', 'note', text(r)]),
         'comp': r.choice(['renamed', 'README.txt', 'a b', text(r)]) or 'c'}
    if kind == 'attr':
        e['attr'] = r.choice([['name', {'s': e['comp']}], ['comment', {'s': text(r)}], ['comment', None], ['source', {'s': 'src'}],
                              ['source', None], ['private', {'B': True}], ['private', {'B': False}], ['private', None],
                              ['creation_date', {'i': str(r.choice([0, 1500000000, -14182940, r.randint(-2 ** 31, 2 ** 32)]))}],
                              ['creation_date', {'D': r.randint(0, 2 ** 31)}], ['creation_date', None],
                              ['randomize_infohash', {'B': True}], ['randomize_infohash', {'B': False}],
                              ['created_by', {'s': 'me'}]])
    return e


def _mod_copy(v, e):
    """deep copy of a container with one element changed"""
    c = copy.deepcopy(v)
    x = from_json(e['val'])
    if isinstance(c, list):
        if c:
            c[e['idx'] % len(c)] = x
        else:
            c.append(x)
    else:
        c[e['key']] = x
    return c


def apply_edit(t, e):
    """perform the edit on the live torrent; returns a description [kind, path...] or None if there was nothing to edit"""
    md = t.metainfo
    info = md['info']
    kind = e['kind']
    x = from_json(e['val']) if e.get('val') else None
    if kind.startswith('path-'):
        p = _pick(path_lists(md), e['pick'])
        if p is None:
            return None
        i = e['idx'] % len(p)
        if kind == 'path-set':
            p[i] = e['comp']
        elif kind == 'path-append':
            p.append(e['comp'])
        elif kind == 'path-insert':
            p.insert(i, e['comp'])
        elif len(p) > 1:
            p.pop(i)
        else:
            return None
        return [kind, i]
    if kind in ('files-swap', 'files-reverse'):
        files = info.get('files')
        if not isinstance(files, list) or len(files) < 2:
            return None
        if kind == 'files-reverse':
            files.reverse()
        else:
            i, j = e['pick'] % len(files), e['idx'] % len(files)
            files[i], files[j] = files[j], files[i]
        return [kind]
    if kind in ('file-set', 'file-del'):
        f = _pick(file_entries(md), e['pick'])
        if f is None:
            return None
        if kind == 'file-set':
            if e['key'] in STD_FILE:
                return None
            f[e['key']] = x
            return [kind, e['key']]
        ks = sorted(k for k in f if isinstance(k, str) and k not in STD_FILE)
        if not ks:
            return None
        del f[_pick(ks, e['idx'])]
        return [kind]
    if kind.startswith('list-') or kind.startswith('dict-') or kind == 'touch-revert':
        want = list if kind.startswith('list-') else dict if kind.startswith('dict-') else (list, dict)
        cands = [(p, c) for p, c in nested_containers(md) if isinstance(c, want)]
        if kind == 'touch-revert':
            cands = [(p, c) for p, c in cands if c]
        got = _pick(cands, e['pick'])
        if got is None:
            return None
        p, c = got
        if kind == 'list-append':
            c.append(x)
        elif kind == 'list-insert':
            c.insert(e['idx'] % (len(c) + 1), x)
        elif kind == 'list-pop':
            if not c:
                return None
            c.pop(e['idx'] % len(c))
        elif kind == 'list-set':
            if not c:
                return None
            c[e['idx'] % len(c)] = x
        elif kind == 'list-extend':
            c.extend([x, copy.deepcopy(x)])
        elif kind == 'list-reverse':
            c.reverse()
        elif kind == 'list-clear':
            c.clear()
        elif kind == 'dict-set':
            c[e['key']] = x
        elif kind == 'dict-del':
            ks = sorted(k for k in c if isinstance(k, str))
            if not ks:
                return None
            del c[_pick(ks, e['idx'])]
        elif kind == 'dict-update':
            c.update({e['key']: x, 'k2': 2})
        elif kind == 'dict-clear':
            c.clear()
        else:                                   # touch-revert
            if isinstance(c, list):
                i = e['idx'] % len(c)
                old = c[i]
                c[i] = 'touched'
                c[i] = old
            else:
                k = _pick(sorted(k for k in c if isinstance(k, str)), e['idx'])
                if k is None:
                    return None
                old = c[k]
                c[k] = 'touched'
                c[k] = old
        return [kind, len(p)]
    if kind in ('info-set', 'top-set'):
        d, std = (info, STD_INFO) if kind == 'info-set' else (md, STD_TOP)
        if e['key'] in std:
            return None
        d[e['key']] = x
        return [kind, e['key']]
    if kind in ('info-del', 'top-del'):
        d, std = (info, STD_INFO) if kind == 'info-del' else (md, STD_TOP)
        ks = sorted(k for k in d if isinstance(k, str) and k not in std)
        if not ks:
            return None
        del d[_pick(ks, e['idx'])]
        return [kind]
    if kind == 'info-name':
        info['name'] = e['comp']
        return [kind]
    if kind == 'info-source':
        info['source'] = e['comp']
        return [kind]
    if kind == 'info-private':
        v = [True, False, 0, 1, None][e['idx'] % 5]
        if v is None:
            info.pop('private', None)
        else:
            info['private'] = v
        return [kind]
    if kind == 'top-comment':
        md['comment'] = e['comp']
        return [kind]
    if kind in ('replace-copy', 'replace-modified'):
        # (parent, key) of every nested container: roots hang off md / info / a file entry, the rest off a container
        slots = []
        for p, v in unknown_roots(md):
            if isinstance(v, (list, dict)):
                parent = md if p[0] == 'top' else info if len(p) == 2 else info['files'][p[2]]
                slots.append((parent, p[-1]))
        for p, c in nested_containers(md):
            it = enumerate(c) if isinstance(c, list) else ((k, c[k]) for k in sorted(k for k in c if isinstance(k, str)))
            for k, v in it:
                if isinstance(v, (list, dict)):
                    slots.append((c, k))
        for f in file_entries(md):
            if isinstance(f.get('path'), list):
                slots.append((f, 'path'))
        if isinstance(info.get('files'), list):
            slots.append((info, 'files'))
        got = _pick(slots, e['pick'])
        if got is None:
            return None
        parent, k = got
        if kind == 'replace-copy':
            parent[k] = copy.deepcopy(parent[k])
        elif k == 'files':
            new = copy.deepcopy(parent[k])
            new.reverse()
            parent[k] = new
        elif k == 'path':
            new = copy.deepcopy(parent[k])
            new[-1] = e['comp']
            parent[k] = new
        else:
            parent[k] = _mod_copy(parent[k], e)
        return [kind, str(k)]
    if kind == 'attr':
        name, v = e['attr']
        if v is None:
            val = None
        elif 'D' in v:
            val = datetime.datetime.fromtimestamp(v['D'])
        else:
            val = from_json(v)
        setattr(t, name, val)
        return [kind, name]
    raise ValueError(kind)


def spec_is_normal(e):
    """the edit only stores values that read back as themselves"""
    k = e['kind']
    if k in ('file-set', 'list-append', 'list-insert', 'list-set', 'list-extend', 'dict-set', 'dict-update', 'info-set',
             'top-set', 'replace-modified'):
        return is_normal(e['val'])
    return True
