"""The process time zone as a dimension of a check (owned by C05).

`Torrent.creation_date` stores `datetime.fromtimestamp(i)` (a naive *local* time) and the encoder
writes `int(dt.timestamp())`: both depend on the process environment (`TZ`, the tz database).  A
worker switches zones with `set_tz(value)` (`os.environ['TZ']` + `time.tzset()`); the harness's main
process never does.

Zones = system zones that exist under /usr/share/zoneinfo (UTC, DST zones with and without
pre-1970 rules, half-hour / 45-minute zones, 30-minute DST, negative DST, offsets with seconds,
date-line changes, UTC+14 / UTC-11) **and** synthetic zones written as TZif files into the run's
scratch directory, so that the dimension does not depend on tzdata being installed.

    zones(dir)            -> [(label, TZ value, tzif path or None)]
    transitions(path)     -> sorted UTC instants at which the zone's rules change
    dates(r, trans)       -> integer `creation date`s worth trying in that zone
    law(i)                -> does int(fromtimestamp(i).timestamp()) == i hold in the current zone
"""
import datetime
import os
import struct
import time

ZONEINFO = '/usr/share/zoneinfo'
SYSTEM = ['UTC', 'America/New_York', 'Europe/Berlin', 'Europe/London', 'Asia/Kolkata', 'Asia/Kathmandu',
          'Australia/Lord_Howe', 'Pacific/Kiritimati', 'Pacific/Apia', 'Pacific/Pago_Pago', 'America/St_Johns',
          'Africa/Casablanca', 'Europe/Dublin', 'Europe/Amsterdam', 'Africa/Monrovia', 'Pacific/Chatham',
          'America/Caracas', 'Asia/Tehran', 'Antarctica/Troll', 'Asia/Pyongyang', 'America/Juneau',
          'Pacific/Kwajalein', 'America/Sao_Paulo', 'Asia/Tokyo', 'Europe/Moscow', 'Australia/Sydney']

YEAR = 31556952


def _yearly(lo, hi, std, dst, spring=6652800, autumn=25660800):
    """two transitions per year from year `lo` to `hi` (offsets in seconds, instants approximate)"""
    out = []
    for y in range(lo, hi):
        base = (y - 1970) * YEAR
        out += [(base + spring - std, 1), (base + autumn - dst, 0)]
    return out


# name -> (types [(utoff, isdst, abbr)], transitions [(instant, type index)]); before the first transition glibc
# uses the first standard-time type
SYNTHETIC = {
    # UTC-4 with the DST flag until 1969-12-02, UTC-5 afterwards: the offset at a pre-1970 instant differs from
    # the offset at the epoch
    'Syn_DST_before_1970': ([(-14400, 1, b'EDT'), (-18000, 0, b'EST')], [(-2000000000, 0), (-2592000, 1)]),
    # DST every year 1950-1989, east of UTC
    'Syn_yearly_DST': ([(3600, 0, b'CET'), (7200, 1, b'CEST')], _yearly(1950, 1990, 3600, 7200)),
    # the same west of UTC with a half-hour standard offset and a half-hour DST step
    'Syn_half_hour_DST': ([(-12600, 0, b'NST'), (-10800, 1, b'NHT')], _yearly(1940, 2000, -12600, -10800)),
    # negative DST: the winter months carry the DST flag and the smaller offset
    'Syn_negative_DST': ([(3600, 0, b'IST'), (0, 1, b'GMT')], [(t, 1 - k) for t, k in _yearly(1955, 1985, 0, 3600)]),
    # historical change of the standard offset: +5:30 until 1960, +6:30 until 1973, then +5:45
    'Syn_history_45': ([(19800, 0, b'A'), (23400, 0, b'B'), (20700, 0, b'C')],
                       [(-1500000000, 0), (-315619200, 1), (100000000, 2)]),
    # an offset with seconds until 1972
    'Syn_seconds': ([(-2670, 0, b'LMT'), (0, 0, b'GMT')], [(-2000000000, 0), (63593070, 1)]),
    # across the date line: UTC-10 until the end of 2011, UTC+14 afterwards (a local day is skipped); and back
    'Syn_dateline': ([(-36000, 0, b'W'), (50400, 0, b'E')], [(-2000000000, 0), (1325239200, 1)]),
    'Syn_dateline_back': ([(50400, 0, b'E'), (-36000, 0, b'W')], [(-2000000000, 0), (-100000000, 1)]),
    'Syn_plus14': ([(50400, 0, b'P14')], []),
    'Syn_minus12': ([(-43200, 0, b'M12')], []),
}


def write_tzif(path, types, trans):
    """minimal TZif version 1 file (32-bit transition times)"""
    abbrevs = b''
    idx = []
    for _, _, ab in types:
        idx.append(len(abbrevs))
        abbrevs += ab + b'\0'
    trans = sorted(t for t in trans if -2 ** 31 <= t[0] < 2 ** 31)
    data = b'TZif' + b'\0' + b'\0' * 15
    data += struct.pack('>6l', 0, 0, 0, len(trans), len(types), len(abbrevs))
    data += struct.pack('>%dl' % len(trans), *[t for t, _ in trans])
    data += bytes(k for _, k in trans)
    for (utoff, isdst, _), ai in zip(types, idx):
        data += struct.pack('>lBB', utoff, isdst, ai)
    data += abbrevs
    with open(path, 'wb') as f:
        f.write(data)


def zones(scratch):
    """[(label, TZ value, tzif path)] — system zones that exist, then the synthetic ones (always)"""
    out = []
    for z in SYSTEM:
        p = os.path.join(ZONEINFO, z)
        if os.path.isfile(p):
            out.append((z, z, p))
    d = os.path.join(scratch, 'tz')
    os.makedirs(d, exist_ok=True)
    for name, (types, trans) in sorted(SYNTHETIC.items()):
        p = os.path.join(d, name)
        if not os.path.exists(p):
            write_tzif(p, types, trans)
        out.append((name, p, p))
    if not any(l == 'UTC' for l, _, _ in out):
        out.insert(0, ('UTC', 'UTC0', None))
    return out


def set_tz(value):
    if os.environ.get('TZ') != value:
        os.environ['TZ'] = value
        time.tzset()


def transitions(path):
    """UTC instants of the zone's transitions (64-bit block of a version >= 2 file if there is one)"""
    if not path:
        return []
    try:
        with open(path, 'rb') as f:
            b = f.read()
        if b[:4] != b'TZif':
            return []

        def hdr(o):
            return struct.unpack('>6l', b[o + 20:o + 44])
        isutc, isstd, leap, timecnt, typecnt, charcnt = hdr(0)
        o = 44
        if b[4:5] >= b'2':
            o += timecnt * 4 + timecnt + typecnt * 6 + charcnt + leap * 8 + isstd + isutc
            isutc, isstd, leap, timecnt, typecnt, charcnt = hdr(o)
            o += 44
            return sorted(struct.unpack('>%dq' % timecnt, b[o:o + 8 * timecnt]))
        return sorted(struct.unpack('>%dl' % timecnt, b[o:o + 4 * timecnt]))
    except Exception:  # noqa
        return []


DELTAS = [-86401, -86400, -7201, -3601, -3600, -3599, -1801, -1800, -1799, -1, 0, 1, 1799, 1800, 1801, 3599, 3600, 3601,
          7199, 7200, 86399, 86400]
EDGE_K = [-86400, -50400, -43201, -43200, -1, 0, 1, 19800, 43200, 50399, 50400, 86399, 86400]
MIN_TS, MAX_TS = -62135596800, 253402300799       # 0001-01-01T00:00:00Z, 9999-12-31T23:59:59Z


def dates(r, trans, n=1):
    """`n` integer timestamps: around the zone's transitions (gap / fold / either side), before 1970, at the
    year-1 and year-9999 edges shifted by every possible offset, 32-bit edges, and values no calendar holds"""
    out = []
    for _ in range(n):
        k = r.random()
        if k < 0.4 and trans:
            t = r.choice(trans) if r.random() < 0.5 else r.choice([x for x in trans if x < 0] or trans)
            out.append(t + r.choice(DELTAS))
        elif k < 0.65:
            out.append(r.choice([r.randint(-2 ** 31, -1), r.randint(-10 ** 10, -2 ** 31), r.randint(-5 * 10 ** 8, -1),
                                 r.randint(-YEAR, -1), -14182940, -144590400]))
        elif k < 0.75:
            out.append(r.choice([MIN_TS, MAX_TS]) + r.choice(EDGE_K))
        elif k < 0.83:
            out.append(r.choice([0, 1, -1, 2 ** 31 - 1, 2 ** 31, -2 ** 31, -2 ** 31 - 1, 2 ** 32, -2 ** 32, 86399, 86400]))
        elif k < 0.9:
            out.append(r.choice([1, -1]) * r.choice([10 ** 12, 10 ** 15, 10 ** 18, 2 ** 63 - 1, 2 ** 63, 2 ** 64, 10 ** 20,
                                                       67768036191676799, 67768036191676800, 10 ** 400]))
        else:
            out.append(r.randint(0, 2 ** 33))
    return out


def local_of(i):
    """`datetime.fromtimestamp(i)` in the current zone as (wall seconds since 1970-01-01T00:00 local, fold), or None
    if it raises; the second component of the pair is `int(dt.timestamp())` or None if that raises"""
    import calendar
    try:
        d = datetime.datetime.fromtimestamp(i)
    except (ValueError, OverflowError, OSError):
        return None, None
    try:
        s = int(d.timestamp())
    except (ValueError, OverflowError, OSError):
        s = None
    return [calendar.timegm(d.timetuple()), d.fold], s


def law(i):
    """True / False: the setter accepts `i` and the encoder gives `i` back / something else (or raises);
    None: the setter refuses `i`"""
    loc, s = local_of(i)
    if loc is None:
        return None
    return s == i


def law_grid(trans):
    """the law on a grid of the current zone: every transition +- DELTAS and the calendar edges"""
    grid = set()
    for t in trans:
        for d in DELTAS:
            grid.add(t + d)
    for k in EDGE_K:
        grid |= {MIN_TS + k, MAX_TS + k}
    grid |= {0, -1, 1, -14182940, 2 ** 31, -2 ** 31, 2 ** 63, -2 ** 63, 10 ** 12}
    res = {'accepted_and_identity': 0, 'refused_by_setter': 0, 'accepted_not_identity': []}
    for i in sorted(grid):
        v = law(i)
        if v is None:
            res['refused_by_setter'] += 1
        elif v:
            res['accepted_and_identity'] += 1
        else:
            res['accepted_not_identity'].append(i)
    return res
