"""
Worlds for C11's content-path spellings (owned by C11).

A world is a small directory tree below a root R with up to three copies of one torrent's content
at different places (same names and sizes, *every byte different*: copy v holds byte + 85·v), a few
directories and symbolic links (relative, absolute, link to a link, link to the content itself, a
loop, a dangling one).  A content path is a *spelling*: text with `..`, `.`, doubled / trailing
slashes, through the links, absolute or relative to a working directory that may itself have been
reached through a link.  Which copy (or which error) a spelling leads to is not decided here: the
tree is read off the disk with lstat / readlink / listdir (nothing is resolved) into an inode table
and the Lean model (`Torf.Reuse.resolve`) resolves the spelling the way the operating system does.
"""
import os

SHIFT = [0, 85, 170]
# where copy v of the content lies below R
PLACES = {'store': ['store', 'T'], 'work': ['work', 'T'], 'root': ['T']}
PLACE_ORDER = ['store', 'work', 'root']

_TABLES = [bytes((x + s) & 255 for x in range(256)) for s in SHIFT]


def variant(b, v):
    return b.translate(_TABLES[v])


def build(R, files, single, base_contents, places):
    """create the world below R; returns {st_ino: content id}; content id = v * n + j"""
    n = len(files)
    cid_of = {}
    for d in (['store', 'inbox'], ['store', 'deep', 'er'], ['work']):
        os.makedirs(os.path.join(R, *d), exist_ok=True)
    for v, place in enumerate(PLACE_ORDER):
        if place not in places:
            continue
        top = os.path.join(R, *PLACES[place])
        if single:
            with open(top, 'wb') as f:
                f.write(variant(base_contents[0], v))
            cid_of[os.lstat(top).st_ino] = v * n
            continue
        os.makedirs(top)
        for j, fl in enumerate(files):
            p = os.path.join(top, *fl['path'])
            os.makedirs(os.path.dirname(p), exist_ok=True)
            with open(p, 'wb') as f:
                f.write(variant(base_contents[j], v))
            cid_of[os.lstat(p).st_ino] = v * n + j
    for at, to in LINKS:
        os.symlink(to.replace('{R}', R), os.path.join(R, *at))
    return cid_of


LINKS = [
    (['work', 'cur'], '../store/inbox'),          # relative link to a directory elsewhere
    (['work', 'abs'], '{R}/store/deep/er'),       # absolute link, two levels deep
    (['work', 'hop'], 'cur'),                     # link to a link
    (['work', 'TA'], '../store/T'),               # link to the content itself
    (['store', 'T2'], 'T'),
    (['store', 'back'], '../work'),               # and the other way round
    (['store', 'loop'], 'loop'),                  # ELOOP
    (['work', 'dang'], '../nowhere'),             # dangling
]

# spellings relative to R; what they denote is the model's business (OS ≠ text for most of them)
TEMPLATES = [
    'store/T', 'work/T', 'T',
    'work/cur/../T', 'work/hop/../T', 'work/abs/../../T', 'work/abs/../../../work/T', 'work/abs/../../../T',
    'work/TA', 'work/TA/../T', 'store/T2', 'store/T2/../T', 'work/TA/../../T',
    'work/cur/../../work/T', 'work/cur/../../T', 'store/back/../T', 'store/back/T', 'store/back/cur/../T',
    'work/cur/../nothing/../T', 'work/cur/T', 'store/inbox/../T', 'store/deep/er/../../T', 'store/deep/../T',
    'store/loop/../T', 'work/dang/../T', 'work/cur/../../store/inbox/../T', 'work/hop/../../work/abs/../../T',
    'store/back/abs/../../T', 'store/back/hop/../back/T', 'work/cur/../back/cur/../T',
]
WORDS = ['cur', 'abs', 'hop', 'deep', 'er', 'inbox', 'store', 'work', 'T', 'TA', 'T2', 'back', 'nothing', 'dang']
CWDS = ['', 'work', 'work/cur', 'work/abs', 'store', 'store/back', 'work/hop', 'store/deep/er']


def decorate(rng, text):
    """sprinkle components that do not change the text's lexical meaning (`.`, empty, `name/..`) and
    some that do; trailing slash / dot"""
    comps = text.split('/')
    out = []
    for c in comps:
        r = rng.random()
        if r < 0.10:
            out.append('.')
        elif r < 0.18:
            out.append('')
        elif r < 0.26:
            out += [rng.choice(WORDS), '..']
        out.append(c)
    r = rng.random()
    if r < 0.12:
        out.append('')
    elif r < 0.18:
        out.append('.')
    elif r < 0.22:
        out += ['', '']
    return '/'.join(out)


def random_walk(rng, R):
    """guided random spelling from R: listed names (through links as the OS sees them), `..`, `.`, empty"""
    parts = []
    rroot = os.path.realpath(R)
    for _ in range(rng.choice([1, 2, 2, 3, 4, 5, 6])):
        here = os.path.join(R, *parts) if parts else R
        if not os.path.isdir(here):
            break
        names = sorted(os.listdir(here))
        r = rng.random()
        if r < 0.55 and names:
            parts.append(rng.choice(names))
        elif r < 0.8:
            if os.path.realpath(here) != rroot:
                parts.append('..')
        elif r < 0.88:
            parts.append('.')
        elif r < 0.94 and parts:
            parts.append('')
        else:
            parts.append('nothing')
    if rng.random() < 0.7:
        parts.append(rng.choice(['T', 'T', 'TA', 'T2']))
    while parts and parts[0] == '':
        parts = parts[1:]
    return '/'.join(parts) if parts else 'store/T'


def spelling(rng, R, plain=False):
    """→ (cwd text below R, content path text); `{R}` stands for the root in both"""
    if plain:
        rel = rng.choice(TEMPLATES)
    else:
        rel = rng.choice(TEMPLATES) if rng.random() < 0.75 else random_walk(rng, R)
        if rng.random() < 0.6:
            rel = decorate(rng, rel)
    if rng.random() < 0.7:
        return '{R}', '{R}/' + rel
    cwd = rng.choice(CWDS)
    here = os.path.realpath(os.path.join(R, cwd))
    depth = len([c for c in os.path.relpath(here, os.path.realpath(R)).split('/') if c not in ('', '.')])
    ups = ['..'] * depth
    if ups and rng.random() < 0.3:
        ups.insert(rng.randrange(len(ups) + 1), '.')
    text = '/'.join(ups + [rel])
    if text.startswith('/'):
        text = '.' + text
    return ('{R}/' + cwd) if cwd else '{R}', text


def scan(R, cid_of):
    """inode table for the model: 0 = '/', the chain of real directories down to R (one entry each),
    then everything below R as lstat / readlink / listdir show it"""
    nodes = []

    def add(p):
        st = os.lstat(p)
        i = len(nodes)
        nodes.append(None)
        if os.path.islink(p):
            nodes[i] = {'k': 'l', 't': os.readlink(p)}
        elif os.path.isdir(p):
            nodes[i] = {'k': 'd', 'r': True, 'x': True, 'e': [[nm, add(p + '/' + nm)] for nm in sorted(os.listdir(p))]}
        else:
            nodes[i] = {'k': 'f', 'size': st.st_size, 'r': True, 'c': cid_of[st.st_ino]}
        return i
    real = os.path.realpath(R)
    spine = [c for c in real.split('/') if c]
    for c in spine:
        nodes.append({'k': 'd', 'r': True, 'x': True, 'e': [[c, len(nodes) + 1]]})
    assert add(real) == len(spine)
    return nodes
