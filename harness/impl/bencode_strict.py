"""Independent strict (conforming) bencode parser and canonical serialiser, harness side.
Owned by C05/C06.  Knows nothing about torf or flatbencode.

strict_parse(bs) -> (value, spans) where value is int | bytes | list | dict (bytes keys, in file
order) and spans maps id(dict) -> {key: (start, end)} of each value's byte span in `bs`.
Raises NonCanonical on: unsorted or duplicate keys, leading zeros, '-0', empty numerals,
non-bytes keys, truncated input, trailing data."""
from harness.impl import pyval


class NonCanonical(ValueError):
    pass


def _digits(bs, i, stop):
    j = i
    n = len(bs)
    while j < n and 48 <= bs[j] <= 57:
        j += 1
    if j >= n or bs[j] != stop:
        raise NonCanonical(f'expected {chr(stop)!r} at {j}')
    return j


def _parse(bs, i, spans, depth):
    if i >= len(bs):
        raise NonCanonical('truncated')
    c = bs[i]
    if c == 0x69:  # i
        k = i + 1
        neg = k < len(bs) and bs[k] == 0x2d
        if neg:
            k += 1
        j = _digits(bs, k, 0x65)
        ds = bs[k:j]
        if not ds or (len(ds) > 1 and ds[0] == 0x30) or (neg and ds == b'0'):
            raise NonCanonical(f'non-minimal integer at {i}')
        spans['maxdigits'] = max(spans.get('maxdigits', 0), len(ds))
        n = pyval._str_int(ds.decode('ascii'))
        return (-n if neg else n), j + 1
    if c == 0x6c:  # l
        i += 1
        out = []
        while True:
            if i >= len(bs):
                raise NonCanonical('truncated list')
            if bs[i] == 0x65:
                return out, i + 1
            v, i = _parse(bs, i, spans, depth + 1)
            out.append(v)
    if c == 0x64:  # d
        i += 1
        out = {}
        sp = {}
        last = None
        while True:
            if i >= len(bs):
                raise NonCanonical('truncated dict')
            if bs[i] == 0x65:
                spans[id(out)] = sp
                return out, i + 1
            k, i = _parse(bs, i, spans, depth + 1)
            if not isinstance(k, bytes):
                raise NonCanonical('non-bytes key')
            if last is not None and not (last < k):
                raise NonCanonical(f'keys not strictly ascending: {last!r} then {k!r}')
            last = k
            s = i
            v, i = _parse(bs, i, spans, depth + 1)
            out[k] = v
            sp[k] = (s, i)
    if 48 <= c <= 57:
        j = _digits(bs, i, 0x3a)
        ds = bs[i:j]
        if len(ds) > 1 and ds[0] == 0x30:
            raise NonCanonical(f'leading zero in string length at {i}')
        n = int(ds)
        if j + 1 + n > len(bs):
            raise NonCanonical('truncated string')
        return bytes(bs[j + 1:j + 1 + n]), j + 1 + n
    raise NonCanonical(f'unexpected byte {c:#x} at {i}')


def strict_parse(bs):
    spans = {}
    v, i = _parse(bs, 0, spans, 0)
    if i != len(bs):
        raise NonCanonical('trailing data')
    return v, spans


def is_canonical(bs, lim=None):
    """lim: additionally refuse integers with more than `lim` digits (CPython's int<->str limit)"""
    try:
        _, spans = strict_parse(bs)
        return lim is None or spans.get('maxdigits', 0) <= lim
    except (NonCanonical, RecursionError):
        return False


def ser(v):
    """canonical bencoding of int | bytes | list | dict(bytes keys)"""
    out = []
    _ser(v, out)
    return b''.join(out)


def _ser(v, out):
    if isinstance(v, bool):
        raise TypeError('bool')
    if isinstance(v, int):
        out.append(b'i' + pyval._int_str(v).encode() + b'e')
    elif isinstance(v, bytes):
        out.append(str(len(v)).encode() + b':' + v)
    elif isinstance(v, list):
        out.append(b'l')
        for x in v:
            _ser(x, out)
        out.append(b'e')
    elif isinstance(v, dict):
        out.append(b'd')
        for k in sorted(v):
            _ser(k, out)
            _ser(v[k], out)
        out.append(b'e')
    else:
        raise TypeError(type(v))


def ser_raw(v, out=None):
    """serialise without sorting (dict given as list of pairs or dict in its own order); for
    building non-canonical inputs"""
    top = out is None
    if top:
        out = []
    if isinstance(v, Pairs):
        out.append(b'd')
        for k, x in v.items:
            ser_raw(k, out)
            ser_raw(x, out)
        out.append(b'e')
    elif isinstance(v, Raw):
        out.append(v.data)
    elif isinstance(v, int):
        out.append(b'i' + pyval._int_str(v).encode() + b'e')
    elif isinstance(v, bytes):
        out.append(str(len(v)).encode() + b':' + v)
    elif isinstance(v, list):
        out.append(b'l')
        for x in v:
            ser_raw(x, out)
        out.append(b'e')
    elif isinstance(v, dict):
        out.append(b'd')
        for k in sorted(v):
            ser_raw(k, out)
            ser_raw(v[k], out)
        out.append(b'e')
    if top:
        return b''.join(out)


class Pairs:
    """a dict written in exactly this order (may be unsorted / contain duplicates)"""
    def __init__(self, items):
        self.items = list(items)


class Raw:
    """literal bytes spliced into the output"""
    def __init__(self, data):
        self.data = data
