"""Python side of the tagged JSON encoding of PyVal (see lean/Driver/PyJson.lean)."""
import datetime
import math


def to_json(v):
    if v is None:
        return {'t': 'n'}
    if isinstance(v, bool):
        return {'t': 'B', 'v': v}
    if isinstance(v, int):
        return {'t': 'i', 'v': _int_str(v)}
    if isinstance(v, float):
        if math.isnan(v):
            return {'t': 'f', 'k': 'nan'}
        if math.isinf(v):
            return {'t': 'f', 'k': 'pinf' if v > 0 else 'ninf'}
        return {'t': 'f', 'k': 'fin', 'trunc': _int_str(int(v)), 'integral': v.is_integer(),
                'neg': math.copysign(1.0, v) < 0 and v != 0}
    if isinstance(v, str):
        return {'t': 's', 'v': v}
    if isinstance(v, (bytes, bytearray)) and type(v) is bytes:
        return {'t': 'b', 'v': v.hex()}
    if type(v) is list:
        return {'t': 'l', 'v': [to_json(x) for x in v]}
    if type(v) is tuple:
        return {'t': 'u', 'v': [to_json(x) for x in v]}
    if isinstance(v, dict):
        return {'t': 'd', 'v': [[to_json(k), to_json(x)] for k, x in v.items()]}
    if isinstance(v, datetime.datetime):
        try:
            ts = int(v.timestamp())
        except (OverflowError, OSError, ValueError):
            ts = None
        return {'t': 'D', 'ts': None if ts is None else str(ts)}
    return {'t': 'o', 'tag': type(v).__name__}


def _int_str(i):
    # avoid the 4300-digit limit of int -> str
    import sys
    if hasattr(sys, 'get_int_max_str_digits'):
        lim = sys.get_int_max_str_digits()
        if lim and abs(i) >= 10 ** (lim - 1):
            sign = '-' if i < 0 else ''
            i = abs(i)
            parts = []
            base = 10 ** 4000
            while i:
                i, r = divmod(i, base)
                parts.append(r)
            s = str(parts[-1]) + ''.join(str(p).zfill(4000) for p in reversed(parts[:-1]))
            return sign + s
    return str(i)


def from_json(j):
    t = j['t']
    if t == 'n':
        return None
    if t == 'B':
        return j['v']
    if t == 'i':
        return _str_int(j['v'])
    if t == 'f':
        k = j['k']
        if k == 'nan':
            return float('nan')
        if k == 'pinf':
            return float('inf')
        if k == 'ninf':
            return float('-inf')
        raise ValueError('finite floats are not reconstructed from their abstraction')
    if t == 's':
        return j['v']
    if t == 'b':
        return bytes.fromhex(j['v'])
    if t == 'l':
        return [from_json(x) for x in j['v']]
    if t == 'u':
        return tuple(from_json(x) for x in j['v'])
    if t == 'd':
        return {from_json(k): from_json(v) for k, v in j['v']}
    raise ValueError(f'cannot reconstruct {t}')


def _str_int(s):
    neg = s.startswith('-')
    if neg:
        s = s[1:]
    n = 0
    for i in range(0, len(s), 4000):
        chunk = s[i:i + 4000]
        n = n * 10 ** len(chunk) + int(chunk)
    return -n if neg else n
