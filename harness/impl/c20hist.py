"""
C20 — histories on `Torrent` objects (owned by property C20; used by harness/props/c20.py).

C20's statement is about the torrent *as it is when the check runs*.  A history is a list of steps on
one or more `Torrent` objects that share one content directory:

  size lookups   check (verify_filesize: no callback | passive | cancelling at call k | callback raising at
                 call k), verify (full verification, followed by the size check on the same state), filetree,
                 psize (partial_size of a listed file | directory prefix | torrent name | unknown path | empty
                 path; as tuple, list, str, pathlib.Path), props (size, pieces, files)
  edits          through the mapping `torrent.metainfo` (length / path of an entry edited in place, entry
                 replaced, entries swapped, reordered, inserted, deleted, the list replaced by assignment or slice
                 assignment, the whole `info` replaced, name changed, single <-> multi-file, piece length) and
                 through the setters (`name`, `files` incl. the monitored list's append/remove, `path`)
  copy           `copy()`; later steps address the original or the copy
  disk           files grown / shrunk / removed / replaced by a directory, or the content brought in line with
                 the current metainfo of one object

After *every* step that looks something up the observation is judged against the specification evaluated on
the metainfo the object has at that moment (read back from the plain mapping, and for mapping edits compared
with the harness's own shadow dict) and on the disk of that moment (harness's shadow tree, compared with an
independent measurement of the real directory).  The Lean side is `Torf.Model.FileSizeHistory`
(`run false` = the code-shaped model, `runSpec` = the specification; theorems C20_history_*).
"""
import copy
import errno
import hashlib
import os
import pathlib
import random
import shutil

from harness import common
from harness.gen import layouts

K = 16384


class CallbackBoom(Exception):
    """raised by the harness's callback in 'raises' runs"""


# --------------------------------------------------------------------------------------------
# canonical content, shadow disk tree

def cbytes(cseed, path, n):
    return random.Random(f'{cseed}/' + '/'.join(path)).randbytes(n) if n else b''


def _conv(val):
    """step value -> shadow node: int = file of that size; {'dir': t} = directory whose files total t"""
    if isinstance(val, dict):
        t = val['dir']
        return {'x': t // 2, 'sub': {'y': t - t // 2}}
    return int(val)


def sh_set(root, path, val):
    """shadow tree after 'put val at path' (None removes); returns the new root"""
    if not path:
        return None if val is None else _conv(val)
    if not isinstance(root, dict):
        root = {}
    node = root
    for c in path[:-1]:
        if not isinstance(node.get(c), dict):
            node[c] = {}
        node = node[c]
    if val is None:
        node.pop(path[-1], None)
    else:
        node[path[-1]] = _conv(val)
    return root


def _total(node):
    return node if isinstance(node, int) else sum(_total(v) for v in node.values())


def sh_entry(root, path):
    """what the OS will report at top/path according to the shadow tree"""
    node = root
    for c in path:
        if not isinstance(node, dict) or c not in node:
            return {'kind': 'missing'}
        node = node[c]
    if node is None:
        return {'kind': 'missing'}
    if isinstance(node, int):
        return {'kind': 'file', 'n': node}
    return {'kind': 'dir', 'n': _total(node)}


def _rm(p):
    if os.path.islink(p) or os.path.isfile(p):
        os.unlink(p)
    elif os.path.isdir(p):
        shutil.rmtree(p)


def real_set(top, path, val, cseed):
    """the same operation on the real directory"""
    cur = top
    if path:
        for c in [None] + list(path[:-1]):
            if c is not None:
                cur = os.path.join(cur, c)
            if os.path.lexists(cur) and not os.path.isdir(cur):
                os.unlink(cur)
            if not os.path.isdir(cur):
                os.mkdir(cur)
    p = os.path.join(top, *path)
    _rm(p)
    if val is None:
        return
    if isinstance(val, dict):
        t = val['dir']
        os.makedirs(os.path.join(p, 'sub'))
        with open(os.path.join(p, 'x'), 'wb') as f:
            f.write(b'a' * (t // 2))
        with open(os.path.join(p, 'sub', 'y'), 'wb') as f:
            f.write(b'b' * (t - t // 2))
    else:
        with open(p, 'wb') as f:
            f.write(cbytes(cseed, list(path), int(val)))


def measure(top, path):
    """independent measurement of the real directory (not torf's code)"""
    p = os.path.join(top, *path)
    if not os.path.exists(p):
        return {'kind': 'missing'}
    if os.path.isdir(p):
        n = 0
        for d, _, fns in os.walk(p):
            for fn in fns:
                n += os.stat(os.path.join(d, fn)).st_size
        return {'kind': 'dir', 'n': n}
    return {'kind': 'file', 'n': os.stat(p).st_size}


# --------------------------------------------------------------------------------------------
# metainfo: snapshot, edits through the mapping, pieces

def snap(info):
    """the layout part of an `info` mapping (plain dict operations only)"""
    name = info.get('name')
    s = {'name': name, 'pl': info.get('piece length', 0), 'piecesBytes': len(info.get('pieces', b'') or b''),
         'both': 'length' in info and 'files' in info}
    if 'length' in info:
        s['single'] = True
        s['length'] = info['length']
    else:
        # no 'files' key (mode None): no listed file; observationally a multi-file torrent with an empty list
        s['single'] = False
        s['files'] = [{'path': list(f['path']), 'size': f['length']} for f in info.get('files', [])]
    return s


def snap_listed(s):
    return [{'path': [], 'size': s['length']}] if s['single'] else s['files']


def snap_ok(s):
    """inside the abstraction of the Lean `Torrent`: name a str, sizes and piece length naturals"""
    if s['both'] or not isinstance(s['name'], str) or not isinstance(s['pl'], int) or s['pl'] < 0:
        return False
    return all(isinstance(f['size'], int) and not isinstance(f['size'], bool) and f['size'] >= 0 and
               all(isinstance(c, str) for c in f['path']) for f in snap_listed(s))


def lean_meta(s):
    m = {'name': s['name'], 'single': s['single'], 'pl': s['pl'], 'piecesBytes': s['piecesBytes']}
    if s['single']:
        m['length'] = s['length']
    else:
        m['files'] = [{'path': f['path'], 'size': f['size']} for f in s['files']]
    return m


def make_pieces(info, kind, cseed):
    s = snap(info)
    if not snap_ok(s) or s['pl'] <= 0:
        return None
    listed = snap_listed(s)
    total = sum(f['size'] for f in listed)
    n = -(-total // s['pl'])
    if kind == 'dummy':
        return b'\x11' * (20 * n)
    if kind == 'one-more':
        return b'\x11' * (20 * (n + 1))
    if kind == 'real':
        data = b''.join(cbytes(cseed, f['path'], f['size']) for f in listed)
        return b''.join(hashlib.sha1(data[i:i + s['pl']]).digest() for i in range(0, len(data), s['pl']))
    raise AssertionError(kind)


def fix_pieces(info, kind, cseed):
    if kind in (None, 'stale'):
        return
    if kind == 'missing':
        info.pop('pieces', None)
        return
    p = make_pieces(info, kind, cseed)
    if p is not None:
        info['pieces'] = p


def apply_edit(md, e):
    """one edit of the metainfo through the mapping; `md` is `torrent.metainfo` or the harness's shadow of it.
    Total: indices are taken modulo the number of entries, parts that do not apply are skipped."""
    info = md['info']
    k = e['k']
    files = info.get('files')
    n = len(files) if isinstance(files, list) else 0

    def newlen(old):
        return max(0, e['n'] if 'n' in e else old + e['d'])

    if k == 'length':
        if 'length' in info:
            info['length'] = newlen(info['length'])
        elif n:
            f = files[e['i'] % n]
            f['length'] = newlen(f['length'])
    elif k == 'swaplen' and n:
        a, b = files[e['i'] % n], files[e['j'] % n]
        a['length'], b['length'] = b['length'], a['length']
    elif k == 'swappath' and n:
        a, b = files[e['i'] % n], files[e['j'] % n]
        a['path'], b['path'] = b['path'], a['path']
    elif k == 'path' and n:
        f = files[e['i'] % n]
        if e.get('how') == 'mutate':
            f['path'][:] = list(e['path'])
        else:
            f['path'] = list(e['path'])
    elif k == 'entry' and n:
        i = e['i'] % n
        files[i] = {'length': newlen(files[i]['length']), 'path': list(e.get('path') or files[i]['path'])}
    elif k == 'perm' and n:
        how = e['how']
        if how == 'reverse':
            files.reverse()
        elif how == 'rotate':
            files.append(files.pop(0))
        elif how == 'sort':
            files.sort(key=lambda f: (f['length'], f['path']))
        else:
            info['files'] = files[::-1]
    elif k == 'insert' and isinstance(files, list):
        files.insert(e['i'] % (n + 1), {'length': e['n'], 'path': list(e['path'])})
    elif k == 'delete' and n:
        del files[e['i'] % n]
    elif k == 'list':
        new = [{'length': f['size'], 'path': list(f['path'])} for f in e['files']]
        if e.get('how') == 'slice' and isinstance(files, list):
            files[:] = new
        else:
            info.pop('length', None)
            info['files'] = new
    elif k == 'relist' and isinstance(files, list):
        # the "take over the file list of a regenerated torrent" edit: same entries, new dicts, some lengths changed
        new = copy.deepcopy(files)
        for i, d in e['deltas']:
            if new:
                new[i % len(new)]['length'] = max(0, new[i % len(new)]['length'] + d)
        if e.get('how') == 'slice':
            files[:] = new
        elif e.get('how') == 'info':
            md['info'] = dict(info, files=new)
        else:
            info['files'] = new
    elif k == 'name':
        info['name'] = e['name']
    elif k == 'single':
        info.pop('files', None)
        info['length'] = e['n']
    elif k == 'multi':
        info.pop('length', None)
        info['files'] = [{'length': f['size'], 'path': list(f['path'])} for f in e['files']]
    elif k == 'pl':
        info['piece length'] = e['pl']


# --------------------------------------------------------------------------------------------
# real-code side

def _exc_obs(e, fsmap):
    n = type(e).__name__
    if n == 'ReadError':
        idx = fsmap.get(str(e.path), -1)
        if idx == -1:
            idx = fsmap.below(e.path)
        return ['read'], idx, e.errno
    if n == 'VerifyFileSizeError':
        return ['verifyFileSize', e.actual_size, e.expected_size], fsmap.get(str(e.filepath), -1), None
    if n == 'VerifyIsDirectoryError':
        # names the path argument as it was given (trailing separator, pathlib object)
        return ['verifyIsDir'], fsmap.get(str(e.path), -1), None
    if n == 'MetainfoError':
        return ['metainfo'], None, None
    if n == 'PathError':
        return ['path'], None, None
    return ['internal:' + n], None, None


def _do_check(torf, t, s, top, step):
    """one verify_filesize() run; returns the observation in the driver's format (+ 'which')"""
    form = step.get('top', 'same')
    arg = top + os.sep if form == 'slash' else pathlib.Path(top) if form == 'pathlib' else top
    from harness.impl import c20path
    fsmap = c20path.PathIndex(top, s['name'], snap_listed(s) if isinstance(s['name'], str) else [])
    cb, raises = step.get('cb'), bool(step.get('raises'))
    calls = []

    def callback(tt, fs, tp, done, total, exc):
        eo = _exc_obs(exc, fsmap) if exc is not None else (None, None, None)
        idx = fsmap.pair(fs, tp)
        okargs = (tt is t and isinstance(done, int) and isinstance(total, int)
                  and (exc is None or isinstance(exc, torf.TorfError))
                  and (exc is None or eo[1] in (idx, None)))
        calls.append([idx if okargs else -2, done, total, eo[0]])
        if done in cb:
            if raises:
                raise CallbackBoom(done)
            return (False, 0, '', 'stop', True)[(done + total) % 5]
        return None

    which = None
    try:
        r = t.verify_filesize(arg, callback=None if cb is None else callback)
        res = {'ok': r} if isinstance(r, bool) else {'ok': repr(r)}
    except CallbackBoom:
        res = {'cbraised': True}
    except BaseException as e:  # noqa
        eo = _exc_obs(e, fsmap)
        res = {'raised': eo[0]}
        which = eo[1]
        if eo[0] == ['read'] and eo[2] != errno.ENOENT:
            res['errno'] = eo[2]
    return {'res': res, 'calls': calls}, which


def _psize_arg(step, s):
    """resolve the path selector of a psize step against the current metainfo; returns (argument, the
    component list that argument denotes — computed here, not by torf)"""
    listed = snap_listed(s)
    name = s['name'] if isinstance(s['name'], str) else 'T'
    sel = step['sel']
    f = listed[sel[1] % len(listed)]['path'] if len(sel) > 1 and listed else []
    kind = sel[0]
    if kind == 'file':
        comps = [name] + f
    elif kind == 'dir':
        comps = [name] + f[:min(sel[2], max(0, len(f) - 1))]
    elif kind == 'name':
        comps = [name]
    elif kind == 'empty':
        comps = []
    else:
        v = sel[2]
        comps = ([name, 'nope'], [name] + f + ['x'], ['nope'], [name + 'x'], list(f) or ['nope2'], [name, ''],
                 [name] + f[:-1] + [f[-1][:-1]] if f else [name[:-1]],
                 [name] + f[:1] + ['nope'], [name] + [c.upper() for c in f] if f else [name.upper()])[v % 9]
    form = step.get('form', 'tuple')
    plainc = all(c not in ('', '.', '..') and os.sep not in c for c in comps)
    if form == 'str' and comps and all(os.sep not in c for c in comps):
        arg = os.sep.join(comps)
        eff = arg.split(os.sep)
    elif form == 'path' and plainc:
        arg = pathlib.Path(*comps)
        eff = list(arg.parts)
    elif form == 'list':
        arg, eff = list(comps), list(comps)
    else:
        arg, eff = tuple(comps), list(comps)
    return arg, eff


def _tree_leaves(tree, prefix=()):
    for k, v in tree.items():
        if isinstance(v, dict):
            yield from _tree_leaves(v, prefix + (k,))
        else:
            yield prefix + (k,), v


def run_history(torf, wd, h):
    """execute one history on the real code.  Returns {'lean': {'objs', 'ops'}, 'obs': [per lean op …],
    'problems': […]}; obs entries: None (nothing to compare) or {'step', 'impl', …}"""
    root = os.path.join(wd, 'h')
    shutil.rmtree(root, ignore_errors=True)
    os.makedirs(root)
    top = os.path.join(root, h.get('topname', 'content'))
    cseed = h['cseed']
    init = h['init']
    t0 = torf.Torrent()
    info = t0.metainfo['info']
    info['name'] = init['name']
    if init['single']:
        info['length'] = init['files'][0]['size']
    else:
        info['files'] = [{'length': f['size'], 'path': list(f['path'])} for f in init['files']]
    info['piece length'] = init['pl']
    fix_pieces(info, init.get('pieces', 'real'), cseed)
    objs = [t0]
    shadow = [copy.deepcopy(t0.metainfo)]
    disk = None
    lean_objs = [lean_meta(snap(t0.metainfo['info']))]
    ops, obs, problems = [], [], []
    inside = snap_ok(snap(t0.metainfo['info']))

    def emit(op, ob):
        ops.append(op)
        obs.append(ob)

    for si, st in enumerate(h['steps']):
        op = st['op']
        o = st.get('o', 0) % len(objs)
        t = objs[o]
        if op == 'disk':
            if 'sync' in st:
                s = snap(objs[st['sync'] % len(objs)].metainfo['info'])
                _rm(top)
                disk = None
                for f in snap_listed(s):
                    real_set(top, f['path'], f['size'], cseed)
                    disk = sh_set(disk, f['path'], f['size'])
            for path, val in st.get('set', []):
                real_set(top, path, val, cseed)
                disk = sh_set(disk, path, val)
            continue
        before = snap(t.metainfo['info'])
        if before != snap(shadow[o]['info']):
            problems.append({'step': si, 'what': 'metainfo differs from the edits made (changed by an earlier '
                             'lookup / check / copy)', 'expected': snap(shadow[o]['info']), 'observed': before})
            shadow[o] = copy.deepcopy(t.metainfo)
        if op == 'edit':
            e = st['e']
            if e['k'] == 'name' and e.get('how') == 'setter':
                t.name = e['name']
                shadow[o]['info']['name'] = str(e['name'])
            else:
                apply_edit(t.metainfo, e)
                apply_edit(shadow[o], e)
            fix_pieces(t.metainfo['info'], e.get('pieces', 'real'), cseed)
            fix_pieces(shadow[o]['info'], e.get('pieces', 'real'), cseed)
            s = snap(t.metainfo['info'])
            inside = inside and snap_ok(s)
            emit({'k': 'edit', 'o': o, 'meta': lean_meta(s)} if snap_ok(s) else None, None)
            continue
        if op == 'setter':
            try:
                if st['what'] == 'files':
                    fl = [torf.File(os.path.join(*f['path']), size=f['size']) for f in st['files']]
                    how = st.get('how', 'assign')
                    if how == 'append' and fl:
                        t.files.append(fl[-1])
                    elif how == 'remove' and len(t.files) > 0:
                        lst = t.files
                        lst.remove(lst[st.get('i', 0) % len(lst)])
                    else:
                        t.files = fl
                else:
                    t.path = top
                    t.path = None
                err = None
            except BaseException as e:  # noqa
                err = type(e).__name__
            if t.path is not None:
                t.path = None
            fix_pieces(t.metainfo['info'], st.get('pieces', 'real'), cseed)
            shadow[o] = copy.deepcopy(t.metainfo)
            s = snap(t.metainfo['info'])
            inside = inside and snap_ok(s)
            emit({'k': 'setter', 'o': o, 'meta': lean_meta(s)} if snap_ok(s) else None,
                 {'step': si, 'setter_error': err})
            continue
        if op == 'copy':
            c = t.copy()
            objs.append(c)
            shadow.append(copy.deepcopy(shadow[o]))
            emit({'k': 'copy', 'o': o}, None)
            continue
        s = before
        if op in ('check', 'verify'):
            fs = []
            for f in snap_listed(s):
                ent = sh_entry(disk, f['path'])
                real = measure(top, f['path'])
                if ent != real:
                    raise AssertionError(f'shadow disk {ent} != measured {real} at {f["path"]}')
                fs.append(dict(ent, path=f['path']))
        if op == 'check':
            ob, which = _do_check(torf, t, s, top, st)
            emit({'k': 'check', 'o': o, 'fs': fs, 'cb': st.get('cb'), 'raises': bool(st.get('raises'))},
                 {'step': si, 'impl': ob, 'which': which})
        elif op == 'verify':
            try:
                if st.get('cb'):
                    v = t.verify(top, threads=1, callback=lambda *a: None)
                else:
                    v = t.verify(top, threads=1)
                v = v if isinstance(v, bool) else repr(v)
            except BaseException as e:  # noqa
                v = 'raised:' + type(e).__name__
            emit({'k': 'lookupAll', 'o': o}, None)
            ob, which = _do_check(torf, t, s, top, {'cb': None})
            emit({'k': 'check', 'o': o, 'fs': fs, 'cb': None, 'raises': False},
                 {'step': si, 'impl': ob, 'which': which, 'verify': v})
        elif op == 'filetree':
            try:
                tree = t.filetree
                leaves = dict(_tree_leaves(tree))
                sizes = []
                for f in snap_listed(s):
                    leaf = leaves.get((s['name'],) + tuple(f['path']))
                    ok = (leaf is not None and isinstance(leaf, torf.File)
                          and tuple(leaf.parts) == (s['name'],) + tuple(f['path']))
                    sizes.append({'ok': leaf.size} if ok else {'err': ['no-such-leaf']})
                ob = sizes
                extra = len(leaves) - len(set((s['name'],) + tuple(f['path']) for f in snap_listed(s)))
            except BaseException as e:  # noqa
                ob, extra = {'raised': type(e).__name__}, 0
            emit({'k': 'lookupAll', 'o': o}, {'step': si, 'impl': ob, 'extra_leaves': extra})
        elif op == 'psize':
            arg, eff = _psize_arg(st, s)
            try:
                r = t.partial_size(arg)
                ob = {'ok': r} if isinstance(r, int) and not isinstance(r, bool) else {'ok': repr(r)}
            except BaseException as e:  # noqa
                ob = {'err': ['path']} if type(e).__name__ == 'PathError' else {'err': ['internal:' + type(e).__name__]}
            emit({'k': 'lookup', 'o': o, 'p': eff}, {'step': si, 'impl': ob, 'arg': repr(arg)})
        elif op == 'props':
            try:
                fl = []
                for f in t.files:
                    parts = list(f.parts)
                    fl.append([parts[1:] if parts[:1] == [s['name']] else ['<not below the name>'] + parts, f.size])
                ob = {'size': t.size, 'pieces': t.pieces, 'files': fl}
            except BaseException as e:  # noqa
                ob = {'raised': type(e).__name__}
            emit({'k': 'props', 'o': o}, {'step': si, 'impl': ob})
        else:
            raise AssertionError(op)
        after = snap(t.metainfo['info'])
        if after != before:
            problems.append({'step': si, 'what': f'{op} changed the metainfo', 'expected': before, 'observed': after})
            shadow[o] = copy.deepcopy(t.metainfo)
    # a lean op of None = a metainfo outside the abstraction: the history is only usable up to there
    cut = next((i for i, x in enumerate(ops) if x is None), len(ops))
    return {'lean': {'op': 'c20.history', 'objs': lean_objs, 'ops': ops[:cut]}, 'obs': obs[:cut],
            'problems': problems, 'cut': cut < len(ops)}


def run_chunk(hs):
    torf = common.import_torf()
    wd = common.worker_dir()
    out = []
    for h in hs:
        try:
            out.append((h, run_history(torf, wd, h)))
        except BaseException:  # noqa
            import traceback
            out.append((h, {'harness_exc': traceback.format_exc()[-1200:]}))
    return out


# --------------------------------------------------------------------------------------------
# generators

LOOKUPS = ['none', 'check-nocb', 'check-passive', 'check-cancel1', 'check-cancel2', 'check-raise2', 'verify',
           'verify-cb', 'filetree', 'psize-file', 'psize-dir', 'psize-name', 'props', 'failing-nocb',
           'failing-passive']


def lookup_steps(kind, o=0, i=1):
    """steps of one lookup kind ('failing-*': a run on content where file i is one byte short)"""
    if kind == 'none':
        return []
    if kind == 'check-nocb':
        return [{'op': 'check', 'o': o, 'cb': None}]
    if kind == 'check-passive':
        return [{'op': 'check', 'o': o, 'cb': []}]
    if kind.startswith('check-cancel'):
        return [{'op': 'check', 'o': o, 'cb': [int(kind[-1])]}]
    if kind.startswith('check-raise'):
        return [{'op': 'check', 'o': o, 'cb': [int(kind[-1])], 'raises': True}]
    if kind == 'verify':
        return [{'op': 'verify', 'o': o}]
    if kind == 'verify-cb':
        return [{'op': 'verify', 'o': o, 'cb': True}]
    if kind == 'filetree':
        return [{'op': 'filetree', 'o': o}]
    if kind == 'psize-file':
        return [{'op': 'psize', 'o': o, 'sel': ['file', i], 'form': 'str'}]
    if kind == 'psize-dir':
        return [{'op': 'psize', 'o': o, 'sel': ['dir', i, 1], 'form': 'tuple'}]
    if kind == 'psize-name':
        return [{'op': 'psize', 'o': o, 'sel': ['name'], 'form': 'path'}]
    if kind == 'props':
        return [{'op': 'props', 'o': o}]
    if kind == 'failing-nocb':
        return [{'op': 'disk', 'set': [[['d', 'b'], 6]]}, {'op': 'check', 'o': o, 'cb': None}, {'op': 'disk', 'sync': o}]
    if kind == 'failing-passive':
        return [{'op': 'disk', 'set': [[['d', 'b'], None]]}, {'op': 'check', 'o': o, 'cb': []}, {'op': 'disk', 'sync': o}]
    raise AssertionError(kind)


EX_FILES = [{'path': ['a'], 'size': 5}, {'path': ['d', 'b'], 'size': 7}, {'path': ['d', 'c'], 'size': K + 1}]

# edits of the exhaustive scope: (label, steps); every one changes what verify_filesize must answer for at least
# one of the two disk states (content of the old metainfo | content of the new metainfo)
EX_EDITS = [
    ('length+1 in place', [{'op': 'edit', 'e': {'k': 'length', 'i': 1, 'd': 1}}]),
    ('length-1 in place', [{'op': 'edit', 'e': {'k': 'length', 'i': 2, 'd': -1}}]),
    ('length to 0 in place', [{'op': 'edit', 'e': {'k': 'length', 'i': 0, 'n': 0}}]),
    ('entry replaced by a new dict', [{'op': 'edit', 'e': {'k': 'entry', 'i': 1, 'd': 3}}]),
    ('lengths of two entries swapped', [{'op': 'edit', 'e': {'k': 'swaplen', 'i': 0, 'j': 1}}]),
    ('paths of two entries swapped', [{'op': 'edit', 'e': {'k': 'swappath', 'i': 1, 'j': 2}}]),
    ('path renamed (new list)', [{'op': 'edit', 'e': {'k': 'path', 'i': 1, 'path': ['d', 'bb']}}]),
    ('path renamed (list mutated)', [{'op': 'edit', 'e': {'k': 'path', 'i': 1, 'path': ['e', 'b'], 'how': 'mutate'}}]),
    ('path of one entry takes over the path of a deleted one',
     [{'op': 'edit', 'e': {'k': 'delete', 'i': 1}}, {'op': 'edit', 'e': {'k': 'path', 'i': 0, 'path': ['d', 'b']}}]),
    ('list reversed in place + length', [{'op': 'edit', 'e': {'k': 'perm', 'how': 'reverse'}},
                                         {'op': 'edit', 'e': {'k': 'length', 'i': 0, 'd': 2}}]),
    ('list replaced by assignment (regenerated torrent)', [{'op': 'edit', 'e': {'k': 'relist', 'deltas': [[1, 100]]}}]),
    ('list replaced by slice assignment', [{'op': 'edit', 'e': {'k': 'relist', 'deltas': [[1, -2], [0, 1]], 'how': 'slice'}}]),
    ('info replaced', [{'op': 'edit', 'e': {'k': 'relist', 'deltas': [[2, 1]], 'how': 'info'}}]),
    ('entry inserted', [{'op': 'edit', 'e': {'k': 'insert', 'i': 1, 'n': 9, 'path': ['d', 'n']}}]),
    ('entry deleted', [{'op': 'edit', 'e': {'k': 'delete', 'i': 1}}]),
    ('deleted and re-inserted with another length',
     [{'op': 'edit', 'e': {'k': 'delete', 'i': 1}}, {'op': 'edit', 'e': {'k': 'insert', 'i': 2, 'n': 8, 'path': ['d', 'b']}}]),
    ('renamed through the mapping + length', [{'op': 'edit', 'e': {'k': 'name', 'name': 'U'}},
                                              {'op': 'edit', 'e': {'k': 'length', 'i': 1, 'd': 1}}]),
    ('renamed through the setter + length', [{'op': 'edit', 'e': {'k': 'name', 'name': 'U', 'how': 'setter'}},
                                             {'op': 'edit', 'e': {'k': 'length', 'i': 1, 'd': 1}}]),
    ('renamed and renamed back + length', [{'op': 'edit', 'e': {'k': 'name', 'name': 'U'}},
                                           {'op': 'edit', 'e': {'k': 'length', 'i': 1, 'd': 1}},
                                           {'op': 'edit', 'e': {'k': 'name', 'name': 'T'}}]),
    ('multi -> single', [{'op': 'edit', 'e': {'k': 'single', 'n': 11}}]),
    ('multi -> single -> multi with other lengths',
     [{'op': 'edit', 'e': {'k': 'single', 'n': 11}},
      {'op': 'edit', 'e': {'k': 'multi', 'files': [{'path': ['a'], 'size': 6}, {'path': ['d', 'b'], 'size': 7}]}}]),
    ('files setter', [{'op': 'setter', 'what': 'files',
                       'files': [{'path': ['T', 'a'], 'size': 5}, {'path': ['T', 'd', 'b'], 'size': 9}]}]),
    ('files setter, then length in place', [{'op': 'setter', 'what': 'files',
                                             'files': [{'path': ['T', 'a'], 'size': 5}, {'path': ['T', 'd', 'b'], 'size': 9}]},
                                            {'op': 'filetree'},
                                            {'op': 'edit', 'e': {'k': 'length', 'i': 1, 'd': 1}}]),
    ('files.append()', [{'op': 'setter', 'what': 'files', 'how': 'append', 'files': [{'path': ['T', 'd', 'n'], 'size': 4}]},
                        {'op': 'edit', 'e': {'k': 'length', 'i': 0, 'd': 1}}]),
    ('path setter (files as on disk)', [{'op': 'disk', 'set': [[['d', 'b'], 9]]}, {'op': 'setter', 'what': 'path'}]),
    ('copy(), copy edited, both checked', [{'op': 'copy'}, {'op': 'edit', 'o': 1, 'e': {'k': 'length', 'i': 1, 'd': 1}},
                                           {'op': 'check', 'o': 1, 'cb': []}]),
    ('copy(), original edited, both checked', [{'op': 'copy'}, {'op': 'edit', 'o': 0, 'e': {'k': 'length', 'i': 1, 'd': 1}},
                                               {'op': 'check', 'o': 1, 'cb': []}, {'op': 'filetree', 'o': 1}]),
    ('edited, then copy(), copy checked', [{'op': 'edit', 'e': {'k': 'length', 'i': 1, 'd': 1}}, {'op': 'copy'},
                                           {'op': 'check', 'o': 1, 'cb': None}, {'op': 'psize', 'o': 1, 'sel': ['file', 1]}]),
    ('piece length doubled + length', [{'op': 'edit', 'e': {'k': 'pl', 'pl': 2 * K}},
                                       {'op': 'edit', 'e': {'k': 'length', 'i': 2, 'd': K}}]),
]


def gen_exhaustive(rng):
    """every (size lookup) x (edit) x (disk: content of the old | of the new metainfo) on one three-file torrent,
    followed by the check without callback, with a passive callback, full verification and all lookups"""
    out = []
    for lk in LOOKUPS:
        for label, edit in EX_EDITS:
            for dsk in ('old', 'new'):
                steps = [{'op': 'disk', 'sync': 0}] + lookup_steps(lk) + copy.deepcopy(edit)
                if dsk == 'new':
                    steps.append({'op': 'disk', 'sync': 0})
                steps += [{'op': 'check', 'cb': None}, {'op': 'check', 'cb': []}, {'op': 'psize', 'sel': ['file', 1]},
                          {'op': 'filetree'}, {'op': 'psize', 'sel': ['dir', 1, 1]}, {'op': 'props'},
                          {'op': 'verify'}]
                out.append({'history': True, 'shape': 'hist-exhaustive', 'label': f'{lk} / {label} / disk={dsk}',
                            'cseed': rng.randrange(1 << 30),
                            'init': {'name': 'T', 'single': False, 'files': copy.deepcopy(EX_FILES), 'pl': K,
                                     'pieces': 'real'},
                            'steps': steps})
    return out


def _new_path(rng, plan_files, like=None):
    """a path that keeps the layout prefix-free (file names and directory names from disjoint pools)"""
    used = {tuple(f['path']) for f in plan_files}
    for _ in range(20):
        depth = rng.choice([0, 0, 1, 1, 2])
        p = [rng.choice(['d', 'd0', 'd1', 'e', 'sub']) for _ in range(depth)] + [rng.choice(['n', 'm', 'g', 'a.b', 'README'])
                                                                                 + str(rng.randint(0, 30))]
        if tuple(p) not in used:
            return p
    return ['zz%d' % rng.randrange(10 ** 6)]


def _plan_files(md):
    info = md['info']
    if 'length' in info:
        return [{'path': [], 'size': info['length']}]
    return [{'path': list(f['path']), 'size': f['length']} for f in info.get('files', [])]


def gen_random(rng, shape='hist-random'):
    n = rng.choice([1, 2, 2, 3, 3, 4, 5, 6])
    pl = K * rng.choice([1, 1, 1, 2])
    single = rng.random() < 0.12
    if single:
        n = 1
    sizes = [rng.choice([0, 1, 2, 5, rng.randint(1, 60), pl - 1, pl, pl + 1, rng.randint(1, 2 * pl)]) for _ in range(n)]
    if single and sizes[0] == 0:
        sizes[0] = 3
    paths = [[]] if single else (layouts.tricky_paths(n, rng) if rng.random() < 0.3 else layouts.paths_for(n, rng, nested=True))
    name = rng.choice(['T', 'T', 'My Torrent', 'x.y', 'content'])
    init = {'name': name, 'single': single, 'files': [{'path': p, 'size': s} for p, s in zip(paths, sizes)], 'pl': pl,
            'pieces': rng.choice(['real'] * 5 + ['dummy'])}
    # the generator's own plan of object metainfos (mapping edits simulated with apply_edit)
    plan = [{'info': {'name': name, 'piece length': pl}}]
    if single:
        plan[0]['info']['length'] = sizes[0]
    else:
        plan[0]['info']['files'] = [{'length': s, 'path': list(p)} for p, s in zip(paths, sizes)]
    steps = [{'op': 'disk', 'sync': 0}]
    if rng.random() < 0.2:
        steps.append({'op': 'disk', 'set': [[list(rng.choice(paths)), rng.choice([None, 3, {'dir': 4}])]]})

    def lookup(o):
        files = _plan_files(plan[o])
        nf = max(1, len(files))
        r = rng.random()
        if r < 0.34:
            cbk = rng.choice(['none', 'none', 'passive', 'passive', 'cancel', 'raise'])
            st = {'op': 'check', 'o': o, 'cb': None if cbk == 'none' else [] if cbk == 'passive' else [rng.randint(1, nf)],
                  'top': rng.choice(['same'] * 4 + ['slash', 'pathlib'])}
            if cbk == 'raise':
                st['raises'] = True
            return st
        if r < 0.46:
            return {'op': 'verify', 'o': o, 'cb': rng.random() < 0.4}
        if r < 0.58:
            return {'op': 'filetree', 'o': o}
        if r < 0.90:
            kind = rng.choice(['file', 'file', 'dir', 'dir', 'name', 'unknown', 'unknown', 'empty'])
            sel = [kind, rng.randrange(nf), rng.randint(0, 8)]
            return {'op': 'psize', 'o': o, 'sel': sel, 'form': rng.choice(['tuple', 'list', 'str', 'path'])}
        return {'op': 'props', 'o': o}

    def edit(o):
        md = plan[o]
        files = _plan_files(md)
        nf = max(1, len(files))
        is_single = 'length' in md['info']
        kinds = ['length'] * 5 + ['swaplen', 'swappath', 'path', 'path', 'entry', 'perm', 'insert', 'delete', 'relist',
                                  'relist', 'relist', 'name', 'single', 'pl', 'list']
        k = rng.choice(['length', 'length', 'name', 'multi', 'pl'] if is_single else kinds)
        e = {'k': k}
        if k == 'length':
            e['i'] = rng.randrange(nf)
            if rng.random() < 0.25:
                e['n'] = rng.choice([0, 1, K, rng.randint(0, 100)])
            else:
                e['d'] = rng.choice([1, -1, 1, -1, 2, 100, -100, K, rng.randint(-50, 50) or 1])
        elif k in ('swaplen', 'swappath'):
            e['i'], e['j'] = rng.randrange(nf), rng.randrange(nf)
        elif k == 'path':
            e['i'] = rng.randrange(nf)
            e['path'] = _new_path(rng, files)
            e['how'] = rng.choice(['assign', 'mutate'])
        elif k == 'entry':
            e['i'] = rng.randrange(nf)
            e['d'] = rng.choice([1, -1, 5, 0])
            if rng.random() < 0.4:
                e['path'] = _new_path(rng, files)
        elif k == 'perm':
            e['how'] = rng.choice(['reverse', 'rotate', 'sort', 'assign'])
        elif k == 'insert':
            e['i'], e['n'], e['path'] = rng.randrange(nf + 1), rng.choice([0, 1, 4, 50, K]), _new_path(rng, files)
        elif k == 'delete':
            e['i'] = rng.randrange(nf)
        elif k == 'relist':
            e['deltas'] = [[rng.randrange(nf), rng.choice([1, -1, 100, 7])] for _ in range(rng.choice([1, 1, 2]))]
            e['how'] = rng.choice(['assign', 'assign', 'slice', 'info'])
        elif k == 'list':
            m = rng.randint(1, 4)
            ps = layouts.paths_for(m, rng, nested=True)
            e['files'] = [{'path': p, 'size': rng.choice([0, 1, 9, K, 33])} for p in ps]
            e['how'] = rng.choice(['assign', 'slice'])
        elif k == 'name':
            e['name'] = rng.choice(['U', 'T', 'x.y', 'My Torrent', 'd'])
            e['how'] = rng.choice(['map', 'setter'])
        elif k == 'single':
            e['n'] = rng.choice([1, 7, K, files[0]['size'] if files else 3])
        elif k == 'multi':
            m = rng.randint(1, 3)
            e['files'] = [{'path': p, 'size': rng.choice([1, 9, K, 33])} for p in layouts.paths_for(m, rng, nested=True)]
        elif k == 'pl':
            e['pl'] = rng.choice([K, 2 * K, 4 * K, 0, K + 1])
        e['pieces'] = rng.choice(['real'] * 8 + ['dummy', 'stale', 'stale', 'one-more', 'missing'])
        if not (k == 'name' and e.get('how') == 'setter'):
            apply_edit(md, e)
        else:
            md['info']['name'] = e['name']
        return {'op': 'edit', 'o': o, 'e': e}

    def setter(o):
        md = plan[o]
        files = _plan_files(md)
        nm = md['info'].get('name', 'T')
        if rng.random() < 0.25:
            st = {'op': 'setter', 'o': o, 'what': 'path'}
            # plan: unknown (whatever is on disk); keep the old plan as an approximation
            return st
        m = rng.randint(1, 4)
        keep = [f for f in files if f['path']][:rng.randint(0, 3)]
        fl = [{'path': [nm] + f['path'], 'size': max(1, f['size'] + rng.choice([0, 0, 1, -1, 10]))} for f in keep]
        fl += [{'path': [nm] + _new_path(rng, files), 'size': rng.choice([1, 4, 50, K])} for _ in range(max(0, m - len(fl)))]
        how = rng.choice(['assign', 'assign', 'append', 'remove'])
        st = {'op': 'setter', 'o': o, 'what': 'files', 'files': fl, 'how': how, 'i': rng.randrange(4)}
        if how == 'assign':
            srt = sorted(fl, key=lambda f: f['path'])
            md['info'].pop('length', None)
            md['info']['files'] = [{'length': f['size'], 'path': f['path'][1:]} for f in srt]
        return st

    for _ in range(rng.randint(3, 10)):
        o = rng.randrange(len(plan))
        r = rng.random()
        if r < 0.42:
            steps.append(lookup(o))
        elif r < 0.74:
            steps.append(edit(o))
        elif r < 0.80:
            steps.append(setter(o))
        elif r < 0.86 and len(plan) < 3:
            steps.append({'op': 'copy', 'o': o})
            plan.append(copy.deepcopy(plan[o]))
        elif r < 0.93:
            steps.append({'op': 'disk', 'sync': o})
        else:
            files = _plan_files(plan[o])
            f = rng.choice(files) if files else {'path': ['q'], 'size': 1}
            val = rng.choice([None, max(0, f['size'] - 1), f['size'] + 1, f['size'], {'dir': f['size']}, {'dir': f['size'] + 2}])
            if f['path'] or not isinstance(val, dict):
                steps.append({'op': 'disk', 'set': [[list(f['path']), val]]})
    for o in range(len(plan)):
        steps.append({'op': 'check', 'o': o, 'cb': rng.choice([None, None, []])})
        if rng.random() < 0.5:
            steps.append({'op': 'verify', 'o': o})
        if rng.random() < 0.5:
            steps.append({'op': 'filetree', 'o': o})
    return {'history': True, 'shape': shape, 'cseed': rng.randrange(1 << 30), 'init': init, 'steps': steps}


def gen_pattern(rng):
    """lookup -> edit -> (disk old | new) -> check on a random layout: the shape on which anything remembered
    across calls goes wrong, with random choices of every part"""
    h = gen_random(rng, shape='hist-pattern')
    init = h['init']
    nf = len(init['files'])
    i = rng.randrange(nf)
    lk = rng.choice([x for x in LOOKUPS if not x.startswith('failing')][1:])
    lks = lookup_steps(lk, 0, i)
    for st in lks:
        if st['op'] == 'check' and st.get('cb'):
            st['cb'] = [rng.randint(1, nf)]
    if init['single']:
        ed = {'k': 'length', 'i': 0, 'd': rng.choice([1, -1, 9])}
    else:
        ed = rng.choice([{'k': 'length', 'i': i, 'd': rng.choice([1, -1, 100])},
                         {'k': 'relist', 'deltas': [[i, rng.choice([1, -1, 100])]], 'how': rng.choice(['assign', 'slice', 'info'])},
                         {'k': 'entry', 'i': i, 'd': rng.choice([1, 2])},
                         {'k': 'swappath', 'i': i, 'j': i + 1}, {'k': 'swaplen', 'i': i, 'j': i + 1}])
    steps = [{'op': 'disk', 'sync': 0}] + lks + [{'op': 'edit', 'e': dict(ed, pieces='real')}]
    if rng.random() < 0.5:
        steps.append({'op': 'disk', 'sync': 0})
    steps += [{'op': 'check', 'cb': rng.choice([None, []])}, {'op': 'verify', 'cb': rng.random() < 0.3},
              {'op': 'psize', 'sel': ['file', i]}, {'op': 'filetree'}, {'op': 'props'}]
    h['steps'] = steps
    return h


# regression case of finding D20b (fixed in /repo 8785da6): partial_size(()) on a single-file torrent, and on a
# torrent that lost its content, must raise PathError; it runs on every invocation and must pass
WITNESS_D20B = {'history': True, 'shape': 'witness-D20b', 'cseed': 1,
                'init': {'name': 'single.bin', 'single': True, 'files': [{'path': [], 'size': 5}], 'pl': K, 'pieces': 'real'},
                'steps': [{'op': 'disk', 'sync': 0}, {'op': 'check', 'cb': None},
                          {'op': 'psize', 'sel': ['empty'], 'form': 'tuple'}, {'op': 'check', 'cb': None},
                          {'op': 'psize', 'sel': ['empty'], 'form': 'path'},
                          # an empty file list, then no file list at all (files setter with nothing)
                          {'op': 'edit', 'e': {'k': 'multi', 'files': [], 'pieces': 'stale'}},
                          {'op': 'psize', 'sel': ['empty'], 'form': 'list'},
                          {'op': 'setter', 'what': 'files', 'files': [], 'pieces': 'stale'},
                          {'op': 'psize', 'sel': ['empty'], 'form': 'tuple'}, {'op': 'psize', 'sel': ['name']},
                          # and a multi-file torrent: the empty path is the total size
                          {'op': 'edit', 'e': {'k': 'multi', 'files': [{'path': ['a'], 'size': 3}, {'path': ['d', 'b'], 'size': 4}]}},
                          {'op': 'psize', 'sel': ['empty'], 'form': 'path'}]}


def gen_histories(ctx, scale=1.0):
    rng = ctx.rng
    hs = [copy.deepcopy(WITNESS_D20B)] + gen_exhaustive(rng)
    for _ in range(int(ctx.n(800, 10000) * scale)):
        hs.append(gen_pattern(rng))
    for _ in range(int(ctx.n(1600, 16000) * scale)):
        hs.append(gen_random(rng))
    return hs
