"""
C20 — spellings of the content path (owned by property C20; used by harness/props/c20.py).

`verify_filesize(path)` must judge the tree the *operating system* resolves `path` to.  A scenario is a small
world under a scratch root B with symbolic links and up to three copies of the content:

    B/store/<N>          the "real" tree                   B/dl/current  -> ../store/incoming   (or absolute)
    B/dl/<N>             a tree at the lexical location     B/tl          -> store/<N>           (the top itself a link)
    B/<N>                another lexical location           B/store/incoming/, B/store/x/, B/dl/y/   real directories

each copy intact | damaged (a file resized or missing) | absent.  Spellings of the content path: a fixed catalogue
(plain, `a//b`, `a/./b`, trailing slashes, `dir/..` after a real directory, `link/..`, `link/../x/../<N>`, the top
through a link, `toplink/../<N>`, relative to a working directory that is a real directory or is reached through
a link, pathlib objects) + random walks through the real tree (names, `..`, `.`, empty components, links) that
are then led to one of the copies by the physical relative route.

Judgement per (spelling, callback): the Lean specification evaluated on the tree at the location the model's
path resolution (`Torf.Reuse.resolve` on an inode table scanned from the real tree with lstat/readlink/listdir)
reaches — which must equal the specification evaluated on what the harness measures through the OS with the very
same spelling (`os.stat(spelling + '/' + names)`; no torf code) —; the reported paths (callback argument, error
attributes) must *denote* the listed file under the given path (parent directory resolved by the OS + name; texts
are not compared); `verify()` on the same spelling: success implies that the size check succeeds.
"""
import errno
import os
import pathlib
import random
import shutil

from harness import common
from harness.impl import c20hist

K = 16384


class CallbackBoom(Exception):
    pass


# --------------------------------------------------------------------------------------------
# world

def _write_tree(top, cseed, files, single, state):
    """one copy of the content at `top`; state: 'intact' | 'absent' | 'asfile' | ['resize', i, d] | ['missing', i] |
    ['asdir', i, d]"""
    if state == 'absent':
        return
    if state == 'asfile':                       # a regular file where the content should be
        os.makedirs(os.path.dirname(top), exist_ok=True)
        with open(top, 'wb') as fh:
            fh.write(b'x' * 11)
        return
    for i, f in enumerate(files):
        n = f['size']
        if isinstance(state, list) and state[1] % len(files) == i:
            if state[0] == 'missing':
                if single:
                    return
                os.makedirs(top, exist_ok=True)
                continue
            if state[0] == 'resize':
                n = max(0, n + state[2])
                if n == f['size']:
                    n += 1
        p = top if single else os.path.join(top, *f['path'])
        os.makedirs(os.path.dirname(p), exist_ok=True)
        if isinstance(state, list) and state[0] == 'asdir' and state[1] % len(files) == i:
            # a directory (files totalling size + d) where the file should be
            os.makedirs(os.path.join(p, 'sub'))
            tot = max(0, f['size'] + state[2])
            with open(os.path.join(p, 'x'), 'wb') as fh:
                fh.write(b'a' * (tot // 2))
            with open(os.path.join(p, 'sub', 'y'), 'wb') as fh:
                fh.write(b'b' * (tot - tot // 2))
            continue
        data = c20hist.cbytes(cseed, f['path'], max(n, f['size']))[:n]
        with open(p, 'wb') as fh:
            fh.write(data)


def build_world(B, sc):
    shutil.rmtree(B, ignore_errors=True)
    for d in ('store/incoming/deep', 'store/x', 'dl/y'):
        os.makedirs(os.path.join(B, d))
    N = sc['name']
    os.symlink('../store/incoming' if sc.get('rel_links', True) else os.path.join(B, 'store', 'incoming'),
               os.path.join(B, 'dl', 'current'))
    os.symlink(os.path.join('store', N), os.path.join(B, 'tl'))
    os.symlink('../../dl', os.path.join(B, 'store', 'x', 'back'))        # a link that leads to the lexical side
    for where, key in (('store', 'real'), ('dl', 'lex'), ('', 'lex2')):
        _write_tree(os.path.join(B, where, N) if where else os.path.join(B, N), sc['cseed'], sc['files'], sc['single'],
                    sc.get(key, 'absent'))


def scan(B):
    """inode table (0 = '/', spine of real directories down to B, everything below B) read with lstat / readlink /
    listdir — nothing is resolved here; and the total size below every directory (os.walk, links followed)"""
    nodes, totals = [], []

    def add(p):
        i = len(nodes)
        nodes.append(None)
        if os.path.islink(p):
            nodes[i] = {'k': 'l', 't': os.readlink(p)}
        elif os.path.isdir(p):
            nodes[i] = {'k': 'd', 'e': [[n, add(p + '/' + n)] for n in sorted(os.listdir(p))]}
            tot = 0
            for d, _, fns in os.walk(p, followlinks=True):
                for fn in fns:
                    try:
                        tot += os.stat(os.path.join(d, fn)).st_size
                    except OSError:
                        pass
            totals.append([i, tot])
        else:
            nodes[i] = {'k': 'f', 'size': os.lstat(p).st_size}
        return i
    real = os.path.realpath(B)
    spine = [c for c in real.split('/') if c]
    for c in spine:
        nodes.append({'k': 'd', 'e': [[c, len(nodes) + 1]]})
    assert add(real) == len(spine)
    return nodes, totals


def measure(text, names):
    """what the OS finds at the spelling joined (textually) with the names"""
    p = text + ''.join('/' + c for c in names) if names else text
    try:
        st = os.stat(p)
    except OSError:
        return {'kind': 'missing'}
    import stat as _s
    if _s.S_ISDIR(st.st_mode):
        n = 0
        for d, _, fns in os.walk(p, followlinks=True):
            for fn in fns:
                n += os.stat(os.path.join(d, fn)).st_size
        return {'kind': 'dir', 'n': n}
    return {'kind': 'file', 'n': st.st_size}


def denotes(reported, given, names):
    """does the reported path denote the listed file under the given path?  The same file for the OS if there is
    one; otherwise the same place after the OS has resolved as much of both paths as exists (realpath: links are
    followed, `..` is taken physically; what does not exist stays as text)."""
    want = given + ''.join('/' + c for c in names) if names else given
    rep = str(reported)
    try:
        if os.path.exists(want) and os.path.exists(rep):
            return os.path.samefile(want, rep)
    except OSError:
        pass
    return os.path.realpath(want) == os.path.realpath(rep)


class PathIndex:
    """which listed file does a reported file-system path denote under the given content path?  Text first (fast),
    then by what the OS makes of it (`denotes`) — so a change that reports other spellings of the same files
    (realpath, …) is not taken for a deviation, and one that reports paths of other files is."""

    def __init__(self, given, name, listed):
        self.given = str(given)
        base = self.given.rstrip(os.sep) or self.given
        self.listed = listed
        self.name = name
        self.text = {}
        for i, f in enumerate(listed):
            self.text[str(pathlib.Path(base, *f['path']))] = i
        self.tp = [str(pathlib.Path(name, *f['path'])) if isinstance(name, str) else None for f in listed]

    def get(self, reported, default=-1):
        r = str(reported)
        if r in self.text:
            return self.text[r]
        for i, f in enumerate(self.listed):
            if denotes(r, self.given, f['path']):
                return i
        return default

    def below(self, reported):
        """a path *below* the place of a listed file (an unreadable entry in a directory that stands there)"""
        r = str(reported)
        for fp, i in self.text.items():
            if r.startswith(fp + os.sep):
                return i
        rr = os.path.realpath(r)
        for i, f in enumerate(self.listed):
            if rr.startswith(os.path.realpath(self.given + ''.join('/' + c for c in f['path'])) + os.sep):
                return i
        return -1

    def pair(self, fs, tp):
        i = self.get(fs)
        return i if i >= 0 and str(tp) == self.tp[i] else -1


# --------------------------------------------------------------------------------------------
# spellings

CATALOGUE = [
    # (label, cwd or None, text); {B} scratch root, {N} content name
    ('plain', None, '{B}/store/{N}'),
    ('double-slash', None, '{B}/store//{N}'),
    ('dot', None, '{B}/store/./{N}'),
    ('trailing-slash', None, '{B}/store/{N}/'),
    ('trailing-slashes', None, '{B}/store/{N}//'),
    ('dots-everywhere', None, '{B}/./store/.//{N}/.'),
    ('dotdot-after-real-dir', None, '{B}/store/x/../{N}'),
    ('dotdot-after-real-dirs', None, '{B}/store/incoming/deep/../../{N}'),
    ('link/..', None, '{B}/dl/current/../{N}'),
    ('link/../x/..', None, '{B}/dl/current/../x/../{N}'),
    ('link/..//N/', None, '{B}/dl/current/..//{N}/'),
    ('./link/../N/.', None, '{B}/dl/./current/../{N}/.'),
    ('link/deep/../..', None, '{B}/dl/current/deep/../../{N}'),
    ('top-is-link', None, '{B}/tl'),
    ('top-is-link/', None, '{B}/tl/'),
    ('top-is-link/.', None, '{B}/tl/.'),
    ('toplink/../N', None, '{B}/tl/../{N}'),
    ('link-to-lexical-side', None, '{B}/store/x/back/{N}'),
    ('link-to-lexical-side/..', None, '{B}/store/x/back/../store/{N}'),
    ('lexical-tree-itself', None, '{B}/dl/{N}'),
    ('lexical-tree-2-itself', None, '{B}/{N}'),
    ('nonexistent', None, '{B}/store/nope/../{N}'),
    ('rel plain', '{B}/store', '{N}'),
    ('rel ./', '{B}/store', './{N}'),
    ('rel link/..', '{B}/dl', 'current/../{N}'),
    ('rel ../ from cwd through link', '{B}/dl/current', '../{N}'),
    ('rel x/../../ from cwd through link', '{B}/dl/current', 'deep/../../{N}'),
    ('rel dot in content dir', '{B}/store/{N}', '.'),
    ('rel ./ in content dir via toplink', '{B}/tl', './'),
    ('rel .. from deep', '{B}/store/incoming/deep', '../../{N}'),
]


def random_spellings(rng, B, N, n):
    """random walks through the real tree (the OS resolves as we go), then the physical relative route to one of the
    places where a copy of the content may lie"""
    out = []
    rB = os.path.realpath(B)
    targets = [os.path.join(rB, 'store', N), os.path.join(rB, 'store', N), os.path.join(rB, 'dl', N), os.path.join(rB, N)]
    for _ in range(n):
        relative = rng.random() < 0.35
        start = rng.choice(['', 'store', 'dl', 'dl/current', 'store/incoming/deep', 'store/x/back'])
        base = os.path.join(B, start) if start else B
        parts = []
        for _step in range(rng.choice([0, 1, 2, 2, 3, 4, 6])):
            here = base + ''.join('/' + c for c in parts)
            if not os.path.isdir(here):
                break
            names = sorted(os.listdir(here))
            dirs = [x for x in names if os.path.isdir(os.path.join(here, x))]
            r = rng.random()
            if r < 0.5 and dirs:
                parts.append(rng.choice(dirs))
            elif r < 0.75:
                if os.path.realpath(here) != rB:
                    parts.append('..')
            elif r < 0.87:
                parts.append('.')
            else:
                parts.append('')
        here = base + ''.join('/' + c for c in parts)
        if os.path.isdir(here):
            route = os.path.relpath(rng.choice(targets), os.path.realpath(here))
            parts += [c for c in route.split('/') if c != '.']
        if rng.random() < 0.15:
            parts.append(rng.choice(['', '.']))
        if relative:
            while parts and parts[0] == '':
                parts = parts[1:]
            out.append(('random-rel', base, '/'.join(parts) if parts else '.'))
        else:
            out.append(('random-abs', None, base + ''.join('/' + c for c in parts)))
    return out


# --------------------------------------------------------------------------------------------
# real-code side

def _exc_obs(e):
    n = type(e).__name__
    if n == 'ReadError':
        return ['read'], e.path, e.errno
    if n == 'VerifyFileSizeError':
        return ['verifyFileSize', e.actual_size, e.expected_size], e.filepath, None
    if n == 'VerifyIsDirectoryError':
        return ['verifyIsDir'], e.path, None
    if n == 'MetainfoError':
        return ['metainfo'], None, None
    if n == 'PathError':
        return ['path'], None, None
    return ['internal:' + n], None, None


def _which(rep_path, text, listed):
    """index of the listed file the reported path denotes under the given path (-1: none)"""
    if rep_path is None:
        return None
    for i, f in enumerate(listed):
        if denotes(rep_path, text, f['path']):
            return i
    return -1


def run_scenario(torf, wd, sc):
    B = os.path.join(wd, 'sp')
    build_world(B, sc)
    N = sc['name']
    nodes, totals = scan(B)
    t = torf.Torrent()
    info = t.metainfo['info']
    info['name'] = sc.get('tname', N)
    if sc['single']:
        info['length'] = sc['files'][0]['size']
    else:
        info['files'] = [{'length': f['size'], 'path': list(f['path'])} for f in sc['files']]
    info['piece length'] = sc['pl']
    c20hist.fix_pieces(info, 'real', sc['cseed'])
    s = c20hist.snap(info)
    listed = c20hist.snap_listed(s)
    meta = c20hist.lean_meta(s)
    spells = [(lab, cwd, txt) for (lab, cwd, txt) in CATALOGUE]
    spells += random_spellings(random.Random(sc['rseed']), B, N, sc.get('nrandom', 0))
    out = []
    home = os.getcwd()
    for lab, cwd, txt in spells:
        cwd_abs = cwd.replace('{B}', B).replace('{N}', N) if cwd else B
        text = txt.replace('{B}', B).replace('{N}', N)
        if not os.path.isdir(cwd_abs):
            continue
        try:
            os.chdir(cwd_abs)
            for form in (('str', 'pathlib') if lab in sc.get('pathlib_for', ()) or sc.get('all_pathlib') else ('str',)):
                arg = pathlib.Path(text) if form == 'pathlib' else text
                # pathlib drops '.', '//' and trailing slashes itself: what torf is given is str(arg)
                given = str(arg)
                measured = [dict(measure(given, f['path']), path=f['path']) for f in listed]
                runs = []
                for cb in sc['cbs']:
                    calls = []

                    def callback(tt, fs, tp, done, total, exc, _cb=cb):
                        eo = _exc_obs(exc) if exc is not None else (None, None, None)
                        idx = _which(fs, given, listed)
                        okargs = (tt is t and isinstance(done, int) and isinstance(total, int)
                                  and (exc is None or isinstance(exc, torf.TorfError))
                                  and (eo[1] is None or _which(eo[1], given, listed) == idx)
                                  and 0 <= idx < len(listed)
                                  and str(tp) == str(pathlib.Path(s['name'], *listed[idx]['path'])))
                        calls.append([idx if okargs else -2, done, total, eo[0]])
                        if done in _cb:
                            return (False, 0, '', 'stop', True)[(done + total) % 5]
                        return None
                    which = None
                    try:
                        r = t.verify_filesize(arg, callback=None if cb is None else callback)
                        res = {'ok': r} if isinstance(r, bool) else {'ok': repr(r)}
                    except BaseException as e:  # noqa
                        eo = _exc_obs(e)
                        res = {'raised': eo[0]}
                        which = _which(eo[1], given, listed)
                        if eo[0] == ['read'] and eo[2] != errno.ENOENT:
                            res['errno'] = eo[2]
                    runs.append({'cb': cb, 'impl': {'res': res, 'calls': calls}, 'which': which})
                try:
                    v = t.verify(arg, threads=1)
                    v = v if isinstance(v, bool) else repr(v)
                except BaseException as e:  # noqa
                    v = 'raised:' + type(e).__name__
                out.append({'label': lab, 'cwd': os.path.realpath(cwd_abs), 'text': given, 'form': form, 'runs': runs,
                            'verify': v, 'measured': measured})
        finally:
            os.chdir(home)
    return {'nodes': nodes, 'totals': totals, 'meta': meta, 'spells': out}


def run_chunk(scs):
    torf = common.import_torf()
    wd = common.worker_dir()
    res = []
    for sc in scs:
        try:
            res.append((sc, run_scenario(torf, wd, sc)))
        except BaseException:  # noqa
            import traceback
            res.append((sc, {'harness_exc': traceback.format_exc()[-1500:]}))
    return res


# --------------------------------------------------------------------------------------------
# scenarios

STATES = ['intact', 'absent', ['resize', 0, -1], ['resize', 1, 1], ['missing', 1], ['asdir', 0, 0], ['asdir', 0, 3], 'asfile']


def gen_scenarios(ctx, scale=1.0):
    rng = ctx.rng
    out = []
    layouts_ = [
        (False, [{'path': ['a'], 'size': 5}, {'path': ['d', 'b'], 'size': 7}]),
        (False, [{'path': ['a'], 'size': 5}, {'path': ['d', 'b'], 'size': 0}, {'path': ['d', 'c'], 'size': K + 1}]),
        (True, [{'path': [], 'size': 9}]),
    ]
    # exhaustive: every state of the real tree x every state of the tree at the lexical location x catalogue
    for single, files in layouts_:
        for real in STATES:
            for lex in STATES:
                if isinstance(real, list) and isinstance(lex, list) and real != lex and rng.random() < 0.5 and not ctx.thorough:
                    continue
                n = len(files)
                out.append({'spelling': True, 'shape': 'spelling-exhaustive', 'name': 'Album', 'single': single,
                            'files': files, 'pl': K, 'cseed': rng.randrange(1 << 30), 'rseed': rng.randrange(1 << 30),
                            'real': real, 'lex': lex, 'lex2': rng.choice(['absent', 'absent', 'intact', ['resize', 0, 2]]),
                            'rel_links': rng.random() < 0.7, 'nrandom': 4,
                            'cbs': [None, []] + [[k] for k in range(1, n + 1)],
                            'pathlib_for': ['link/..', 'link/../x/..', 'rel link/..', 'top-is-link/', 'toplink/../N']})
    # random layouts / names / states, more random spellings
    for _ in range(int(ctx.n(40, 600) * scale)):
        single = rng.random() < 0.2
        n = 1 if single else rng.choice([1, 2, 3, 4])
        from harness.gen import layouts
        paths = [[]] if single else (layouts.tricky_paths(n, rng) if rng.random() < 0.3 else layouts.paths_for(n, rng, nested=True))
        files = [{'path': p, 'size': rng.choice([0, 1, 5, 33, K, K + 1, rng.randint(1, 2 * K)])} for p in paths]
        if single and files[0]['size'] == 0:
            files[0]['size'] = 4

        def st():
            r = rng.random()
            if r < 0.4:
                return 'intact'
            if r < 0.6:
                return 'absent'
            return rng.choice([['resize', rng.randrange(n), rng.choice([1, -1, 100])], ['missing', rng.randrange(n)],
                               ['resize', rng.randrange(n), rng.choice([1, -1])], ['asdir', rng.randrange(n), rng.choice([0, 0, 2])], 'asfile'])
        out.append({'spelling': True, 'shape': 'spelling-random', 'name': rng.choice(['Album', 'My Torrent', 'x.y', 'N']),
                    'tname': rng.choice([None, None, 'Other name']) or None, 'single': single, 'files': files, 'pl': K,
                    'cseed': rng.randrange(1 << 30), 'rseed': rng.randrange(1 << 30), 'real': st(), 'lex': st(), 'lex2': st(),
                    'rel_links': rng.random() < 0.6, 'nrandom': 12, 'cbs': [None, [], [rng.randint(1, n)]],
                    'all_pathlib': rng.random() < 0.25})
        if out[-1]['tname'] is None:
            del out[-1]['tname']
    return out
