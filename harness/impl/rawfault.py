"""
A failing *raw* file under a real `io.BufferedReader` (shared helper owned by C01; used by
harness/props/c01.py and, through the optional case key `raw_fault`, by harness/sched/runner.py).

`open_factory(plan)` returns a replacement for the `open` that `torf._stream` uses: files opened
with mode 'rb' are `TracedBuffered(FaultyRaw(path))`, i.e. exactly the object stack the builtin
`open(path, 'rb')` builds (BufferedReader over FileIO, default buffer size), only the raw layer
follows a fault plan.  So buffering behaves as in production: one `fh.read(size)` is made of several
raw `readinto` calls; when one of them raises, BufferedReader drops what the earlier ones of the
same `read()` delivered while the raw position has moved on — the bytes are *consumed and lost*.

plan (dict, mutated while it runs):
  max_read   int | [int, …]    a raw readinto returns at most that many bytes (cycled if a list): short reads
  faults     [{'at': n, 'err': name, 'times': m}, …]
             the raw read calls n … n+m-1 (counted from 1 over all content files) raise instead of reading;
             err = an errno name ('EIO', 'EINTR', 'EAGAIN', 'ESTALE', 'ETIMEDOUT', 'ENOMEM', 'EBADF' → OSError) or
             'MemoryError' (what BufferedReader raises when it cannot allocate the view for a raw read);
             times = 0 means for ever
  seek_faults [{'at': n, 'err': name}]   the n-th raw seek raises
bookkeeping written by the layer:
  calls, seeks            raw read / seek calls so far
  fired                   [[raw call index, err, file name], …]
  reads                   one record per `fh.read(size)` call on a content file, in call order:
                          ['ok', size, returned] | ['fail', size, lost, 'os'|'mem', err]   (lost = bytes consumed
                          by this read() before it raised = logical position after − before)
"""
import builtins
import errno as _errno
import io
import os


def _exc(name):
    if name == 'MemoryError':
        return MemoryError('injected: cannot allocate a view for the raw read')
    code = getattr(_errno, name)
    return OSError(code, os.strerror(code))


class FaultyRaw(io.FileIO):
    def __init__(self, path, plan):
        super().__init__(path, 'rb')
        self._plan = plan

    def readinto(self, b):
        plan = self._plan
        plan['calls'] = n = plan.get('calls', 0) + 1
        for f in plan.get('faults') or ():
            if f['at'] <= n and (not f.get('times') or n < f['at'] + f['times']):
                plan.setdefault('fired', []).append([n, f['err'], os.path.basename(self.name)])
                raise _exc(f['err'])
        cap = plan.get('max_read') or 8192
        if isinstance(cap, (list, tuple)):
            cap = cap[(n - 1) % len(cap)]
        return super().readinto(memoryview(b)[:max(1, cap)])

    def seek(self, *a):
        plan = self._plan
        plan['seeks'] = n = plan.get('seeks', 0) + 1
        for f in plan.get('seek_faults') or ():
            if f['at'] == n:
                plan.setdefault('fired', []).append([-n, f['err'], os.path.basename(self.name)])
                raise _exc(f['err'])
        return super().seek(*a)


class TracedBuffered(io.BufferedReader):
    """BufferedReader that records what each read(size) call did (no change of behaviour)"""

    def __init__(self, raw, plan):
        super().__init__(raw)
        self._plan = plan

    def read(self, size=-1):
        before = self.tell()
        try:
            data = super().read(size)
        except BaseException as e:   # noqa
            try:
                lost = self.tell() - before
            except Exception:   # noqa
                lost = -1
            kind = 'mem' if isinstance(e, MemoryError) else 'os'
            name = 'MemoryError' if kind == 'mem' else _errno.errorcode.get(getattr(e, 'errno', None), type(e).__name__)
            self._plan.setdefault('reads', []).append(['fail', size, lost, kind, name])
            raise
        self._plan.setdefault('reads', []).append(['ok', size, len(data)])
        return data


def open_factory(plan, only_under=None):
    """replacement for `open` inside torf._stream; `only_under`: wrap only files below that directory / that file"""
    def _open(path, mode='r', *a, **k):
        if mode == 'rb' and (only_under is None or os.path.realpath(os.fspath(path)).startswith(os.path.realpath(only_under))):
            return TracedBuffered(FaultyRaw(os.fspath(path), plan), plan)
        return builtins.open(path, mode, *a, **k)
    return _open


def model_plan(plan):
    """the read-level events as the Lean model's plan: ['ok'] | ['fail', lost, 'os'|'mem']"""
    out = []
    for r in plan.get('reads') or ():
        if r[0] == 'ok':
            out.append(['ok'])
        else:
            out.append(['fail', max(0, r[2]), r[3]])
    return out
