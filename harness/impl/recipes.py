"""
Recipes: JSON-able descriptions of Python metainfo values (owned by C07/C17).

A recipe is the tagged PyVal encoding of harness/impl/pyval.py with two changes that make it
self-contained and re-buildable (every export is run on a freshly built object):
  * floats carry their exact value:   {"t":"f","hex": float.hex() | "nan" | "inf" | "-inf"}
  * datetimes carry their fields:     {"t":"D","v":[y,m,d,H,M,S],"tz": minutes | null}
  * {"t":"o","tag":"object"|"complex"} builds an object of a type torf has no rule for
plus values *outside* the PyVal domain (probed on the implementation only):
  {"t":"x","k":"set"|"frozenset"|"gen"|"bytearray"|"range"|"odict"|"surrogate"|"cyclic-list"|
               "cyclic-dict"|"deep", "v": …}
"""
import collections
import datetime

from harness.impl import pyval


def N():
    return {'t': 'n'}


def B(v):
    return {'t': 'B', 'v': bool(v)}


def I(v):
    return {'t': 'i', 'v': pyval._int_str(int(v))}


def F(v):
    v = float(v)
    if v != v:
        return {'t': 'f', 'hex': 'nan'}
    if v in (float('inf'), float('-inf')):
        return {'t': 'f', 'hex': 'inf' if v > 0 else '-inf'}
    return {'t': 'f', 'hex': v.hex()}


def S(v):
    return {'t': 's', 'v': v}


def Y(v):
    return {'t': 'b', 'v': bytes(v).hex()}


def L(vs):
    return {'t': 'l', 'v': list(vs)}


def U(vs):
    return {'t': 'u', 'v': list(vs)}


def D(kvs):
    """kvs: list of (key recipe or str, value recipe)"""
    return {'t': 'd', 'v': [[S(k) if isinstance(k, str) else k, v] for k, v in kvs]}


def DT(y, m, d, H=0, M=0, Sec=0, tz=None):
    return {'t': 'D', 'v': [y, m, d, H, M, Sec], 'tz': tz}


def O(tag='object'):
    return {'t': 'o', 'tag': tag}


def X(kind, v=None):
    return {'t': 'x', 'k': kind, 'v': v}


class Opaque:
    """an object of a type torf has no rule for"""
    def __repr__(self):
        return '<Opaque>'


def build(r):
    """recipe -> fresh Python object"""
    t = r['t']
    if t == 'n':
        return None
    if t == 'B':
        return r['v']
    if t == 'i':
        return pyval._str_int(r['v'])
    if t == 'f':
        h = r['hex']
        return float(h) if h in ('nan', 'inf', '-inf') else float.fromhex(h)
    if t == 's':
        return r['v']
    if t == 'b':
        return bytes.fromhex(r['v'])
    if t == 'l':
        return [build(x) for x in r['v']]
    if t == 'u':
        return tuple(build(x) for x in r['v'])
    if t == 'd':
        return {_hashable(build(k)): build(v) for k, v in r['v']}
    if t == 'D':
        tz = None if r.get('tz') is None else datetime.timezone(datetime.timedelta(minutes=r['tz']))
        return datetime.datetime(*r['v'], tzinfo=tz)
    if t == 'o':
        return complex(1, 2) if r['tag'] == 'complex' else Opaque()
    if t == 'x':
        k, v = r['k'], r.get('v')
        if k == 'set':
            return set(_hashable(build(x)) for x in v)
        if k == 'frozenset':
            return frozenset(_hashable(build(x)) for x in v)
        if k == 'gen':
            items = [build(x) for x in v]
            return (x for x in items)
        if k == 'bytearray':
            return bytearray(bytes.fromhex(v))
        if k == 'range':
            return range(v)
        if k == 'odict':
            return collections.OrderedDict((_hashable(build(a)), build(b)) for a, b in v)
        if k == 'surrogate':
            return v.encode('ascii').decode('unicode_escape')
        if k == 'cyclic-list':
            x = []
            x.append(x)
            return x
        if k == 'cyclic-dict':
            x = {}
            x['d'] = x
            return x
        if k == 'deep':
            x = []
            for _ in range(v):
                x = [x]
            return x
    raise ValueError(f'bad recipe {r!r}')


def _hashable(k):
    try:
        hash(k)
        return k
    except TypeError:
        return repr(k)


def in_domain(r):
    """does the recipe denote a PyVal (no 'x' nodes, dict keys hashable and distinct)?"""
    t = r['t']
    if t == 'x':
        return False
    if t in ('l', 'u'):
        return all(in_domain(x) for x in r['v'])
    if t == 'd':
        for k, v in r['v']:
            if k['t'] in ('l', 'd') or not in_domain(k) or not in_domain(v):
                return False
        return True
    return True


def to_driver(r):
    """recipe (in domain) -> tagged PyVal JSON of harness/impl/pyval.py.  Dicts are rebuilt so
    that Python's key equality (1 == True == 1.0, later value wins, first key object stays) is
    applied exactly as the implementation sees it."""
    return pyval.to_json(build(r))


def from_py(v):
    """Python object made of plain types -> recipe (used to snapshot metainfo after setters)"""
    if v is None:
        return N()
    if isinstance(v, bool):
        return B(v)
    if isinstance(v, int):
        return I(v)
    if isinstance(v, float):
        return F(v)
    if isinstance(v, str):
        return S(str(v))
    if type(v) is bytes:
        return Y(v)
    if isinstance(v, list):
        return L(from_py(x) for x in v)
    if type(v) is tuple:
        return U(from_py(x) for x in v)
    if isinstance(v, dict):
        return {'t': 'd', 'v': [[from_py(k), from_py(x)] for k, x in v.items()]}
    if isinstance(v, datetime.datetime):
        tz = None
        if v.tzinfo is not None:
            tz = int(v.utcoffset().total_seconds() // 60)
        return DT(v.year, v.month, v.day, v.hour, v.minute, v.second, tz)
    if isinstance(v, Opaque):
        return O('object')
    if isinstance(v, complex):
        return O('complex')
    raise ValueError(f'cannot snapshot {type(v).__name__}')


def str_leaves(r, out=None):
    """all `str` values (keys included) of a recipe"""
    if out is None:
        out = set()
    t = r['t']
    if t == 's':
        out.add(r['v'])
    elif t in ('l', 'u'):
        for x in r['v']:
            str_leaves(x, out)
    elif t == 'd':
        for k, v in r['v']:
            str_leaves(k, out)
            str_leaves(v, out)
    elif t == 'x' and isinstance(r.get('v'), list):
        for x in r['v']:
            if isinstance(x, dict):
                str_leaves(x, out)
            elif isinstance(x, list):
                for y in x:
                    str_leaves(y, out)
    return out


def walk(r, path=()):
    """yield (path, node) for every node; path items: ('v', i) list item, ('k', i) dict key,
    ('d', i) dict value"""
    yield path, r
    t = r['t']
    if t in ('l', 'u'):
        for i, x in enumerate(r['v']):
            yield from walk(x, path + (('v', i),))
    elif t == 'd':
        for i, (k, v) in enumerate(r['v']):
            yield from walk(v, path + (('d', i),))


def get(r, path):
    for kind, i in path:
        r = r['v'][i] if kind == 'v' else r['v'][i][1]
    return r


def replace(r, path, new):
    """functional update: returns a recipe with the node at `path` replaced"""
    if not path:
        return new
    (kind, i), rest = path[0], path[1:]
    r = dict(r)
    vs = list(r['v'])
    if kind == 'v':
        vs[i] = replace(vs[i], rest, new)
    else:
        vs[i] = [vs[i][0], replace(vs[i][1], rest, new)]
    r['v'] = vs
    return r


def dget(r, key):
    """value of str key in a dict recipe, else None"""
    if r['t'] != 'd':
        return None
    for k, v in r['v']:
        if k['t'] == 's' and k['v'] == key:
            return v
    return None


def dset(r, key, val):
    r = dict(r)
    vs = [kv for kv in r['v'] if not (kv[0]['t'] == 's' and kv[0]['v'] == key)]
    if val is not None:
        vs.append([S(key), val])
    r['v'] = vs
    return r
