"""
Helpers shared by the C13 / C14 checks (owned by the C13/C14 builder): code-point transport of
strings, canonical observables of Magnet objects, hash-string generators, a loopback HTTP server
that serves torrents and records the requests it sees.
"""
import base64
import glob
import http.server
import json
import os
import threading

FOLD = {'İ': 'i', 'ı': 'i', 'ſ': 's', 'K': 'k'}
HEX = '0123456789abcdef'
B32 = 'abcdefghijklmnopqrstuvwxyz234567'


def cps(s):
    return [ord(c) for c in s]


def ocps(s):
    return None if s is None else cps(s)


def uncps(a):
    return None if a is None else ''.join(map(chr, a))


def has_surrogate(s):
    return any(0xD800 <= ord(c) <= 0xDFFF for c in s)


def errkind(e):
    """error *kind* of an exception raised by torf (never the message)"""
    n = type(e).__name__
    return {'MagnetError': 'magnet', 'URLError': 'url', 'MetainfoError': 'metainfo'}.get(n, 'other:' + n)


def randcase(rng, s):
    return ''.join(c.upper() if rng.random() < 0.5 else c.lower() for c in s)


def rand_hex40(rng):
    return ''.join(rng.choice(HEX) for _ in range(40))


def rand_b32(rng):
    return ''.join(rng.choice(B32) for _ in range(32))


def notations(h16):
    """the four notations of one 20-byte hash"""
    b32 = base64.b32encode(bytes.fromhex(h16)).decode()
    return {'hex-lower': h16.lower(), 'hex-upper': h16.upper(), 'b32-upper': b32, 'b32-lower': b32.lower()}


JUNK = ['z', 'g', '\n', ' ', '\t', '\r\n', '=', '0', 'a', '2', 'zzz', '\x00', 'é', '１', '١',
        'ａ', 'İ', 'ı', 'ſ', 'K', ':', 'urn:btih:', '\U0001F600', '\x85', ' ']
PREFIXES = ['urn:btih:', 'URN:BTIH:', 'Urn:Btih:', 'urn:btih', 'urn:btih::', 'urn:', 'btih:', 'urn:btih: ',
            ' urn:btih:', 'urn:btİh:', 'urn:btıh:', 'urn:sha1:', 'magnet:?xt=urn:btih:', 'urn:btih:urn:btih:']


def hash_strings(rng, n):
    """structured stream of hash / topic candidates: (label, string)"""
    out = []
    for _ in range(n):
        kind = rng.choice(['hex', 'b32'])
        base = rand_hex40(rng) if kind == 'hex' else rand_b32(rng)
        base = rng.choice([base, base.upper(), base.lower(), randcase(rng, base)])
        r = rng.random()
        if r < 0.16:
            out.append((kind + '/valid', base))
        elif r < 0.28:
            out.append((kind + '/valid+suffix', base + rng.choice(JUNK)))
        elif r < 0.38:
            out.append((kind + '/prefix+valid', rng.choice(JUNK) + base))
        elif r < 0.50:
            out.append((kind + '/urn+valid', rng.choice(PREFIXES) + base))
        elif r < 0.56:
            out.append((kind + '/urn+valid+suffix', rng.choice(PREFIXES[:3]) + base + rng.choice(JUNK)))
        elif r < 0.64:
            k = rng.choice([1, 1, 2, 8])
            out.append((kind + '/short', base[:-k]))
        elif r < 0.72:
            out.append((kind + '/long', base + ''.join(rng.choice(base) for _ in range(rng.choice([1, 1, 2, 8])))))
        elif r < 0.84:
            # one character replaced: other alphabet, fold characters, non-ASCII digits, punctuation
            i = rng.randrange(len(base))
            c = rng.choice(['0', '1', '8', '9', 'g', 'z', 'G', 'Z', '2', '7', 'İ', 'ı', 'ſ', 'K',
                            '１', '١', 'ａ', 'é', ' ', '\n', '-', '=', '\x00'])
            out.append((kind + '/subst', base[:i] + c + base[i + 1:]))
        elif r < 0.90:
            # the other alphabet at this length
            if kind == 'hex':
                out.append(('mixed/b32-at-40', ''.join(rng.choice(B32) for _ in range(40))))
            else:
                out.append(('mixed/hex-at-32', ''.join(rng.choice(HEX) for _ in range(32))))
        elif r < 0.94:
            f = rng.choice(list(FOLD))
            out.append(('fold/all', (rng.choice(['', 'urn:btih:']) + ''.join(
                rng.choice([f, FOLD[f], rng.choice(B32)]) for _ in range(32)))))
        elif r < 0.97:
            out.append(('whitespace', rng.choice([' ', '\n', '\t']) + base + rng.choice(['', ' ', '\n'])))
        else:
            out.append(('junk', ''.join(chr(rng.choice([rng.randrange(32, 127), rng.randrange(0x80, 0x3000)]))
                                        for _ in range(rng.choice([0, 1, 31, 32, 33, 39, 40, 41])))))
    return out


def fixed_hash_strings():
    h = 'ab' * 20
    b = 'vov2xk5l' * 4
    out = []
    for base, kind in ((h, 'hex'), (h.upper(), 'hex'), (b, 'b32'), (b.upper(), 'b32'), ('a' * 32, 'b32'),
                       ('2' * 32, 'b32'), ('2' * 40, 'hex'), ('A' * 40, 'hex')):
        out.append((kind + '/valid', base))
        for j in JUNK:
            out.append((kind + '/valid+suffix', base + j))
            out.append((kind + '/prefix+valid', j + base))
        for p in PREFIXES:
            out.append((kind + '/urn+valid', p + base))
            out.append((kind + '/urn+valid+suffix', p + base + '\n'))
        out.append((kind + '/short', base[:-1]))
        out.append((kind + '/long', base + base[0]))
        out.append((kind + '/long', base + base))
    for f in FOLD:
        out.append(('fold/all', f * 32))
        out.append(('fold/all', f * 40))
        out.append(('fold/all', 'urn:btih:' + f * 32))
        out.append(('fold/subst', 'a' * 31 + f))
        out.append(('fold/subst', f + 'a' * 39))
    out += [('junk', ''), ('junk', 'urn:btih:'), ('junk', 'None'), ('mixed/b32-at-40', 'z' * 40),
            ('mixed/hex-at-32', '0' * 32), ('mixed/hex-at-32', '9' * 32), ('hex/valid|b32', h + '|' + b),
            ('hex/valid\\nb32', h + '\n' + b), ('b32/valid\\nhex', b + '\n' + h), ('junk', '\n' + h)]
    return out


class TorrentServer:
    """Loopback HTTP server. `routes` maps a path prefix to (status, body); every request path
    is recorded in `.seen`.  `hook(index, path)`, if set, runs in the handler thread after the request
    was recorded and before the response is sent (the client is waiting for the answer meanwhile)."""

    def __init__(self):
        self.routes = {}
        self.seen = []
        self.hook = None
        outer = self

        class H(http.server.BaseHTTPRequestHandler):
            def do_GET(self):
                outer.seen.append(self.path)
                hook = outer.hook
                if hook is not None:
                    hook(len(outer.seen) - 1, self.path)
                for prefix, (status, body) in outer.routes.items():
                    if self.path.startswith(prefix):
                        self.send_response(status)
                        self.send_header('Content-Length', str(len(body)))
                        self.end_headers()
                        self.wfile.write(body)
                        return
                self.send_response(404)
                self.send_header('Content-Length', '0')
                self.end_headers()

            def log_message(self, *a):
                pass

        self.srv = http.server.ThreadingHTTPServer(('127.0.0.1', 0), H)
        self.port = self.srv.server_address[1]
        self.thread = threading.Thread(target=self.srv.serve_forever, daemon=True)
        self.thread.start()

    def close(self):
        self.srv.shutdown()
        self.srv.server_close()


def corpus_cases(prop):
    """cases of corpus/<prop>/*.json (minimised past failures and witnesses); they run first"""
    from harness import common
    out = []
    for f in sorted(glob.glob(os.path.join(common.CORPUS_DIR, prop, '*.json'))):
        out.append(json.load(open(f))['case'])
    return out
