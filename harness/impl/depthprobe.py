"""Depth probes for C05 (owned by C05): run torf's reader and writer at a fixed, stated number of
remaining Python frames and measure how many frames they need.

Why a fixed budget: `RecursionError` depends on the caller's stack depth.  Every probe therefore
runs in a *fresh thread* (whose stack holds only the interpreter's thread bootstrap) with
`sys.setrecursionlimit(LIMIT)` and is padded with a chain of trivial calls so that the function
that calls torf sits at frame `LIMIT - B`: every torf API call made directly from that function has
exactly `B` frames left, whatever the harness's own call depth or the Python version's bootstrap.
`B` is re-measured inside (`frames_here`) and returned.

Frames needed by a call = maximum Python call depth reached below the caller, measured with
`sys.setprofile` (Python-level 'call'/'return' events, generators included, C functions not: the
same things CPython 3.12 counts against the recursion limit) in a thread whose limit is raised far
above anything the probes need.  Both measurements are taken on warm `abc` caches.
"""
import hashlib
import os
import random
import sys
import threading

from harness.gen import metainfo_wide as wide

LIMIT = 1000          # CPython's default recursion limit; set explicitly in the worker
BIG_LIMIT = 30000
BIG_STACK = 512 * 1024 * 1024


def frames_here():
    """number of frames on this thread's stack, the caller's included"""
    n = 0
    f = sys._getframe(1)
    while f is not None:
        n += 1
        f = f.f_back
    return n


def _pad(k, fn):
    if k <= 0:
        return fn()
    return _pad(k - 1, fn)


def at_budget(B, fn):
    """run `fn()` in a fresh thread such that a call made directly from `fn` has exactly `B` frames left"""
    out = {}

    def run():
        n0 = frames_here()                      # frames up to and including `run`
        k = LIMIT - B - n0 - 2                  # run, (k+1) x _pad, fn  ->  fn is frame n0 + k + 2 = LIMIT - B
        if k < 0:
            out['e'] = RuntimeError('budget %d too large for limit %d' % (B, LIMIT))
            return
        try:
            out['r'] = _pad(k, fn)
        except BaseException as e:  # noqa
            out['e'] = e

    old = sys.getrecursionlimit()
    sys.setrecursionlimit(LIMIT)
    try:
        th = threading.Thread(target=run)
        th.start()
        th.join()
    finally:
        sys.setrecursionlimit(old)
    if 'e' in out:
        raise out['e']
    return out['r']


def need_of(fn):
    """(frames needed by the call(s) `fn` makes, exception name or None); `fn` is a plain function whose body
    makes the call(s) directly"""
    res = {}

    def run():
        st = [0, 0]

        def prof(frame, event, arg):
            if event == 'call':
                st[0] += 1
                if st[0] > st[1]:
                    st[1] = st[0]
            elif event == 'return':
                st[0] -= 1
        sys.setprofile(prof)
        try:
            fn()
        except Exception as e:  # noqa
            res['exc'] = type(e).__name__
        finally:
            sys.setprofile(None)
        res['need'] = st[1] - 1                 # minus `fn` itself

    old = sys.getrecursionlimit()
    sys.setrecursionlimit(BIG_LIMIT)
    threading.stack_size(BIG_STACK)
    try:
        th = threading.Thread(target=run)
        th.start()
        th.join()
    finally:
        threading.stack_size(0)
        sys.setrecursionlimit(old)
    return res.get('need'), res.get('exc')


def need(fn):
    need_of(fn)                                 # warm (abc caches, imports)
    return need_of(fn)[0]


def ekind(e):
    n = type(e).__name__
    return {'MetainfoError': 'metainfo', 'BdecodeError': 'bdecode', 'ReadError': 'read', 'WriteError': 'write',
            'ValueError': 'value'}.get(n, 'internal:' + n)


# ------------------------------------------------------------------------------------------ calibration

def calibrate(torf, tmpdir):
    """frame costs of the functions of the two recursions, measured on the code under test (see
    lean/Torf/Model/Depth.lean `Cost`); None if the anchored functions are not there any more"""
    import datetime
    import flatbencode
    U = torf._utils
    T = torf.Torrent
    for name in ('decode_value', 'decode_list', 'decode_dict', 'encode_value', 'encode_list', 'encode_dict'):
        if not callable(getattr(U, name, None)):
            return None
    dt = datetime.datetime.fromtimestamp(1500000000)
    c = {}
    c['dv'] = need(lambda: U.decode_value(b'\xff'))
    c['abc'] = need(lambda: U.decode_value(1)) - c['dv']
    c['dl'] = need(lambda: U.decode_list([b'\xff'])) - c['dv']
    c['dd'] = need(lambda: U.decode_dict({b'k': b'\xff'})) - c['dv']
    c['ev0'] = need(lambda: U.encode_value(b'\xff'))
    c['el'] = need(lambda: U.encode_list([b'x'])) - c['ev0']
    c['ed'] = need(lambda: U.encode_dict({'k': b'x'})) - c['ev0']
    c['ev'] = need(lambda: U.encode_value([[b'x']])) - need(lambda: U.encode_value([b'x'])) - c['el']
    c['es'] = need(lambda: U.encode_value([['a']])) - need(lambda: U.encode_value([[b'a']])) + c['ev0'] - c['ev']
    c['edt'] = need(lambda: U.encode_value([[dt]])) - need(lambda: U.encode_value([[b'a']])) + c['ev0'] - c['ev']
    c['ebool'] = need(lambda: U.encode_value([[True]])) - need(lambda: U.encode_value([[b'a']])) + c['ev0'] - c['ev']
    e1 = need(lambda: flatbencode.encode(b'x'))
    c['gen'] = need(lambda: flatbencode.encode([[b'x']])) - need(lambda: flatbencode.encode([b'x']))
    c['enc0'] = e1 - c['gen']
    c['genx'] = need(lambda: flatbencode.encode([{}])) - need(lambda: flatbencode.encode([b'x']))
    x, _ = wide.deep_doc('top', 'l', 24, 'bytes')
    t = T.read_stream(x)
    top = flatbencode.decode(x)
    top[b'info'].pop(b'pieces')
    c['rd'] = need(lambda: T.read_stream(x)) - need(lambda: U.decode_dict(top))
    md = t.metainfo
    nenc = need(lambda: U.encode_dict(md))
    cv = need(lambda: t.convert()) - nenc
    c['dp'] = need(lambda: t.dump()) - nenc
    c['dps'] = c['dp'] - cv
    x2, _ = wide.deep_doc('info', 'l', 24, 'bytes')
    t2 = T.read_stream(x2)
    info = t2.metainfo['info']
    c['ih'] = need(lambda: t2.infohash) - need(lambda: U.encode_dict(info))
    src = os.path.join(tmpdir, 'calib-src.torrent')
    dst = os.path.join(tmpdir, 'calib-dst.torrent')
    with open(src, 'wb') as f:
        f.write(x)
    c['rdf'] = need(lambda: T.read(src)) - need(lambda: T.read_stream(x))
    c['wrf'] = need(lambda: t.write(dst, overwrite=True)) - need(lambda: t.dump())
    # frames of the input-independent rest (parser, validate(), setters): the probes stay far above
    xf, _ = wide.deep_doc('top', 'l', 0, 'bytes', multi=True)
    tf = T.read_stream(xf)
    c['floor_read'] = need(lambda: T.read_stream(xf))
    c['floor_dump'] = need(lambda: tf.dump())
    c['floor_hash'] = need(lambda: tf.infohash)
    if any((not isinstance(v, int)) or v < 0 for v in c.values()):
        c['_inconsistent'] = True
    return c


# ------------------------------------------------------------------------------------------ families

def bush_fn(seed):
    """side entries of level i of a bushy nest (deterministic in (seed, i); every side value is shallow)"""
    if seed is None:
        return None

    def bush(i):
        r = random.Random(seed * 1000003 + i)
        out = []
        for _ in range(r.choice([0, 0, 1, 2])):
            out.append(r.choice([0, -1, 2 ** 64, b'', b'a', b'e\xcc\x81', b'\xc3\xa9',
                                 b'\xff\xfe', [], {}, [b'x', 1], {b'q': []}, [[]], {b'a': {b'b': b'c'}}]))
        return out
    return bush


def family_doc(fam, d):
    return wide.deep_doc(fam['where'], fam['pattern'], d, fam['leaf'], bush_fn(fam.get('bush')), fam.get('multi', False))


def observe(torf, x, info, B, tmpdir):
    """all observables of one document at budget B (every torf call is made directly from `fn`)"""
    T = torf.Torrent
    src = os.path.join(tmpdir, 'probe-src.torrent')
    dst = os.path.join(tmpdir, 'probe-dst.torrent')
    with open(src, 'wb') as f:
        f.write(x)
    exp_hash = hashlib.sha1(info).hexdigest()

    def fn():
        o = {'B': LIMIT - frames_here()}
        try:
            t = T.read_stream(x)
            o['read'] = 'ok'
        except Exception as e:  # noqa
            o['read'] = ekind(e)
            t = None
        if t is not None:
            try:
                d = t.dump()
                o['dump'] = 'same' if d == x else 'differs:' + d[:200].hex()
            except Exception as e:  # noqa
                o['dump'] = ekind(e)
                d = None
            try:
                h = t.infohash
                o['infohash'] = 'same' if h == exp_hash else 'differs:' + str(h)
            except Exception as e:  # noqa
                o['infohash'] = ekind(e)
            if d is not None:
                try:
                    t2 = T.read_stream(d)
                    o['second'] = 'equal' if t2 == t else 'differs'
                except Exception as e:  # noqa
                    o['second'] = ekind(e)
        try:
            tf = T.read(src)
            o['readf'] = 'ok'
        except Exception as e:  # noqa
            o['readf'] = ekind(e)
            tf = None
        if tf is not None:
            try:
                tf.write(dst, overwrite=True)
                with open(dst, 'rb') as f:
                    y = f.read()
                o['writef'] = 'same' if y == x else 'differs:' + y[:200].hex()
            except Exception as e:  # noqa
                o['writef'] = ekind(e)
        return o
    return at_budget(B, fn)


def needs(torf, x, tmpdir):
    """frames needed by each call on document x (unlimited budget); also: does validate() accept"""
    T = torf.Torrent
    src = os.path.join(tmpdir, 'need-src.torrent')
    dst = os.path.join(tmpdir, 'need-dst.torrent')
    with open(src, 'wb') as f:
        f.write(x)
    out = {}
    hold = {}

    def rd():
        hold['t'] = T.read_stream(x)
    out['read'], exc = need_of(rd)
    out['vok'] = exc is None
    if exc is not None:
        out['read_exc'] = exc
        return out
    t = hold['t']
    out['dump'], _ = need_of(lambda: t.dump())
    out['hash'], _ = need_of(lambda: t.infohash)
    out['readf'], _ = need_of(lambda: T.read(src))
    out['writef'], _ = need_of(lambda: t.write(dst, overwrite=True))
    return out


def warm(torf, tmpdir):
    x, info = wide.deep_doc('info-dict', 'ld', 6, 'text', bush_fn(1), multi=True)
    observe(torf, x, info, 400, tmpdir)
    needs(torf, x, tmpdir)


def probe_family(torf, fam, tmpdir, extra_depths=()):
    """greatest depth R the reader accepts at budget fam['B'], then all observables at a ladder of depths <= R
    (dense near R, geometric below) and at R+1; frames needed wherever something failed and near R"""
    B = fam['B']
    cache = {}

    def obs(d):
        if d not in cache:
            x, info = family_doc(fam, d)
            cache[d] = observe(torf, x, info, B, tmpdir)
        return cache[d]
    lo, hi = 0, B
    while lo < hi:
        m = (lo + hi + 1) // 2
        if obs(m)['read'] == 'ok':
            lo = m
        else:
            hi = m - 1
    R = lo
    ladder = set(range(max(1, R - 8), R + 1)) | {R + 1, R + 2}
    ladder |= {max(1, R - (R >> i)) for i in range(1, 7)} | {max(1, (2 * R) // 3), max(1, R // 3), max(1, (3 * R) // 5)}
    r = random.Random(fam.get('seed', 0))
    ladder |= {r.randint(1, max(1, R)) for _ in range(fam.get('nrandom', 3))}
    ladder |= set(extra_depths)
    out = {'R': R, 'obs': {}, 'needs': {}}
    failing = []
    for d in sorted(ladder):
        o = obs(d)
        out['obs'][d] = o
        failed = o['read'] == 'ok' and (o.get('dump') != 'same' or o.get('infohash') != 'same'
                                        or o.get('second') != 'equal')
        failed = failed or (o.get('readf') == 'ok' and o.get('writef') != 'same')
        if failed:
            failing.append(d)
    # frames needed (profiling a deep document is quadratic in its depth: flatbencode's generator chain):
    # at the deepest accepted depths, at the deepest failing depths, and at one depth in the middle
    want = {R, R - 1, R + 1, max(1, R - (R >> 1))} | set(failing[-4:]) | set(failing[:1])
    if B >= 900:
        want = {R, max(1, R // 3)} | set(failing[-3:])
    for d in sorted(want):
        if d in out['obs']:
            x, _ = family_doc(fam, d)
            out['needs'][d] = needs(torf, x, tmpdir)
    return out
