"""
C07 — the file system as an input of Torrent.validate() (content path set).

A *world* is a real directory tree that is changed after `Torrent.path` was set, plus optionally an
unprivileged identity (effective uid 65534 while the export runs) and/or injected `os.stat` failures
for the listed paths (errnos that need a faulty device or a network file system).  For every listed
path the harness records what `os.stat` answers *in that world* (kind + size, errno, or ValueError):
that is the model's `FsOracle`.

World description (JSON, part of the case, replayable):
  {'kind': name,                      # label only
   'nodes': [[relcomps, what, arg]],  # created below the content root after the path was set;
                                      #   what: file(size) | dir | fifo | sock | symlink(target) | rm | chmod(mode)
                                      #   relcomps == [] is the content root itself
   'nobody': bool,                    # run the export (and the harness's own stat) as uid 65534
   'inject': [[which, errname]],      # which: 'root' | index of a listed file; os.stat/os.lstat of that
                                      #   path fail with errno `errname` while the export runs
   'entry': {'which': i, 'comps': [...] | None, 'pathlen': L | None, 'length': n | 'stat' | None}}
                                      # how entry i of the metainfo is rewritten (path components,
                                      #   or padded to a total path length of L bytes; listed length)
The metainfo rewrite happens at run time because some of it depends on the scratch path (PATH_MAX
worlds) or on the tree (st_size of a directory); the rewritten recipe is what model and replay see.
"""
import errno
import os
import shutil
import socket
import stat

from harness.impl import recipes as R

NOBODY = 65534
K = 16384

# errnos injected through os.stat: the four pathlib ignores, the ones a real tree can produce and a
# few that need special hardware / file systems
INJECT_ERRNOS = ['EIO', 'EACCES', 'ESTALE', 'EOVERFLOW', 'ENAMETOOLONG', 'ELOOP', 'ENOTDIR', 'EBADF', 'ENOENT',
                 'ENOMEM', 'EPERM', 'EINVAL', 'ETIMEDOUT', 'ENOTCONN']

# worlds for one listed file of a multi-file torrent
FILE_WORLDS = [
    'ok', 'missing', 'name-255', 'name-255-there', 'name-256', 'name-300', 'name-euro-85', 'name-euro-86',
    'name-euro-100', 'sub-name-256', 'pathlen-4000', 'pathlen-4095', 'pathlen-4096', 'pathlen-4097', 'pathlen-5000',
    'pathlen-9000', 'nul', 'nul-dir', 'loop', 'below-loop', 'dangling', 'link-file', 'link-file-size', 'link-dir',
    'below-file', 'dir-as-file', 'dir-as-file-size', 'fifo', 'fifo-len0', 'sock', 'abs-outside', 'dotdot',
    'eacces-nobody', 'eacces-root', 'nobody-ok', 'resize', 'empty-comp',
] + ['inject-' + e for e in INJECT_ERRNOS]

# worlds for the content root (single- and multi-file)
ROOT_WORLDS = [
    'root-ok', 'root-missing', 'root-loop', 'root-dangling', 'root-fifo', 'root-sock', 'root-swap-kind',
    'root-link', 'root-link-wrong', 'root-locked-nobody', 'root-locked-root', 'root-nobody', 'root-resize',
] + ['inject-root-' + e for e in INJECT_ERRNOS]


def layout(rng, multi):
    """files of the content tree the torrent is created from"""
    if multi:
        n = rng.choice([2, 2, 3])
        files = [{'comps': ([f'd{rng.randrange(2)}'] if rng.random() < 0.4 else []) + [f'f{i}'],
                  'size': rng.choice([1, 5, 100, K, K + 1])} for i in range(n)]
    else:
        files = [{'comps': [], 'size': rng.choice([1, 5, K, K + 1])}]
    return files


def describe(rng, world, files, multi):
    """world name -> world description for the layout `files`"""
    which = rng.randrange(len(files))
    f = files[which]
    C, S = list(f['comps']), f['size']
    parent = C[:-1]
    w = {'kind': world, 'nodes': [], 'nobody': False, 'inject': [],
         'entry': {'which': which, 'comps': None, 'pathlen': None, 'length': None}}
    e = w['entry']
    if world.startswith('inject-root-'):
        w['inject'] = [['root', world[len('inject-root-'):]]]
    elif world.startswith('inject-'):
        w['inject'] = [[which, world[len('inject-'):]]]
    elif world in ('ok', 'root-ok'):
        pass
    elif world == 'missing':
        e['comps'] = parent + ['nope']
    elif world == 'name-255':
        e['comps'] = parent + ['n' * 255]
    elif world == 'name-255-there':
        e['comps'] = parent + ['n' * 255]
        w['nodes'] = [[parent + ['n' * 255], 'file', S]]
    elif world == 'name-256':
        e['comps'] = parent + ['n' * 256]
    elif world == 'name-300':
        e['comps'] = parent + ['n' * 300]
    elif world.startswith('name-euro-'):
        e['comps'] = parent + ['€' * int(world.rsplit('-', 1)[1])]
    elif world == 'sub-name-256':
        w['nodes'] = [[['sub'], 'dir', None]]
        e['comps'] = ['sub', 'y' * 256]
    elif world.startswith('pathlen-'):
        e['pathlen'] = int(world.split('-')[1])
    elif world == 'nul':
        e['comps'] = parent + ['a\x00b']
    elif world == 'nul-dir':
        e['comps'] = ['su\x00b'] + C
    elif world == 'loop':
        w['nodes'] = [[C, 'rm', None], [C, 'symlink', C[-1]]]
    elif world == 'below-loop':
        w['nodes'] = [[parent + ['lp'], 'symlink', 'lp']]
        e['comps'] = parent + ['lp', 'x']
    elif world == 'dangling':
        w['nodes'] = [[C, 'rm', None], [C, 'symlink', 'nowhere']]
    elif world in ('link-file', 'link-file-size'):
        w['nodes'] = [[C, 'rm', None], [parent + ['real'], 'file', S + (world == 'link-file-size')],
                      [C, 'symlink', 'real']]
    elif world == 'link-dir':
        w['nodes'] = [[C, 'rm', None], [parent + ['realdir'], 'dir', None], [C, 'symlink', 'realdir']]
    elif world == 'below-file':
        e['comps'] = C + ['x']
    elif world == 'dir-as-file':
        w['nodes'] = [[C, 'rm', None], [C, 'dir', None]]
    elif world == 'dir-as-file-size':
        w['nodes'] = [[C, 'rm', None], [C, 'dir', None]]
        e['length'] = 'stat'
    elif world in ('fifo', 'fifo-len0', 'sock'):
        w['nodes'] = [[C, 'rm', None], [C, 'sock' if world == 'sock' else 'fifo', None]]
        if world == 'fifo-len0':
            e['length'] = 0
    elif world == 'abs-outside':
        e['comps'] = ['@OUTSIDE@']              # absolute path of a file of the right size outside the tree
        w['outside'] = S
    elif world == 'dotdot':
        e['comps'] = ['..', 'T'] + C
    elif world in ('eacces-nobody', 'eacces-root'):
        w['nodes'] = [[['locked'], 'dir', None], [['locked', 'c'], 'file', S], [['locked'], 'chmod', 0]]
        e['comps'] = ['locked', 'c']
        w['nobody'] = world == 'eacces-nobody'
    elif world in ('nobody-ok', 'root-nobody'):
        w['nobody'] = True
    elif world in ('resize', 'root-resize'):
        w['nodes'] = [[C, 'file', S + 1]]
    elif world == 'empty-comp':
        e['comps'] = parent + ['', C[-1]] if C else None
    elif world == 'root-missing':
        w['nodes'] = [[[], 'rm', None]]
    elif world == 'root-loop':
        w['nodes'] = [[[], 'rm', None], [[], 'symlink', 'T']]
    elif world == 'root-dangling':
        w['nodes'] = [[[], 'rm', None], [[], 'symlink', 'nowhere']]
    elif world in ('root-fifo', 'root-sock'):
        w['nodes'] = [[[], 'rm', None], [[], world[5:], None]]
    elif world == 'root-swap-kind':
        w['nodes'] = [[[], 'rm', None], [[], 'file' if multi else 'dir', 5]]
    elif world in ('root-link', 'root-link-wrong'):
        w['nodes'] = [[[], 'mv', '../T.real'], [[], 'symlink', 'T.real']]
        if world == 'root-link-wrong':
            w['nodes'].append([['..', 'T.real'] + C, 'file', S + 1] if multi else [['..', 'T.real'], 'file', S + 1])
    elif world in ('root-locked-nobody', 'root-locked-root'):
        w['nodes'] = [[['..'], 'chmod', 0]]
        w['nobody'] = world == 'root-locked-nobody'
    else:
        raise ValueError('unknown world ' + world)
    return w


def base_md(files, multi):
    size = sum(f['size'] for f in files)
    n = -(-size // K)
    info = [('name', R.S('T')), ('piece length', R.I(K)), ('pieces', R.Y(bytes((i * 7 + 1) % 256 for i in range(20 * n))))]
    if multi:
        info.append(('files', R.L([R.D([('length', R.I(f['size'])), ('path', R.L([R.S(c) for c in f['comps']]))])
                                   for f in files])))
    else:
        info.append(('length', R.I(size)))
    return R.D([('info', R.D(info))])


# ---------------------------------------------------------------------------------------------
# run time

def content_root(wd):
    return os.path.join(wd, 'P', 'T')


def _rm(p):
    if os.path.islink(p) or (os.path.lexists(p) and not os.path.isdir(p)):
        os.remove(p)
    elif os.path.isdir(p):
        shutil.rmtree(p)


def reset(wd):
    """remove the previous world (its directories may be unsearchable)"""
    base = os.path.join(wd, 'P')
    if os.path.lexists(base):
        try:
            os.chmod(base, 0o755)
        except OSError:
            pass
        for dp, dns, _ in os.walk(base):
            for d in dns:
                p = os.path.join(dp, d)
                if not os.path.islink(p):
                    try:
                        os.chmod(p, 0o755)
                    except OSError:
                        pass
        _rm(base)


def build_tree(wd, fs):
    """the tree `Torrent.path` is set on"""
    reset(wd)
    root = content_root(wd)
    os.makedirs(os.path.dirname(root))
    os.chmod(os.path.dirname(root), 0o755)
    if fs['multi']:
        os.makedirs(root)
        for f in fs['files']:
            p = os.path.join(root, *f['comps'])
            os.makedirs(os.path.dirname(p), exist_ok=True)
            with open(p, 'wb') as fh:
                fh.write(b'\0' * f['size'])
    else:
        with open(root, 'wb') as fh:
            fh.write(b'\0' * fs['files'][0]['size'])
    return root


def apply_nodes(wd, world):
    root = content_root(wd)
    for rel, what, arg in world.get('nodes', []):
        p = os.path.normpath(os.path.join(root, *rel)) if rel else root
        if what == 'rm':
            _rm(p)
        elif what == 'mv':
            os.rename(p, os.path.normpath(os.path.join(root, arg)))
        elif what == 'file':
            os.makedirs(os.path.dirname(p), exist_ok=True)
            _rm(p)
            with open(p, 'wb') as fh:
                fh.write(b'\0' * arg)
        elif what == 'dir':
            os.makedirs(p, exist_ok=True)
        elif what == 'fifo':
            os.mkfifo(p)
        elif what == 'sock':
            s = socket.socket(socket.AF_UNIX)
            try:
                s.bind(p)
            except OSError:
                os.mkfifo(p)          # path too long for sun_path: another non-regular node
            finally:
                s.close()
        elif what == 'symlink':
            os.symlink(arg, p)
        elif what == 'chmod':
            os.chmod(p, arg)
        else:
            raise ValueError(what)
    if 'outside' in world:
        with open(os.path.join(wd, 'outside.bin'), 'wb') as fh:
            fh.write(b'\0' * world['outside'])


def finalise_md(md, world, wd):
    """rewrite entry `which` of the metainfo recipe as the world demands (idempotent)"""
    e = world.get('entry') or {}
    if e.get('comps') is None and e.get('pathlen') is None and e.get('length') is None:
        return md
    info = R.dget(md, 'info')
    fl = R.dget(info, 'files') if info is not None and info['t'] == 'd' else None
    if fl is None or fl['t'] not in ('l', 'u') or e['which'] >= len(fl['v']) or fl['v'][e['which']]['t'] != 'd':
        return md
    root = content_root(wd)
    ent = fl['v'][e['which']]
    comps = e.get('comps')
    if e.get('pathlen') is not None:
        # components of at most 200 bytes so that only the total length matters
        need = e['pathlen'] - len(root.encode()) - 1
        comps = []
        while need > 201:
            comps.append('p' * 200)
            need -= 201
        comps.append('q' * max(1, need))
    if comps is not None:
        comps = [os.path.join(wd, 'outside.bin') if c == '@OUTSIDE@' else c for c in comps]
        ent = R.dset(ent, 'path', R.L([R.S(c) for c in comps]))
    if e.get('length') is not None:
        ln = e['length']
        if ln == 'stat':
            p = R.dget(ent, 'path')
            try:
                ln = os.stat(os.path.join(root, *[c['v'] for c in p['v']])).st_size
            except (OSError, ValueError, TypeError, KeyError):
                ln = 0
        ent = R.dset(ent, 'length', R.I(ln))
    new_files = list(fl['v'])
    new_files[e['which']] = ent
    info = R.dset(info, 'files', {'t': fl['t'], 'v': new_files})
    # keep the piece count consistent so that validate() reaches the file-system cross-check
    try:
        total = sum(int(R.build(R.dget(x, 'length'))) for x in new_files)
        pl = int(R.build(R.dget(info, 'piece length')))
        n = -(-total // pl)
        if 0 < n < 4096:
            info = R.dset(info, 'pieces', R.Y(bytes((i * 7 + 1) % 256 for i in range(20 * n))))
    except Exception:   # noqa  (mutated metainfo: leave it alone)
        pass
    return R.dset(md, 'info', info)


def listed_paths(root, md):
    """joined path of every listed file as validate() builds it (None: os.path.join refuses)"""
    out = []
    info = R.dget(md, 'info') if md['t'] == 'd' else None
    fl = R.dget(info, 'files') if info is not None and info['t'] == 'd' else None
    if fl is not None and fl['t'] in ('l', 'u'):
        for f in fl['v']:
            p = R.dget(f, 'path') if f['t'] == 'd' else None
            if p is not None and p['t'] in ('l', 'u') and p['v'] and all(c['t'] == 's' for c in p['v']):
                try:
                    out.append(os.path.join(root, os.path.join(*[c['v'] for c in p['v']])))
                except (TypeError, ValueError):
                    out.append(None)
            else:
                out.append(None)
    return out


def stat_answer(p):
    """what os.stat answers, in the driver's encoding"""
    if p is None:
        return ['err', 'ENOENT', errno.ENOENT]       # never consulted: os.path.join raises first
    try:
        st = os.stat(p)
    except OSError as e:
        return ['err', errno.errorcode.get(e.errno, 'E?'), e.errno or 0]
    except ValueError:
        return ['bad']
    if stat.S_ISREG(st.st_mode):
        return ['file', st.st_size]
    if stat.S_ISDIR(st.st_mode):
        return ['dir', st.st_size]
    return ['other', st.st_size]


def fs_facts(root, md):
    return {'root': stat_answer(root), 'files': [stat_answer(p) for p in listed_paths(root, md)]}


class Guard:
    """the world's identity and stat failures, active only while the export (or the harness's own
    stat) runs: effective uid 65534 and `os.stat`/`os.lstat` failing for the planned paths.  The
    functions of the `os` module itself are replaced (in this worker process only) so that every way of
    asking — os.path.exists/isfile/isdir/getsize/lexists/islink/realpath, pathlib, a direct os.stat —
    gets the same answer; all other paths pass through."""

    def __init__(self, world, root, md):
        self.nobody = bool(world.get('nobody')) and os.geteuid() == 0
        self.plan = {}
        paths = None
        for which, name in world.get('inject', []):
            if which == 'root':
                p = root
            else:
                paths = paths if paths is not None else listed_paths(root, md)
                p = paths[which] if isinstance(which, int) and which < len(paths) else None
            if p is not None:
                self.plan[os.path.normpath(p)] = getattr(errno, name)

    def __enter__(self):
        if self.plan:
            plan, real_stat, real_lstat = self.plan, os.stat, os.lstat
            self._saved = (real_stat, real_lstat)

            def key(p):
                try:
                    q = os.fspath(p)
                    if isinstance(q, bytes):
                        q = os.fsdecode(q)
                    return os.path.normpath(q)
                except (TypeError, ValueError):
                    return None

            def fake_stat(path, *a, **k):
                e = plan.get(key(path)) if not isinstance(path, int) else None
                if e is not None:
                    raise OSError(e, os.strerror(e), os.fspath(path))
                return real_stat(path, *a, **k)

            def fake_lstat(path, *a, **k):
                e = plan.get(key(path))
                if e is not None:
                    raise OSError(e, os.strerror(e), os.fspath(path))
                return real_lstat(path, *a, **k)
            os.stat, os.lstat = fake_stat, fake_lstat
        if self.nobody:
            os.setegid(NOBODY)
            os.seteuid(NOBODY)
        return self

    def __exit__(self, *a):
        if self.nobody:
            os.seteuid(0)
            os.setegid(0)
        if self.plan:
            os.stat, os.lstat = self._saved
        return False
