"""
C09 helper (owned by C09): the small content world the attribute histories run against, the
interpreter of abstract attribute operations on a real `torf.Torrent`, the API-level projection
of its state, and the implementation-side specification check (property C09 evaluated on the
real object without reference to the Lean model).

Abstract paths are component lists; the world root is ["/", "R"] and is mapped to
<worker scratch>/R on disk (the directory is really called "R" because its name becomes the
torrent name when file paths from two trees are combined).
"""
import hashlib
import os
import signal

from harness import common
from harness.impl import content

K = 16384
ROOT = ['/', 'R']
DEFAULT_MIN = 16 * 1024
DEFAULT_MAX = 16 * 1024 * 1024
BIG = 9 * 1024 * 1024 + 1     # > 512 * 16 KiB: calculate_piece_size() leaves the minimum

# tree -> {relative path: size}; None key = the tree is a single file
TREES = {
    'A': {'a': 5 * K, 'b': K + 1, 'sub/c': 3, 'sub/d': 2 * K, '.hid': 7, 'e.tmp': K},
    'B': {'x': 2 * K + 5},
    'F5': {'f': 5 * K},
    'S': 3 * K + 1,
    'big': BIG,
}
EMPTY_DIRS = ['E']


def env_json():
    files = []
    for name, spec in sorted(TREES.items()):
        if isinstance(spec, int):
            files.append([ROOT + [name], spec])
        else:
            for rel, sz in sorted(spec.items()):
                files.append([ROOT + [name] + rel.split('/'), sz])
    return {'files': files, 'dirs': [ROOT + [d] for d in EMPTY_DIRS]}


_world = {}


def world_root():
    """Create the world once per process; return its real root directory."""
    pid = os.getpid()
    if _world.get('pid') == pid:
        return _world['root']
    wd = common.worker_dir()
    root = os.path.join(wd, 'R')
    os.makedirs(root, exist_ok=True)
    idx = 0
    for name, spec in sorted(TREES.items()):
        if isinstance(spec, int):
            with open(os.path.join(root, name), 'wb') as f:
                f.write(content.file_bytes(9, idx, spec))
            idx += 1
        else:
            for rel, sz in sorted(spec.items()):
                p = os.path.join(root, name, *rel.split('/'))
                os.makedirs(os.path.dirname(p), exist_ok=True)
                with open(p, 'wb') as f:
                    f.write(content.file_bytes(9, idx, sz))
                idx += 1
    for d in EMPTY_DIRS:
        os.makedirs(os.path.join(root, d), exist_ok=True)
    cwd = os.path.join(wd, 'cwd')       # an empty directory: relative File paths exist nowhere
    os.makedirs(cwd, exist_ok=True)
    os.chdir(cwd)
    _world.update(pid=pid, root=root)
    return root


def real(root, comps):
    """abstract path -> file system path"""
    if comps[:2] == ROOT:
        return os.path.join(root, *comps[2:]) if len(comps) > 2 else root
    if comps and comps[0] == '/':
        return '/' + '/'.join(comps[1:])
    return '/'.join(comps)


def abstract(root, p):
    """file system path -> abstract path (None stays None)"""
    if p is None:
        return None
    s = os.fspath(p)
    if s == root:
        return list(ROOT)
    if s.startswith(root + os.sep):
        return ROOT + s[len(root) + 1:].split(os.sep)
    if s.startswith('/'):
        return ['/'] + [c for c in s.split('/') if c]
    return s.split('/')


def glob_str(g):
    kind, s = g
    return '*' + s if kind == 'suffix' else '*' + s + '*'


def glob_of_str(s):
    s = str(s)
    if s.startswith('*') and s.endswith('*') and len(s) > 1:
        return ['infix', s[1:-1]]
    if s.startswith('*'):
        return ['suffix', s[1:]]
    return ['other', s]


def do_op(torf, t, op, root):
    k = op['k']
    if k == 'setPath':
        t.path = None if op['p'] is None else real(root, op['p'])
    elif k == 'setFiles':
        t.files = [torf.File(real(root, p), size=n) for p, n in op['fs']]
    elif k == 'filesDel':
        fs = t.files
        if len(fs):
            del fs[op['i'] % len(fs)]
    elif k == 'filesAppend':
        p, n = op['f']
        t.files.append(torf.File(real(root, p), size=n))
    elif k == 'filesClear':
        t.files.clear()
    elif k == 'setFilepaths':
        t.filepaths = [real(root, p) for p in op['ps']]
    elif k == 'fpDel':
        fp = t.filepaths
        if len(fp):
            del fp[op['i'] % len(fp)]
    elif k == 'fpAppend':
        t.filepaths.append(real(root, op['p']))
    elif k == 'fpClear':
        t.filepaths.clear()
    elif k == 'globSet':
        v = [glob_str(g) for g in op['gs']]
        if op['inc']:
            t.include_globs = v
        else:
            t.exclude_globs = v
    elif k == 'globAppend':
        (t.include_globs if op['inc'] else t.exclude_globs).append(glob_str(op['g']))
    elif k == 'globDel':
        lst = t.include_globs if op['inc'] else t.exclude_globs
        if len(lst):
            del lst[op['i'] % len(lst)]
    elif k == 'globClear':
        (t.include_globs if op['inc'] else t.exclude_globs).clear()
    elif k == 'setName':
        t.name = op['n']
    elif k == 'setPieceSize':
        t.piece_size = op['v']
    elif k == 'setMin':
        t.piece_size_min = op['v']
    elif k == 'setMax':
        t.piece_size_max = op['v']
    elif k == 'generate':
        r = t.generate(threads=op.get('threads', 1))
        if r is not True:
            return 'generate-returned-%r' % (r,)
    elif k == 'setComment':
        t.comment = op['c']
    else:
        raise AssertionError('unknown op ' + k)
    return 'ok'


MODES = {None: 0, 'singlefile': 1, 'multifile': 2}
UNRELATED_INFO_KEYS = {'private', 'source', 'entropy'}


def project(t, root):
    """API-level projection of a Torrent (same shape as the driver's `stateJson`)."""
    info = t.metainfo['info']
    pieces = info.get('pieces')
    return {
        'name': info.get('name'),
        'mode': MODES[t.mode],
        'length': info.get('length'),
        'files': ([[list(f['path']), f['length']] for f in info['files']] if 'files' in info else None),
        'path': abstract(root, t.path),
        'pl': info.get('piece length'),
        'pieces': (len(pieces) // 20 if pieces is not None else None),
        'pmin': t.piece_size_min, 'pmax': t.piece_size_max,
        'exGlobs': [glob_of_str(g) for g in t.exclude_globs],
        'inGlobs': [glob_of_str(g) for g in t.include_globs],
        'size': t.size, 'numPieces': t.pieces,
        'listed': [[list(f.parts), f.size] for f in t.files],
        'filepaths': [abstract(root, fp) for fp in t.filepaths],
        'ready': t.is_ready,
        'comment': t.comment,
        'keys': sorted(k for k in info if k not in UNRELATED_INFO_KEYS),
    }


def model_keys(m):
    ks = []
    if m['name'] is not None:
        ks.append('name')
    if m['mode'] == 1:
        ks.append('length')
    if m['mode'] == 2:
        ks.append('files')
    if m['pl'] is not None:
        ks.append('piece length')
    if m['pieces'] is not None:
        ks.append('pieces')
    return sorted(ks)


def mult16(n):
    return isinstance(n, int) and n > 0 and n % K == 0


def fresh_pieces(t, obs, root):
    """SHA-1 of the consecutive piece-length chunks of the listed files as they are on disk
    now, for the current layout and piece length (independent of torf's hashing code)."""
    pl = obs['pl']
    path = os.fspath(t.path)
    if obs['mode'] == 1:
        fps = [path]
    else:
        fps = [os.path.join(path, *p) for p, _ in obs['files']]
    out = []
    buf = b''
    for fp in fps:
        with open(fp, 'rb') as f:
            buf += f.read()
        while len(buf) >= pl:
            out.append(hashlib.sha1(buf[:pl]).digest())
            buf = buf[pl:]
    if buf:
        out.append(hashlib.sha1(buf).digest())
    return b''.join(out)


def spec_check(torf, t, obs, root):
    """Property C09 evaluated on the real object.  Returns a list of deviation codes."""
    dev = []
    info = t.metainfo['info']
    pmin, pmax, pl = obs['pmin'], obs['pmax'], obs['pl']
    if not (mult16(pmin) and mult16(pmax)):
        dev.append('bound-not-multiple-of-16KiB')
    if not pmin <= pmax:
        dev.append('min>max')
    if pl is not None:
        if not mult16(pl):
            dev.append('pl-not-multiple-of-16KiB')
        else:
            if pl < pmin:
                dev.append('pl<min')
            if pl > pmax:
                dev.append('pl>max')
    listed_sum = sum(n for _, n in obs['listed'])
    info_sum = obs['length'] if obs['mode'] == 1 else (sum(n for _, n in obs['files']) if obs['mode'] == 2 else 0)
    if obs['size'] != listed_sum or obs['size'] != info_sum:
        dev.append('size!=sum')
    nl = len(obs['listed'])
    if (obs['mode'] == 0) != (nl == 0) or (obs['mode'] == 1 and nl != 1) or \
            ('length' in info and 'files' in info):
        dev.append('mode-mismatch')
    if obs['size'] > 0 and pl is None:
        dev.append('no-piece-length')
    if pl and obs['size'] > 0 and obs['numPieces'] != -(-obs['size'] // pl):
        dev.append('pieces-property!=ceil')
    if 'pieces' in info:
        raw = info['pieces']
        if not pl or obs['size'] <= 0 or len(raw) % 20 or len(raw) // 20 != -(-obs['size'] // pl):
            dev.append('piece-count!=ceil')
        if t.path is None:
            dev.append('pieces-without-path')
        elif pl and mult16(pl):
            try:
                fresh = fresh_pieces(t, obs, root)
            except OSError:
                fresh = None
            if fresh != raw:
                dev.append('stale-pieces')
    if obs['ready']:
        if t.path is None:
            dev.append('ready-without-path')
        else:
            try:
                r = t.verify(os.fspath(t.path), threads=1)
                if r is not True:
                    dev.append('verify-returned-%r' % (r,))
            except torf.TorfError as e:
                dev.append('verify-raised-' + type(e).__name__)
    return dev


DOCUMENTED = {'PieceSizeError', 'PathError', 'CommonPathError', 'ReadError', 'RuntimeError'}


class _Timeout(BaseException):
    pass


def _alarm(signum, frame):
    raise _Timeout()


BOUND_CODES = {'min>max', 'pl<min', 'pl>max'}


def _resumable(ops, k, dev):
    """A deviation confined to the bounds directly after a bound assignment, and the next operation
    assigns the same bound again: keep going, so that the corrective assignment can be checked
    (D09b narrowed, theorem C09_inv_corrected_step; whether the next operation really is
    corrective is decided by the driver's `hypC`)."""
    return (set(dev) <= BOUND_CODES and ops[k]['k'] in ('setMin', 'setMax')
            and k + 1 < len(ops) and ops[k + 1]['k'] == ops[k]['k'])


def run_history(torf, ops, root, stop_on_deviation=True, timeout=60):
    """Run one history on a fresh Torrent.  Returns the list of steps
    {'obs':…, 'res':…, 'dev': [codes]} (truncated after the first deviation, unless `_resumable`)."""
    steps = []
    old = signal.signal(signal.SIGALRM, _alarm)
    signal.alarm(timeout)
    init = None
    try:
        try:
            t = torf.Torrent()
            init = project(t, root)
        except _Timeout:
            raise
        except Exception as e:   # noqa: a fresh Torrent() cannot even be built / inspected
            return {'init': None, 'steps': [{'obs': None, 'res': type(e).__name__,
                                             'dev': ['constructor-raised-' + type(e).__name__]}]}
        for op in ops:
            dev = []
            try:
                res = do_op(torf, t, op, root)
                if res != 'ok':
                    dev.append(res)
            except torf.TorfError as e:
                res = type(e).__name__
            except RuntimeError as e:
                res = 'RuntimeError'
            except _Timeout:
                raise
            except Exception as e:   # noqa: undocumented exception type
                res = type(e).__name__
            if res != 'ok' and res not in DOCUMENTED and not res.startswith('generate-'):
                dev.append('undocumented-exception-' + res)
            obs = project(t, root)
            dev += spec_check(torf, t, obs, root)
            steps.append({'obs': obs, 'res': res, 'dev': dev})
            if dev and stop_on_deviation and not _resumable(ops, len(steps) - 1, dev):
                break
    except _Timeout:
        steps.append({'obs': None, 'res': 'timeout', 'dev': ['timeout']})
    finally:
        signal.alarm(0)
        signal.signal(signal.SIGALRM, old)
    return {'init': init, 'steps': steps}
