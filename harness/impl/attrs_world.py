"""
C09 helper (owned by C09): the small content world the attribute histories run against, the
interpreter of abstract attribute operations on a real `torf.Torrent`, the API-level projection
of its state, and the implementation-side specification check (property C09 evaluated on the
real object without reference to the Lean model).

Abstract paths are component lists; the world root is ["/", "R"] and is mapped to
<worker scratch>/R on disk (the directory is really called "R" because its name becomes the
torrent name when file paths from two trees are combined).
"""
import fnmatch
import hashlib
import os
import re
import signal

from harness import common
from harness.impl import content

K = 16384
ROOT = ['/', 'R']
DEFAULT_MIN = 16 * 1024
DEFAULT_MAX = 16 * 1024 * 1024
BIG = 9 * 1024 * 1024 + 1     # > 512 * 16 KiB: calculate_piece_size() leaves the minimum

# tree -> {relative path: size}; None key = the tree is a single file
TREES = {
    'A': {'a': 5 * K, 'b': K + 1, 'sub/c': 3, 'sub/d': 2 * K, '.hid': 7, 'e.tmp': K},
    'B': {'x': 2 * K + 5},
    'F5': {'f': 5 * K},
    'S': 3 * K + 1,
    'big': BIG,
}
EMPTY_DIRS = ['E']


BEYOND_FLOAT = 1 << 53    # `Torrent.pieces` is `math.ceil(size / piece_size)` in floating point: not compared from here on
HUGE = 1 << 1100          # a File size beyond the range of a float: the stock calculate_piece_size() raises OverflowError
FLOAT_LIMIT = 1 << 1036   # the model's float limit; sizes in [2**40, 2**1036) are not used (float rounding is not modelled)


class CalcFault(Exception):
    """what an overriding calculate_piece_size() of the harness raises (rule {'raise': 'CalcFault'})"""


def _exception(torf, name, size):
    if name == 'CalcFault':
        return CalcFault(size)
    if name == 'PieceSizeError':
        return torf.PieceSizeError(size)
    return {'ZeroDivisionError': ZeroDivisionError, 'KeyError': KeyError, 'OverflowError': OverflowError,
            'ArithmeticError': ArithmeticError}[name](size)


_classes = {}


def make_class(torf, rules):
    """A subclass of Torrent whose calculate_piece_size() ("It is safe to override this method") is
    given by `rules` = [{'lo': n, 'hi': n | None, 'value': int} | {…, 'raise': 'ExceptionName'}]: the
    first rule with lo <= size (< hi) decides; a size no rule covers goes to the stock method.
    The same description is sent to the Lean driver (`Env.rules`)."""
    if not rules:
        return torf.Torrent
    key = (id(torf), json_key(rules))
    if key not in _classes:
        class RuledTorrent(torf.Torrent):
            @classmethod
            def calculate_piece_size(cls, size, min_size=None, max_size=None):
                for r in rules:
                    if r['lo'] <= size and (r.get('hi') is None or size < r['hi']):
                        if 'raise' in r:
                            raise _exception(torf, r['raise'], size)
                        return r['value']
                return super().calculate_piece_size(size, min_size=min_size, max_size=max_size)
        _classes[key] = RuledTorrent
    return _classes[key]


def json_key(x):
    import json
    return json.dumps(x, sort_keys=True)


def fault_names(rules):
    """exception kinds with which the recalculation of the piece length may fail in this world: the
    setter's PieceSizeError (a rejected value), the stock method's OverflowError, what the rules raise"""
    return {'PieceSizeError', 'OverflowError'} | {r['raise'] for r in (rules or []) if 'raise' in r}


def env_json(rules=None):
    files = []
    for name, spec in sorted(TREES.items()):
        if isinstance(spec, int):
            files.append([ROOT + [name], spec])
        else:
            for rel, sz in sorted(spec.items()):
                files.append([ROOT + [name] + rel.split('/'), sz])
    return {'files': files, 'dirs': [ROOT + [d] for d in EMPTY_DIRS], 'rules': list(rules or [])}


_world = {}


def world_root():
    """Create the world once per process; return its real root directory."""
    pid = os.getpid()
    if _world.get('pid') == pid:
        return _world['root']
    wd = common.worker_dir()
    root = os.path.join(wd, 'R')
    os.makedirs(root, exist_ok=True)
    idx = 0
    for name, spec in sorted(TREES.items()):
        if isinstance(spec, int):
            with open(os.path.join(root, name), 'wb') as f:
                f.write(content.file_bytes(9, idx, spec))
            idx += 1
        else:
            for rel, sz in sorted(spec.items()):
                p = os.path.join(root, name, *rel.split('/'))
                os.makedirs(os.path.dirname(p), exist_ok=True)
                with open(p, 'wb') as f:
                    f.write(content.file_bytes(9, idx, sz))
                idx += 1
    for d in EMPTY_DIRS:
        os.makedirs(os.path.join(root, d), exist_ok=True)
    cwd = os.path.join(wd, 'cwd')       # an empty directory: relative File paths exist nowhere
    os.makedirs(cwd, exist_ok=True)
    os.chdir(cwd)
    _world.update(pid=pid, root=root)
    return root


def real(root, comps):
    """abstract path -> file system path"""
    if comps[:2] == ROOT:
        return os.path.join(root, *comps[2:]) if len(comps) > 2 else root
    if comps and comps[0] == '/':
        return '/' + '/'.join(comps[1:])
    return '/'.join(comps)


SPELLINGS = ('abs', 'rel', 'reldot', 'dotdot', 'dot', 'dslash', 'trail')


def spell(p, sp):
    """another spelling of the absolute path `p` that names the same file (no symlinks involved):
    relative to the worker's current directory (an empty directory next to the world, so the
    relative path starts with '..'), with a 'x/..' detour, a '.' segment, a doubled separator, a
    trailing separator (directories only)"""
    if sp in (None, 'abs'):
        return p
    if sp == 'rel':
        return os.path.relpath(p, os.getcwd())
    if sp == 'reldot':
        return os.path.join('.', os.path.relpath(p, os.getcwd()))
    d, b = os.path.split(p)
    if sp == 'dotdot':
        return os.path.join(d, '..', os.path.basename(d), b)
    if sp == 'dot':
        return d + '/./' + b
    if sp == 'dslash':
        return d + '//' + b
    if sp == 'trail':
        return p + '/' if os.path.isdir(p) else p
    raise AssertionError(sp)


def abstract(root, p):
    """file system path -> abstract path (None stays None)"""
    if p is None:
        return None
    s = os.fspath(p)
    if s.startswith('/') or '..' in s.split('/') or '.' in s.split('/'):
        s = os.path.normpath(os.path.join(os.getcwd(), s))      # the spelling is not part of the projection
    if s == root:
        return list(ROOT)
    if s.startswith(root + os.sep):
        return ROOT + s[len(root) + 1:].split(os.sep)
    if s.startswith('/'):
        return ['/'] + [c for c in s.split('/') if c]
    return s.split('/')


def glob_str(g):
    kind, s = g
    return '*' + s if kind == 'suffix' else '*' + s + '*'


def glob_of_str(s):
    s = str(s)
    if s.startswith('*') and s.endswith('*') and len(s) > 1:
        return ['infix', s[1:-1]]
    if s.startswith('*'):
        return ['suffix', s[1:]]
    return ['other', s]


# ---------------------------------------------------------------------------------------------
# the four filter lists (MonitoredLists with the callback Torrent._filters_changed)

RX_SHAPES = ('lit', 'suffix', 'suffixCI', 'pre', 'suffixClass')


def rx_valid(p):
    try:
        re.compile(p)
        return True
    except re.error:
        return False


def rx_str(shape):
    """source text of a regular expression of the model (Torf.Attrs.Rx)"""
    kind, s = shape
    if kind == 'lit':
        return re.escape(s)
    if kind == 'suffix':
        return re.escape(s) + '$'
    if kind == 'suffixCI':
        return '(?i)' + re.escape(s) + '$'
    if kind == 'pre':
        return '^' + re.escape(s)
    if kind == 'suffixClass':
        return '[' + s + ']$'
    if kind == 'invalid':
        return s
    raise AssertionError('regex shape ' + kind)


def _unescape(body):
    out, i = [], 0
    while i < len(body):
        if body[i] == '\\' and i + 1 < len(body):
            i += 1
        out.append(body[i])
        i += 1
    return ''.join(out)


def rx_shape(p):
    """pattern source -> shape of the model; ['other', p] if the model has no such shape"""
    if not rx_valid(p):
        return ['invalid', p]
    cands = [['lit', _unescape(p)]]
    if p.endswith('$'):
        cands.append(['suffix', _unescape(p[:-1])])
        if p.startswith('(?i)'):
            cands.append(['suffixCI', _unescape(p[4:-1])])
        if p.startswith('[') and p.endswith(']$') and p[1:-2].isalnum():
            cands.append(['suffixClass', p[1:-2]])
    if p.startswith('^'):
        cands.append(['pre', _unescape(p[1:])])
    for c in cands:
        if rx_str(c) == p:
            return c
    return ['other', p]


# harness-level operation names -> (list kind, operation of the model's `LOp`, route)
#   route 'attr': assignment to / augmented assignment of the ATTRIBUTE (the property setter runs
#   `lst[:] = value`); route 'list': a method / item assignment of the list object (the attribute
#   read at that moment, or — op['held'] — the object obtained at the first such operation)
_FL = {'Set': ('setSlice', 'attr'), 'SetSlice': ('setSlice', 'list'), 'SetIndex': ('setIndex', 'list'),
       'Append': ('append', 'list'), 'Extend': ('extend', 'list'), 'Iadd': ('extend', 'list'),
       'Del': ('del', 'list'), 'Clear': ('clear', 'list'), 'SetSelf': ('assignSelf', 'attr'),
       'SliceSelf': ('assignSelf', 'list'), 'IaddAttr': ('iaddAttr', 'attr'),
       # the remaining in-place edits: MonitoredList.insert / reverse, MutableSequence.pop / remove
       # (built on __getitem__, index() and __delitem__), `del lst[a:b]`
       'Insert': ('insert', 'list'), 'Pop': ('pop', 'list'), 'Remove': ('remove', 'list'),
       'DelSlice': ('delSlice', 'list'), 'Reverse': ('reverse', 'list')}
INDEX_OPS = tuple(kind + sfx for kind in ('glob', 'rx') for sfx in ('SetIndex', 'Pop'))      # may raise IndexError
REMOVE_OPS = ('globRemove', 'rxRemove')                                                         # may raise ValueError
FLIST_OPS = {kind + suffix: (kind, suffix) for kind in ('glob', 'rx') for suffix in _FL}
RX_OPS = tuple(k for k in FLIST_OPS if k.startswith('rx'))


def flist(op):
    """None for an operation that is not a filter-list operation, else its normal form:
    kind 'glob'|'rx', inc, held, o (LOp name), route, a, b, i, vs / v (raw values: glob pairs or
    regex source texts)"""
    if op['k'] not in FLIST_OPS:
        return None
    kind, suffix = FLIST_OPS[op['k']]
    o, route = _FL[suffix]
    f = {'kind': kind, 'inc': bool(op['inc']), 'held': bool(op.get('held')) and route == 'list',
         'o': o, 'route': route, 'suffix': suffix}
    many, one = ('gs', 'g') if kind == 'glob' else ('ps', 'p')
    if o in ('setSlice', 'extend', 'iaddAttr'):
        f['vs'] = [v for v in op[many]]
    if o in ('setIndex', 'append', 'insert', 'remove'):
        f['v'] = op[one]
    if suffix == 'Set':
        f['a'], f['b'] = 0, None
    elif suffix in ('SetSlice', 'DelSlice'):
        f['a'], f['b'] = op['a'], op.get('b')
    if o in ('setIndex', 'del', 'insert'):
        f['i'] = op['i']
    if o == 'pop':
        f['i'] = op.get('i')              # None: `lst.pop()`
    return f


def flist_attr(f):
    return ('include_' if f['inc'] else 'exclude_') + ('globs' if f['kind'] == 'glob' else 'regexs')


def flist_key(f):
    return ('in' if f['inc'] else 'ex') + ('Globs' if f['kind'] == 'glob' else 'Regexs')


def _raw(f, v):
    """the Python value handed to torf"""
    return glob_str(v) if f['kind'] == 'glob' else v


def to_driver(op):
    """the operation as the Lean driver reads it (filter-list operations in the generic form,
    regular expressions as shapes of the model)"""
    f = flist(op)
    if f is None:
        return op
    item = (lambda g: list(g)) if f['kind'] == 'glob' else rx_shape
    d = {'k': 'flist', 'kind': f['kind'], 'inc': f['inc'], 'o': f['o']}
    if 'vs' in f:
        d['vs'] = [item(v) for v in f['vs']]
    if 'v' in f:
        d['v'] = item(f['v'])
    for key in ('a', 'b', 'i'):
        if key in f:
            d[key] = f[key]
    if f['o'] == 'pop' and f['i'] is None:
        d['i'] = -1                       # MutableSequence.pop(self, index=-1)
    bad = [x for x in d.get('vs', []) + ([d['v']] if 'v' in d else []) if x[0] == 'other']
    assert not bad, 'pattern outside the shapes of the model: %r' % (bad,)
    return d


def model_state(m):
    """driver state -> the representation `project` uses (regular expressions as source texts)"""
    m = dict(m)
    for k in ('exRegexs', 'inRegexs'):
        m[k] = [rx_str(x) for x in m[k]]
    return m


def dedup_first(xs):
    out = []
    for x in xs:
        if x not in out:
            out.append(x)
    return out


def ref_list(pre, f, valid=lambda v: True):
    """What the filter list must hold after the operation `f` (normal form) if it holds `pre`
    before and the callback does not raise: Python's own list semantics + every item once, the
    first occurrence wins; an operation that is given an item `valid` rejects (or an index out of
    range) leaves the list as it is — `extend` / `+=` keep the items before the rejected one.
    Returns (list, outcome) with outcome 'ok' | 're.error' | 'IndexError'."""
    l = list(pre)
    o = f['o']
    if o == 'setSlice':
        if not all(valid(v) for v in f['vs']):
            return l, 're.error'
        l[f['a']:f['b']] = list(f['vs'])
        return dedup_first(l), 'ok'
    if o == 'setIndex':
        if not valid(f['v']):
            return l, 're.error'
        try:
            l[f['i']] = f['v']
        except IndexError:
            return list(pre), 'IndexError'
        return dedup_first(l), 'ok'
    if o == 'append':
        if not valid(f['v']):
            return l, 're.error'
        return (l if f['v'] in l else l + [f['v']]), 'ok'
    if o in ('extend', 'iaddAttr'):
        for v in f['vs']:
            if not valid(v):
                return l, 're.error'
            if v not in l:
                l.append(v)
        return dedup_first(l), 'ok'
    if o == 'del':
        if l:
            del l[f['i'] % len(l)]
        return l, 'ok'
    if o == 'clear':
        return [], 'ok'
    if o == 'assignSelf':
        return dedup_first(l), 'ok'
    if o == 'insert':
        if not valid(f['v']):
            return l, 're.error'
        if f['v'] not in l:
            l.insert(f['i'], f['v'])
        return l, 'ok'
    if o == 'pop':
        try:
            l.pop() if f['i'] is None else l.pop(f['i'])
        except IndexError:
            return list(pre), 'IndexError'
        return l, 'ok'
    if o == 'remove':
        if f['v'] not in l:
            return l, 'ValueError'
        l.remove(f['v'])
        return l, 'ok'
    if o == 'delSlice':
        del l[f['a']:f['b']]
        return l, 'ok'
    if o == 'reverse':
        l.reverse()
        return l, 'ok'
    raise AssertionError(o)


def _iadd_attr(t, name, vs):
    # literally `torrent.<name> += vs`: getter, MutableSequence.__iadd__, then the SETTER with the list itself
    if name == 'exclude_globs':
        t.exclude_globs += vs
    elif name == 'include_globs':
        t.include_globs += vs
    elif name == 'exclude_regexs':
        t.exclude_regexs += vs
    else:
        t.include_regexs += vs


def _assign_self(t, name):
    # literally `torrent.<name> = torrent.<name>`
    if name == 'exclude_globs':
        t.exclude_globs = t.exclude_globs
    elif name == 'include_globs':
        t.include_globs = t.include_globs
    elif name == 'exclude_regexs':
        t.exclude_regexs = t.exclude_regexs
    else:
        t.include_regexs = t.include_regexs


def do_flist(t, f, held):
    name = flist_attr(f)
    suffix = f['suffix']
    if suffix == 'Set':                   # `torrent.x = [...]` (the setter does `lst[:] = value`)
        setattr(t, name, [_raw(f, v) for v in f['vs']])
        return
    if suffix == 'SetSelf':
        _assign_self(t, name)
        return
    if suffix == 'IaddAttr':
        _iadd_attr(t, name, [_raw(f, v) for v in f['vs']])
        return
    if f['held'] and held is not None:
        key = (f['kind'], f['inc'])
        if key not in held:
            held[key] = getattr(t, name)
        lst = held[key]
    else:
        lst = getattr(t, name)
    if suffix == 'SetSlice':
        lst[f['a']:f['b']] = [_raw(f, v) for v in f['vs']]
    elif suffix == 'SetIndex':
        lst[f['i']] = _raw(f, f['v'])
    elif suffix == 'Append':
        lst.append(_raw(f, f['v']))
    elif suffix == 'Extend':
        lst.extend([_raw(f, v) for v in f['vs']])
    elif suffix == 'Iadd':                # `lst += [...]` on a local name: in-place extend, no setter
        lst += [_raw(f, v) for v in f['vs']]
    elif suffix == 'SliceSelf':           # `lst[:] = lst`
        lst[:] = lst
    elif suffix == 'Del':
        if len(lst):
            del lst[f['i'] % len(lst)]
    elif suffix == 'Clear':
        lst.clear()
    elif suffix == 'Insert':
        lst.insert(f['i'], _raw(f, f['v']))
    elif suffix == 'Pop':
        if f['i'] is None:
            lst.pop()
        else:
            lst.pop(f['i'])
    elif suffix == 'Remove':
        # remove() does not coerce: a regex list is searched for the compiled pattern (a text that
        # does not compile cannot be in the list and is handed over as it is)
        v = _raw(f, f['v'])
        lst.remove(re.compile(v) if f['kind'] == 'rx' and rx_valid(v) else v)
    elif suffix == 'DelSlice':
        del lst[f['a']:f['b']]
    elif suffix == 'Reverse':
        lst.reverse()
    else:
        raise AssertionError(suffix)


def do_op(torf, t, op, root, held=None):
    k = op['k']
    f = flist(op)
    if f is not None:
        do_flist(t, f, held)
        return 'ok'
    if k == 'setPath':
        t.path = None if op['p'] is None else spell(real(root, op['p']), op.get('sp'))
    elif k == 'setFiles':
        t.files = [torf.File(real(root, p), size=n) for p, n in op['fs']]
    elif k == 'filesDel':
        fs = t.files
        if len(fs):
            del fs[op['i'] % len(fs)]
    elif k == 'filesAppend':
        p, n = op['f']
        t.files.append(torf.File(real(root, p), size=n))
    elif k == 'filesClear':
        t.files.clear()
    elif k == 'setFilepaths':
        sps = op.get('sp') or [None] * len(op['ps'])
        t.filepaths = [spell(real(root, p), sp) for p, sp in zip(op['ps'], sps)]
    elif k == 'fpDel':
        fp = t.filepaths
        if len(fp):
            del fp[op['i'] % len(fp)]
    elif k == 'fpAppend':
        t.filepaths.append(spell(real(root, op['p']), op.get('sp')))
    elif k == 'fpClear':
        t.filepaths.clear()
    elif k == 'setName':
        t.name = op['n']
    elif k == 'setPieceSize':
        t.piece_size = op['v']
    elif k == 'setMin':
        t.piece_size_min = op['v']
    elif k == 'setMax':
        t.piece_size_max = op['v']
    elif k == 'generate':
        r = t.generate(threads=op.get('threads', 1))
        if r is not True:
            return 'generate-returned-%r' % (r,)
    elif k == 'setComment':
        t.comment = op['c']
    else:
        raise AssertionError('unknown op ' + k)
    return 'ok'


MODES = {None: 0, 'singlefile': 1, 'multifile': 2}
UNRELATED_INFO_KEYS = {'private', 'source', 'entropy'}


def project(t, root):
    """API-level projection of a Torrent (same shape as the driver's `stateJson`)."""
    info = t.metainfo['info']
    pieces = info.get('pieces')
    try:
        num_pieces = t.pieces if t.size < BEYOND_FLOAT else None
    except OverflowError:
        # `Torrent.pieces` divides in floating point: with a listed size beyond the range of a float
        # (only ever left behind by a content operation that failed for the same reason) the getter
        # itself raises; the count is then not compared
        num_pieces = None
    return {
        'name': info.get('name'),
        'mode': MODES[t.mode],
        'length': info.get('length'),
        'files': ([[list(f['path']), f['length']] for f in info['files']] if 'files' in info else None),
        'path': abstract(root, t.path),
        'pl': info.get('piece length'),
        'pieces': (len(pieces) // 20 if pieces is not None else None),
        'pmin': t.piece_size_min, 'pmax': t.piece_size_max,
        'exGlobs': [glob_of_str(g) for g in t.exclude_globs],
        'inGlobs': [glob_of_str(g) for g in t.include_globs],
        'exRegexs': [getattr(r, 'pattern', repr(r)) for r in t.exclude_regexs],
        'inRegexs': [getattr(r, 'pattern', repr(r)) for r in t.include_regexs],
        'filterTypesOk': (all(isinstance(g, str) for g in list(t.exclude_globs) + list(t.include_globs)) and
                          all(isinstance(r, re.Pattern) for r in list(t.exclude_regexs) + list(t.include_regexs))),
        'size': t.size, 'numPieces': num_pieces,
        'listed': [[list(f.parts), f.size] for f in t.files],
        'filepaths': [abstract(root, fp) for fp in t.filepaths],
        'ready': t.is_ready,
        'comment': t.comment,
        'keys': sorted(k for k in info if k not in UNRELATED_INFO_KEYS),
    }


def model_keys(m):
    ks = []
    if m['name'] is not None:
        ks.append('name')
    if m['mode'] == 1:
        ks.append('length')
    if m['mode'] == 2:
        ks.append('files')
    if m['pl'] is not None:
        ks.append('piece length')
    if m['pieces'] is not None:
        ks.append('pieces')
    return sorted(ks)


def mult16(n):
    return isinstance(n, int) and n > 0 and n % K == 0


def fresh_pieces(t, obs, root):
    """SHA-1 of the consecutive piece-length chunks of the listed files as they are on disk
    now, for the current layout and piece length (independent of torf's hashing code)."""
    pl = obs['pl']
    path = os.fspath(t.path)
    if obs['mode'] == 1:
        fps = [path]
    else:
        fps = [os.path.join(path, *p) for p, _ in obs['files']]
    out = []
    buf = b''
    for fp in fps:
        with open(fp, 'rb') as f:
            buf += f.read()
        while len(buf) >= pl:
            out.append(hashlib.sha1(buf[:pl]).digest())
            buf = buf[pl:]
    if buf:
        out.append(hashlib.sha1(buf).digest())
    return b''.join(out)


def spec_check(torf, t, obs, root, detached=False, after_failed_recalc=False):
    """Property C09 evaluated on the real object.  Returns a list of deviation codes.
    `detached`: the object is a copy() that inherited its hashes and has had no content path since
    (like a torrent read from a file): hashes / readiness without a content path are not deviations.
    `after_failed_recalc`: an earlier operation failed inside the recalculation of the piece length
    and no content / piece-size assignment has completed since: "content has a piece length" is not
    demanded (theorems C09_weak_step / C09_inv_recovers); everything else is."""
    dev = []
    info = t.metainfo['info']
    pmin, pmax, pl = obs['pmin'], obs['pmax'], obs['pl']
    if not (mult16(pmin) and mult16(pmax)):
        dev.append('bound-not-multiple-of-16KiB')
    if not pmin <= pmax:
        dev.append('min>max')
    if pl is not None:
        if not mult16(pl):
            dev.append('pl-not-multiple-of-16KiB')
        else:
            if pl < pmin:
                dev.append('pl<min')
            if pl > pmax:
                dev.append('pl>max')
    listed_sum = sum(n for _, n in obs['listed'])
    info_sum = obs['length'] if obs['mode'] == 1 else (sum(n for _, n in obs['files']) if obs['mode'] == 2 else 0)
    if obs['size'] != listed_sum or obs['size'] != info_sum:
        dev.append('size!=sum')
    nl = len(obs['listed'])
    if (obs['mode'] == 0) != (nl == 0) or (obs['mode'] == 1 and nl != 1) or \
            ('length' in info and 'files' in info):
        dev.append('mode-mismatch')
    if obs['mode'] == 2 and len(obs['files']) == 1 and len(obs['files'][0][0]) == 0:
        # one file that is not in a directory is a single-file torrent: `length` + name, no `files`
        dev.append('files-entry-with-empty-path')
    if obs['size'] > 0 and pl is None and not after_failed_recalc:
        dev.append('no-piece-length')
    if pl and obs['size'] > 0 and obs['numPieces'] is not None and obs['numPieces'] != -(-obs['size'] // pl):
        dev.append('pieces-property!=ceil')
    if 'pieces' in info:
        raw = info['pieces']
        if not pl or obs['size'] <= 0 or len(raw) % 20 or len(raw) // 20 != -(-obs['size'] // pl):
            dev.append('piece-count!=ceil')
        if t.path is None:
            if not detached:
                dev.append('pieces-without-path')
        elif pl and mult16(pl):
            try:
                fresh = fresh_pieces(t, obs, root)
            except OSError:
                fresh = None
            if fresh != raw:
                dev.append('stale-pieces')
    if obs['ready']:
        if t.path is None:
            if not detached:
                dev.append('ready-without-path')
        else:
            try:
                r = t.verify(os.fspath(t.path), threads=1)
                if r is not True:
                    dev.append('verify-returned-%r' % (r,))
            except torf.TorfError as e:
                dev.append('verify-raised-' + type(e).__name__)
    return dev


def op_patterns(op):
    """the regex source texts an operation hands to a regex filter list"""
    f = flist(op)
    if f is None or f['kind'] != 'rx':
        return []
    return list(f.get('vs', [])) + ([f['v']] if 'v' in f else [])


def expected_listed(tree, obs):
    """What `path = <world tree>` must list under the filter lists that ARE in the torrent now
    (read back in `obs`): hidden files are left out, a file is kept if an include pattern matches,
    otherwise dropped if an exclude pattern matches; patterns see `<tree name>/<relative path>`
    (regex: search; glob: case-insensitive fnmatch).  Independent of torf's filter_files."""
    spec = TREES[tree]
    cands = [([tree], spec)] if isinstance(spec, int) else \
            [([tree] + rel.split('/'), sz) for rel, sz in spec.items()]
    in_g = [glob_str(g) if g[0] != 'other' else g[1] for g in obs['inGlobs']]
    ex_g = [glob_str(g) if g[0] != 'other' else g[1] for g in obs['exGlobs']]
    keep = []
    for comps, sz in cands:
        if any(c.startswith('.') for c in comps[1:]):
            continue
        s = '/'.join(comps)
        if any(re.search(p, s) for p in obs['inRegexs']) or any(fnmatch.fnmatchcase(s.casefold(), g.casefold()) for g in in_g):
            keep.append([comps, sz])
        elif any(re.search(p, s) for p in obs['exRegexs']) or any(fnmatch.fnmatchcase(s.casefold(), g.casefold()) for g in ex_g):
            continue
        else:
            keep.append([comps, sz])
    return sorted(keep)


def _filters(o):
    return (o['exGlobs'], o['inGlobs'], o['exRegexs'], o['inRegexs'])


def _content(o):
    return (o['mode'], o['length'], o['files'], o['pl'], o['path'])


def filter_codes(op, res, pre, obs, tree, faults=()):
    """The filter clauses of C09 on the real object: the filter lists hold what was assigned
    (every item once, only patterns); the listed files follow the filters that are actually in the
    lists; hashes do not survive a change of filters / files / piece length; an invalid regular
    expression is rejected with re.error (and a valid one is not), an index out of range with
    IndexError; a rejected single assignment / append changes nothing."""
    dev = []
    if not obs['filterTypesOk']:
        dev.append('filter-list-holds-a-non-pattern')      # e.g. None instead of the pattern that was given
    if tree is not None:
        # compared without the first path component (the torrent's name, which `name = …` may change)
        got = sorted(obs['files']) if obs['mode'] == 2 else [[[], obs['length']]] if obs['mode'] == 1 else []
        if got != [[comps[1:], sz] for comps, sz in expected_listed(tree, obs)]:
            dev.append('files-do-not-follow-filters')
    if pre is not None and op['k'] != 'generate' and pre['pieces'] is not None and obs['pieces'] is not None:
        if _filters(pre) != _filters(obs):
            dev.append('pieces-survived-filter-change')
        if _content(pre) != _content(obs):
            dev.append('pieces-survived-content-change')
    f = flist(op)
    if f is not None:
        # remove() compares with the stored items and never compiles its argument
        bad = [p for p in op_patterns(op) if not rx_valid(p)] if f['o'] != 'remove' else []
        if bad and res != 're.error' and not failed_recalc(op, res, faults):
            # (a batch update whose callback fails first never reaches the invalid item)
            dev.append('invalid-regex-not-rejected')
        if not bad and res == 're.error':
            dev.append('valid-regex-rejected')
        if pre is not None:
            key = flist_key(f)
            valid = rx_valid if f['kind'] == 'rx' else (lambda v: True)
            want, outcome = ref_list(pre[key], f, valid)
            if outcome == 'IndexError' and res != 'IndexError':
                dev.append('index-out-of-range-not-rejected')
            if outcome != 'IndexError' and res == 'IndexError':
                dev.append('index-in-range-rejected')
            if outcome == 'ValueError' and res != 'ValueError':
                dev.append('removal-of-absent-item-not-rejected')
            if outcome != 'ValueError' and res == 'ValueError':
                dev.append('removal-of-present-item-rejected')
            if res == outcome:
                # accepted: the list holds the assigned items, each once, first occurrence first;
                # rejected: a single assignment / append leaves the list alone, extend / += keep
                # the items before the rejected one
                if obs[key] != want:
                    dev.append('filter-list-differs-from-assignment')
                if any(obs[k2] != pre[k2] for k2 in ('exGlobs', 'inGlobs', 'exRegexs', 'inRegexs') if k2 != key):
                    dev.append('other-filter-list-changed')
            # an edit that raises anything but an error of the callback (a TorfError: the list is
            # changed by then) must not have touched the torrent
            if res != 'ok' and res not in DOCUMENTED and not failed_recalc(op, res, faults) and \
                    f['o'] in ('setSlice', 'setIndex', 'append', 'assignSelf', 'insert', 'pop', 'remove', 'reverse',
                               'del', 'delSlice', 'clear') and \
                    (_filters(pre) != _filters(obs) or _content(pre) != _content(obs) or pre['pieces'] != obs['pieces']):
                dev.append('rejected-filter-assignment-changed-state')
            # what is filtered does not depend on the order of the patterns (while the file list is
            # the one read from the content path: the callback re-reads that path, which replaces a
            # hand-edited file list whatever the filter edit was)
            if f['o'] == 'reverse' and tree is not None and (pre['mode'], pre['length'], pre['files']) != (obs['mode'], obs['length'], obs['files']):
                dev.append('reversing-a-filter-list-changed-the-file-list')
    return dev


def tree_after(op, res, tree):
    """which world tree the file list was last read from by `path = <tree>` (None: unknown / the
    list was edited by hand since)"""
    k = op['k']
    if k == 'setPath':
        p = op['p']
        ok = res == 'ok' and p is not None and len(p) == 3 and p[:2] == ROOT and p[2] in TREES
        return p[2] if ok else None
    if k in ('setFiles', 'filesDel', 'filesAppend', 'filesClear', 'setFilepaths', 'fpDel', 'fpAppend', 'fpClear'):
        return None
    return tree


DOCUMENTED = {'PieceSizeError', 'PathError', 'CommonPathError', 'ReadError', 'RuntimeError'}


class _Timeout(BaseException):
    pass


def _alarm(signum, frame):
    raise _Timeout()


BOUND_CODES = {'min>max', 'pl<min', 'pl>max'}


def _resumable(ops, k, dev):
    """A deviation confined to the bounds directly after a bound assignment, and the next operation
    assigns the same bound again: keep going, so that the corrective assignment can be checked
    (D09b narrowed, theorem C09_inv_corrected_step; whether the next operation really is
    corrective is decided by the driver's `hypC`)."""
    return (set(dev) <= BOUND_CODES and ops[k]['k'] in ('setMin', 'setMax')
            and k + 1 < len(ops) and ops[k + 1]['k'] == ops[k]['k'])


RECALC_OPS = {'setPath', 'setFiles', 'filesDel', 'filesAppend', 'filesClear', 'setFilepaths', 'fpDel', 'fpAppend',
              'fpClear'}
RESTORING_OPS = {'setFiles', 'filesAppend', 'filesClear', 'setFilepaths', 'fpAppend', 'fpClear', 'setPieceSize'}


def recalculates(op):
    """the operation ends with (or is) `piece_size = None`: a content assignment, an edit of a file /
    filter list, `piece_size = None` itself"""
    return op['k'] in RECALC_OPS or op['k'] in FLIST_OPS or (op['k'] == 'setPieceSize' and op['v'] is None)


def failed_recalc(op, res, faults):
    """the operation raised one of the exception kinds a failing recalculation raises in this world"""
    return res != 'ok' and recalculates(op) and res in faults


def restoring(op, res):
    """a completed content / piece-size assignment (the model's `restores`)"""
    return res == 'ok' and (op['k'] in RESTORING_OPS or (op['k'] == 'setPath' and op['p'] is not None))


def exec_op(torf, t, op, root, held, faults=()):
    """run one operation on one object: (outcome kind, deviation codes of the call itself).
    `faults`: the exception kinds of a failing recalculation (`fault_names`) - whether they are the
    right ones is judged against the model's outcome, they are not "undocumented" (C09 is about
    the hashes and the coherence of the attributes, not about error kinds)"""
    dev = []
    try:
        res = do_op(torf, t, op, root, held)
        if res != 'ok':
            dev.append(res)
    except torf.TorfError as e:
        res = type(e).__name__
    except re.error as e:
        # the documented exception of the regex filter lists; anywhere else it is undocumented
        res = 're.error' if op['k'] in RX_OPS else 're.error-outside-regex-filter-operation'
    except IndexError as e:
        # what `lst[i] = v` on a filter list raises for an index out of range
        res = 'IndexError' if op['k'] in INDEX_OPS else 'IndexError-outside-index-assignment'
    except RuntimeError as e:
        res = 'RuntimeError'
    except ValueError as e:
        # what `lst.remove(x)` raises for an item that is not in the list
        res = 'ValueError' if op['k'] in REMOVE_OPS else 'ValueError-outside-remove'
    except _Timeout:
        raise
    except Exception as e:   # noqa: undocumented exception type
        res = type(e).__name__
    if res != 'ok' and res not in DOCUMENTED and res not in ('re.error', 'IndexError', 'ValueError') and not res.startswith('generate-') \
            and not failed_recalc(op, res, faults):
        dev.append('undocumented-exception-' + res)
    return res, dev


WEAK_IGNORED = BOUND_CODES | {'no-piece-length'}


def _generate_without_piece_length(op, res, dev, pre, half_way):
    """`generate()` on content that an earlier FAILED content assignment left without a piece length
    (the recalculation raised after the file list was stored): the hashing loop ends in
    `ValueError: range() arg 3 must not be zero`.  That is the consequence of the half-way state
    (recorded with D09b / the candidate D09h), not a second deviation: it is reported to the caller
    as the model's outcome for this state."""
    code = 'undocumented-exception-ValueError-outside-remove'
    if op['k'] == 'generate' and half_way and code in dev and pre is not None and pre['pl'] is None and pre['size'] > 0:
        dev.remove(code)
        return 'internal:no piece length'
    return res


def run_history(torf, ops, root, stop_on_deviation=True, timeout=60, rules=None):
    """Run one history on a fresh Torrent (of the class `make_class(torf, rules)`).  Returns the list
    of steps {'obs':…, 'res':…, 'dev': [codes], 'lenient': bool} (truncated after the first deviation,
    unless `_resumable`, or the deviation is confined to the bounds directly after a bound assignment
    - the region of D09b: the history goes on and the caller judges the later steps by the clauses
    that hold without hypothesis, `WEAK_IGNORED` aside)."""
    steps = []
    old = signal.signal(signal.SIGALRM, _alarm)
    signal.alarm(timeout)
    init = None
    try:
        try:
            t = make_class(torf, rules)()
            init = project(t, root)
        except _Timeout:
            raise
        except Exception as e:   # noqa: a fresh Torrent() cannot even be built / inspected
            return {'init': None, 'steps': [{'obs': None, 'res': type(e).__name__,
                                             'dev': ['constructor-raised-' + type(e).__name__]}]}
        held = {}
        tree = None
        pre = init
        faults = fault_names(rules)
        lenient = False      # a recalculation failed and no content / piece-size assignment completed since
        weak = False         # region of D09b: the bounds crossed
        for op in ops:
            res, dev = exec_op(torf, t, op, root, held, faults)
            obs = project(t, root)
            if failed_recalc(op, res, faults):
                lenient = True
            elif restoring(op, res):
                lenient = False
            res = _generate_without_piece_length(op, res, dev, pre, lenient or weak)
            dev += spec_check(torf, t, obs, root, after_failed_recalc=lenient)
            tree = tree_after(op, res, tree)
            dev += filter_codes(op, res, pre, obs, tree, faults)
            pre = obs
            steps.append({'obs': obs, 'res': res, 'dev': dev, 'lenient': lenient})
            if dev and stop_on_deviation and not _resumable(ops, len(steps) - 1, dev):
                if set(dev) <= WEAK_IGNORED and (weak or op['k'] in ('setMin', 'setMax')):
                    weak = True
                    continue
                break
    except _Timeout:
        steps.append({'obs': None, 'res': 'timeout', 'dev': ['timeout']})
    finally:
        signal.alarm(0)
        signal.signal(signal.SIGALRM, old)
    return {'init': init, 'steps': steps}


# ---------------------------------------------------------------------------------------------
# two objects: Torrent.copy()

INDEPENDENT_KEYS = None     # the whole projection


def _pieces_raw(t):
    return t.metainfo['info'].get('pieces')


def run_history2(torf, ops, root, timeout=90, rules=None):
    """A history on TWO objects (both start as Torrent()).  op['on'] (0|1, default 0) selects the
    object; {'k': 'copy', 'on': i} is `other = objs[i].copy()`.  After every step BOTH objects are
    projected; the C09 clauses are evaluated on the object that was worked on (for a copy: on the new
    object), and independence on the other: its projection and its raw hashes are exactly as before.
    Steps: {'obs': [obs0, obs1], 'res', 'dev'}; stops at the first deviation."""
    steps = []
    old = signal.signal(signal.SIGALRM, _alarm)
    signal.alarm(timeout)
    init = None
    try:
        try:
            cls = make_class(torf, rules)
            objs = [cls(), cls()]
            init = project(objs[0], root)
        except _Timeout:
            raise
        except Exception as e:   # noqa
            return {'init': None, 'steps': [{'obs': None, 'res': type(e).__name__,
                                             'dev': ['constructor-raised-' + type(e).__name__]}]}
        held = [{}, {}]
        tree = [None, None]
        detached = [False, False]
        faults = fault_names(rules)
        lenient = [False, False]
        pre = [init, project(objs[1], root)]
        praw = [None, None]
        for op in ops:
            i = int(op.get('on', 0))
            j = 1 - i
            if op['k'] == 'copy':
                dev = []
                try:
                    objs[j] = objs[i].copy()
                    res = 'ok'
                except _Timeout:
                    raise
                except Exception as e:   # noqa
                    res = type(e).__name__
                    dev.append('undocumented-exception-' + res)
                held[j] = {}
                tree[j] = None
                lenient[j] = lenient[i]
                obs = [None, None]
                obs[i] = project(objs[i], root)
                obs[j] = project(objs[j], root)
                detached[j] = obs[j]['pieces'] is not None and obs[j]['path'] is None
                if obs[i] != pre[i] or _pieces_raw(objs[i]) != praw[i]:
                    dev.append('copy-changed-the-original')
                # "a new Torrent instance with the same metainfo"
                same = ('name', 'mode', 'length', 'files', 'pl', 'pieces', 'comment', 'keys', 'size')
                if any(obs[j][k2] != obs[i][k2] for k2 in same) or _pieces_raw(objs[j]) != _pieces_raw(objs[i]) \
                        or objs[j] is objs[i]:
                    dev.append('copy-differs-from-original')
                dev += spec_check(torf, objs[j], obs[j], root, detached[j], lenient[j])
                dev += filter_codes(op, res, None, obs[j], None)
            else:
                res, dev = exec_op(torf, objs[i], op, root, held[i], faults)
                obs = [None, None]
                obs[i] = project(objs[i], root)
                obs[j] = project(objs[j], root)
                if obs[i]['pieces'] is None or obs[i]['path'] is not None:
                    detached[i] = False
                if failed_recalc(op, res, faults):
                    lenient[i] = True
                elif restoring(op, res):
                    lenient[i] = False
                res = _generate_without_piece_length(op, res, dev, pre[i], lenient[i])
                dev += spec_check(torf, objs[i], obs[i], root, detached[i], lenient[i])
                tree[i] = tree_after(op, res, tree[i])
                dev += filter_codes(op, res, pre[i], obs[i], tree[i], faults)
                if obs[j] != pre[j] or _pieces_raw(objs[j]) != praw[j]:
                    changed = sorted(k2 for k2 in obs[j] if obs[j][k2] != pre[j][k2]) or ['pieces(bytes)']
                    dev.append('operation-on-one-object-changed-the-other(' + ','.join(changed) + ')')
            pre = obs
            praw = [_pieces_raw(objs[0]), _pieces_raw(objs[1])]
            steps.append({'obs': obs, 'res': res, 'dev': dev})
            if dev:
                break
    except _Timeout:
        steps.append({'obs': None, 'res': 'timeout', 'dev': ['timeout']})
    finally:
        signal.alarm(0)
        signal.signal(signal.SIGALRM, old)
    return {'init': init, 'steps': steps}
