"""
Content trees and torrent objects for the real-code side of the correspondence checks.

A *layout* is a list of files `{'path': [components…], 'size': n}` in metainfo order plus a
torrent name; content is deterministic pseudo-random bytes derived from (seed, file index).
"""
import os
import random
import shutil


def file_bytes(seed, idx, size):
    return random.Random(seed * 1000003 + idx * 7919 + 17).randbytes(size) if size else b''


def make_tree(root, name, files, seed=0, single=False):
    """Create the files on disk under root/name (or the single file root/name).
    Returns the list of contents in layout order."""
    top = os.path.join(root, name)
    if os.path.lexists(top):
        if os.path.isdir(top):
            shutil.rmtree(top)
        else:
            os.unlink(top)
    contents = []
    if single:
        assert len(files) == 1
        b = file_bytes(seed, 0, files[0]['size'])
        os.makedirs(root, exist_ok=True)
        with open(top, 'wb') as f:
            f.write(b)
        return [b]
    os.makedirs(top, exist_ok=True)
    for i, fl in enumerate(files):
        p = os.path.join(top, *fl['path'])
        os.makedirs(os.path.dirname(p), exist_ok=True)
        b = file_bytes(seed, i, fl['size'])
        with open(p, 'wb') as f:
            f.write(b)
        contents.append(b)
    return contents


def make_torrent(torf, root, name, files, L, single=False, via_setter=False, with_path=True):
    """Torrent object whose metainfo lists `files` in exactly the given order (zero-length
    entries included) with piece length L.  The content path is root/name."""
    top = os.path.join(root, name)
    t = torf.Torrent()
    if with_path:
        t._path = __import__('pathlib').Path(top)
    info = t.metainfo['info']
    info['name'] = name
    if single:
        info['length'] = files[0]['size']
    else:
        info['files'] = [{'length': f['size'], 'path': list(f['path'])} for f in files]
    if via_setter:
        t.piece_size = L
    else:
        info['piece length'] = L
    return t


def pieces_from_runs(model_pieces, contents):
    """model piece = list of [file, offset, length] runs → bytes"""
    out = []
    for runs in model_pieces:
        out.append(b''.join(contents[f][o:o + n] for f, o, n in runs))
    return out
