"""
C20 — the size check in a *world* and with *typed* lengths (Lean: Torf.Model.FileSizeEnv, theorems
C20_env_refines, C20_depends_only_on_stat, C20_depends_only_on_value, … in Properties/C20Env.lean).

Two dimensions that no other C20 generator has:

1. **The process environment / OS faults that the size check does not need.**  The verdict must be a function of
   what `exists` / `isdir` / `getsize` answer for the listed paths.  Every case is run twice on the same tree: in the
   plain world and in a world that answers every *stat* question alike but in which nothing can be opened:

   * `nofd`    — no free file descriptor: the soft RLIMIT_NOFILE of the worker is lowered to (highest open
                 descriptor + 1) and every hole below it is plugged with `dup`; `open`, `os.open`, `listdir`,
                 `scandir` then fail with EMFILE, `stat` does not care.  Real.
   * `nobody`  — the call runs with effective uid/gid 65534 on a tree whose files have mode 000 and whose
                 directories have mode 711 (searchable, not listable): `stat` answers, `open` and `os.access(R_OK)`
                 and `listdir` of the parent say EACCES.  Real (needs a root harness; otherwise the world is plain).
   * `inject`  — `builtins.open` / `io.open` / `os.open` raise EIO | EACCES | EMFILE | ENFILE | EINTR | ETXTBSY for
                 every path at or below the content path (flavour `at: read`: the file opens, every read / seek of
                 it fails), `os.access` answers False there, `os.listdir` /
                 `os.scandir` fail for the content directory and the parents of listed files.  Injected (the
                 functions of the `os` / `io` / `builtins` modules are replaced in the forked worker while the call runs).
   * a FIFO standing where a file is listed (stat: not a directory, size 0) in any of these worlds: opening it
     would block for ever; every call runs under an interval timer and "does not return" is an outcome.

   Both runs are compared with the Lean model / specification evaluated on the stat answers (planned by the
   generator, and measured by the harness with `os.stat` inside the very same world: a difference is a machinery
   error), and with each other.

2. **The Python type of the recorded lengths.**  `validate()` accepts `int` (hence `bool`) and whole-number `float`;
   `partial_size` hands the stored object to the comparison and to the error.  Lengths are generated as int, float
   (5.0, 2.0**53, -0.0), bool, and — expecting `MetainfoError` before anything else happens — as fractional /
   negative / non-finite floats, negative ints, and non-numbers; sizes up to 2**60 on sparse files (the comparison
   of 2**53 + 1 bytes with 2.0**53 must be exact).

case = {name, single, files: [{path, size, len: {t, v[, negzero]}}], disk: [state], env: {kind, …}, top, pl, cseed}
"""
import decimal
import errno
import fractions
import os
import pathlib
import shutil
import signal
import stat as statmod

from harness import common
from harness.gen import layouts
from harness.impl import content
from harness.impl import c20path

K = 16384
NOBODY = 65534
BIG = 1 << 22                     # files larger than this are sparse
TIMEOUT = 2.0                     # one call on <= 6 files takes about a millisecond


_HANGS = 0                        # calls that did not return, in this worker process


class Hang(BaseException):
    pass


# --------------------------------------------------------------------------------------------
# typed lengths

def pyobj(d):
    """the Python object to store in the metainfo for a length description"""
    t, v = d['t'], d.get('v', 0)
    if t == 'int':
        return v
    if t == 'bool':
        return bool(v)
    if t == 'float':
        if d.get('negzero'):
            return -0.0
        f = float(v)
        assert f == v and int(f) == v, v
        return f
    if t == 'frac':
        return v + 0.5
    if t == 'nonfinite':
        return [float('nan'), float('inf'), float('-inf')][v % 3]
    if t == 'other':
        return [str(v), None, decimal.Decimal(v), fractions.Fraction(v), [v], b'%d' % v, complex(v)][v % 7]
    raise AssertionError(t)


def num_valid(d):
    return (d['t'] in ('int', 'float') and d['v'] >= 0) or d['t'] == 'bool'


def num_value(d):
    return (int(bool(d['v'])) if d['t'] == 'bool' else d['v']) if num_valid(d) else 0


def lean_num(d):
    return {'t': d['t'], 'v': d.get('v', 0)}


# --------------------------------------------------------------------------------------------
# the worlds

class World:
    """the environment of one call; active only between __enter__ and __exit__ (forked worker only)"""

    def __init__(self, env, root, dirs):
        self.env = env
        self.root = os.path.normpath(root)
        self.dirs = {os.path.normpath(d) for d in dirs}      # content directory + parents of listed files
        self.kind = env['kind']
        if self.kind == 'nobody' and os.geteuid() != 0:
            self.kind = 'plain'

    def _under(self, p):
        try:
            q = os.fspath(p)
        except TypeError:
            return False
        if isinstance(q, bytes):
            q = os.fsdecode(q)
        if not isinstance(q, str):
            return False
        q = os.path.normpath(os.path.abspath(q))
        return q == self.root or q.startswith(self.root + os.sep)

    def __enter__(self):
        k = self.kind
        if k == 'inject':
            import builtins
            import io
            en = getattr(errno, self.env['errno'])
            real_open, real_ioopen, real_osopen = builtins.open, io.open, os.open
            real_listdir, real_scandir, real_access = os.listdir, os.scandir, os.access
            self._saved = (real_open, real_ioopen, real_osopen, real_listdir, real_scandir, real_access)
            under, dirs = self._under, self.dirs

            def fail(p):
                raise OSError(en, os.strerror(en), os.fspath(p))

            readfault = self.env.get('at') == 'read'

            def f_open(file, *a, **kw):
                if not isinstance(file, int) and under(file):
                    if readfault:
                        return FaultyFile(real_open(file, *a, **kw), en)
                    fail(file)
                return real_open(file, *a, **kw)

            def f_osopen(path, *a, **kw):
                if under(path):
                    fail(path)
                return real_osopen(path, *a, **kw)

            def f_listdir(path='.'):
                if not isinstance(path, int) and under(path) and os.path.normpath(os.path.abspath(os.fspath(path))) in dirs:
                    fail(path)
                return real_listdir(path)

            def f_scandir(path='.'):
                if not isinstance(path, int) and under(path) and os.path.normpath(os.path.abspath(os.fspath(path))) in dirs:
                    fail(path)
                return real_scandir(path)

            def f_access(path, mode, **kw):
                if not isinstance(path, int) and under(path) and mode != os.F_OK:
                    return False
                return real_access(path, mode, **kw)
            builtins.open, io.open, os.open = f_open, f_open, f_osopen
            os.listdir, os.scandir, os.access = f_listdir, f_scandir, f_access
        elif k == 'nobody':
            os.setegid(NOBODY)
            os.seteuid(NOBODY)
        elif k == 'nofd':
            import resource
            self._old = resource.getrlimit(resource.RLIMIT_NOFILE)
            fds = []
            for x in os.listdir('/proc/self/fd'):
                try:
                    os.fstat(int(x))
                    fds.append(int(x))
                except OSError:
                    pass                                           # the descriptor of the listing itself
            resource.setrlimit(resource.RLIMIT_NOFILE, (max(fds) + 1, self._old[1]))
            self._plugs = []
            while True:
                try:
                    self._plugs.append(os.dup(fds[0]))
                except OSError:
                    break
        return self

    def __exit__(self, *a):
        k = self.kind
        if k == 'inject':
            import builtins
            import io
            (builtins.open, io.open, os.open, os.listdir, os.scandir, os.access) = \
                (self._saved[0], self._saved[1], self._saved[2], self._saved[3], self._saved[4], self._saved[5])
        elif k == 'nobody':
            os.seteuid(0)
            os.setegid(0)
        elif k == 'nofd':
            import resource
            for fd in self._plugs:
                os.close(fd)
            resource.setrlimit(resource.RLIMIT_NOFILE, self._old)
        return False


class FaultyFile:
    """an open file every read / seek of which fails (a medium error after a successful open)"""

    def __init__(self, f, en):
        self._f, self._en = f, en

    def _fail(self, *a, **kw):
        raise OSError(self._en, os.strerror(self._en))
    read = readinto = readline = readlines = read1 = seek = tell = peek = __next__ = _fail

    def __iter__(self):
        return self

    def __enter__(self):
        return self

    def __exit__(self, *a):
        self._f.close()
        return False

    def close(self):
        self._f.close()

    def fileno(self):
        return self._f.fileno()

    def __getattr__(self, name):
        return getattr(self._f, name)


def _alarm(signum, frame):
    raise Hang()


class Timer:
    def __init__(self, seconds=TIMEOUT):
        self.seconds = seconds

    def __enter__(self):
        self._old = signal.signal(signal.SIGALRM, _alarm)
        signal.setitimer(signal.ITIMER_REAL, self.seconds)
        return self

    def __exit__(self, *a):
        signal.setitimer(signal.ITIMER_REAL, 0)
        signal.signal(signal.SIGALRM, self._old)
        return False


# --------------------------------------------------------------------------------------------
# building the tree

def _write(p, size, data_fn):
    if size > BIG:
        with open(p, 'wb') as f:
            f.truncate(size)                                       # sparse
    else:
        with open(p, 'wb') as f:
            f.write(data_fn(size))


def build(wd, c):
    """returns (path argument as str, [fs path of each listed file], directories whose listing is not needed)"""
    root = os.path.join(wd, 'e')
    if os.path.lexists(root):
        shutil.rmtree(root)
    os.makedirs(root)
    top = os.path.join(root, c['name'])
    aux = os.path.join(root, '_aux')
    os.makedirs(aux)
    locked = c['env']['kind'] == 'nobody' and os.geteuid() == 0
    fmode = 0o000 if locked else 0o644
    dirs = set()

    def put(p, st, size, idx):
        def data(n):
            d = content.file_bytes(c['cseed'], idx, min(size, BIG))
            return (d + b'\0' * max(0, n - len(d)))[:n]
        k = st['kind']
        if k == 'missing':
            return
        os.makedirs(os.path.dirname(p), exist_ok=True)
        if k == 'ok':
            _write(p, size, data)
            os.chmod(p, fmode)
        elif k == 'resize':
            _write(p, size + st['d'], data)
            os.chmod(p, fmode)
        elif k == 'dir':
            # a directory standing where a file is listed must be listed to be totalled: it stays readable
            os.makedirs(p)
            t = st['total']
            a = t // 2
            with open(os.path.join(p, 'x'), 'wb') as f:
                f.write(b'a' * a)
            os.makedirs(os.path.join(p, 'sub'))
            with open(os.path.join(p, 'sub', 'y'), 'wb') as f:
                f.write(b'b' * (t - a))
        elif k == 'fifo':
            os.mkfifo(p)
            os.chmod(p, fmode)
        elif k == 'symlink':
            tgt = os.path.join(aux, f't{idx}')
            _write(tgt, size, data)
            os.chmod(tgt, fmode)
            os.symlink(tgt, p)
        else:
            raise AssertionError(k)

    paths = []
    if c['single']:
        put(top, c['disk'][0], c['files'][0]['size'], 0)
        paths.append(top)
        dirs.add(root)
    else:
        os.makedirs(top)
        dirs.add(top)
        for i, (fl, st) in enumerate(zip(c['files'], c['disk'])):
            p = os.path.join(top, *fl['path'])
            put(p, st, fl['size'], i)
            paths.append(p)
            d = os.path.dirname(p)
            while len(d) >= len(top):
                dirs.add(d)
                d = os.path.dirname(d)
    if locked:
        for d in list(dirs) + [aux]:
            if os.path.isdir(d):
                os.chmod(d, 0o711)
    return top, paths, dirs


def planned(c):
    """what stat will answer for each listed path, and what opening it would do — from the plan"""
    out = []
    env = c['env']['kind']
    for f, st in zip(c['files'], c['disk']):
        k = st['kind']
        if k == 'missing':
            ent = {'kind': 'missing'}
        elif k in ('ok', 'symlink'):
            ent = {'kind': 'file', 'n': f['size']}
        elif k == 'resize':
            ent = {'kind': 'file', 'n': f['size'] + st['d']}
        elif k == 'dir':
            ent = {'kind': 'dir', 'n': st['total']}
        elif k == 'fifo':
            ent = {'kind': 'file', 'n': 0}
        else:
            raise AssertionError(k)
        if k == 'fifo':
            ent['open'] = 'blocks'
        elif env != 'plain' and k in ('ok', 'symlink', 'resize'):
            ent['open'] = 'fails'
        else:
            ent['open'] = 'opens'
        ent['path'] = list(f['path'])
        out.append(ent)
    return out


def measure(paths):
    """the stat answers, asked by the harness itself (inside the world)"""
    out = []
    for p in paths:
        try:
            s = os.stat(p)
        except OSError:
            out.append({'kind': 'missing'})
            continue
        if statmod.S_ISDIR(s.st_mode):
            out.append({'kind': 'dir'})
        else:
            out.append({'kind': 'file', 'n': s.st_size})
    return out


def pieces_len(c):
    total = sum(num_value(f['len']) for f in c['files'])
    return 20 * (-(-total // c['pl']))


def _pieces(c):
    n = pieces_len(c) // 20
    if c.get('xverify'):
        data = b''.join(content.file_bytes(c['cseed'], i, f['size']) for i, f in enumerate(c['files']))
        L = c['pl']
        return b''.join(common.sha1(data[i:i + L]) for i in range(0, len(data), L))
    return b'\x11' * (20 * n)


def mk_torrent(torf, c):
    t = torf.Torrent()
    info = t.metainfo['info']
    info['name'] = c['name']
    if c['single']:
        info['length'] = pyobj(c['files'][0]['len'])
    else:
        info['files'] = [{'length': pyobj(f['len']), 'path': list(f['path'])} for f in c['files']]
    info['piece length'] = c['pl']
    info['pieces'] = _pieces(c)
    return t


def callbacks_for(c):
    n = len(c['files'])
    if n <= 3:
        return [None, []] + [[k] for k in range(1, n + 1)]
    return [None, [], [1 + c['cseed'] % n], [n]]


def exc_obs(e, fsmap):
    n = type(e).__name__
    if n == 'ReadError':
        return ['read'], fsmap.get(str(e.path), -1), e.errno
    if n == 'VerifyFileSizeError':
        try:
            a, x = e.actual_size, e.expected_size
            ok = (a == int(a)) and (x == int(x))
            return (['verifyFileSize', int(a), int(x)] if ok else ['verifyFileSize', repr(a), repr(x)]), \
                fsmap.get(str(e.filepath), -1), None
        except Exception as e2:  # noqa
            return ['verifyFileSize', 'unreadable:' + type(e2).__name__], -1, None
    if n == 'VerifyIsDirectoryError':
        return ['verifyIsDir'], fsmap.get(str(e.path), -1), None
    if n == 'MetainfoError':
        return ['metainfo'], None, None
    if n == 'PathError':
        return ['path'], None, None
    if n == 'Hang':
        return ['hang'], None, None
    return ['internal:' + n], None, None


def _one_run(torf, t, arg, cb, fsmap, mkworld):
    r = _one_run_once(torf, t, arg, cb, fsmap, mkworld(), TIMEOUT)
    if r['res'].get('raised') == ['hang']:
        # a loaded machine can starve a worker for seconds: only a call that does not return a second time, with
        # three times the patience, counts
        r = _one_run_once(torf, t, arg, cb, fsmap, mkworld(), 3 * TIMEOUT)
    return r


def _one_run_once(torf, t, arg, cb, fsmap, world, seconds):
    calls = []

    def callback(tt, fs, tp, done, total, exc, _stops=cb):
        eo = exc_obs(exc, fsmap) if exc is not None else (None, None, None)
        idx = fsmap.pair(fs, tp)
        okargs = (tt is t and type(done) is int and type(total) is int
                  and (exc is None or isinstance(exc, torf.TorfError))
                  and (exc is None or eo[1] in (idx, None)))
        item = [idx if okargs else -2, done, total, eo[0]]
        if eo[0] == ['read'] and eo[2] != errno.ENOENT:
            item.append({'errno': errno.errorcode.get(eo[2], eo[2])})
        calls.append(item)
        return (False, 0, '', 'stop', True)[(done + total) % 5] if done in _stops else None
    which = None
    try:
        with Timer(seconds):
            with world:
                r = t.verify_filesize(arg, callback=None if cb is None else callback)
        res = {'ok': r} if isinstance(r, bool) else {'ok': repr(r)}
    except BaseException as e:  # noqa
        eo = exc_obs(e, fsmap)
        res = {'raised': eo[0]}
        which = eo[1]
        if eo[0] == ['read'] and eo[2] != errno.ENOENT:
            res['errno'] = errno.errorcode.get(eo[2], eo[2])
    return {'cb': cb, 'res': res, 'calls': calls, 'which': which}


def run_chunk(cases):
    torf = common.import_torf()
    wd = common.worker_dir()
    global _HANGS
    out = []
    for c in cases:
        obs = {}
        if _HANGS >= 3 and any(st['kind'] == 'fifo' for st in c['disk']):
            # the code under test blocks on FIFOs (already reported three times by this worker): do not wait again
            out.append((c, {'skipped_after_hangs': True}))
            continue
        try:
            top, paths, dirs = build(wd, c)
            arg = pathlib.Path(top) if c['top'] == 'pathlib' else top
            t = mk_torrent(torf, c)
            before = repr(t.metainfo)
            fsmap = c20path.PathIndex(top, c['name'], c['files'])
            envs = [{'kind': 'plain'}] + ([c['env']] if c['env']['kind'] != 'plain' else [])
            obs['worlds'] = []
            for env in envs:
                w = {'env': env['kind'], 'runs': []}
                world = World(env, top, dirs)
                w['effective'] = world.kind
                with Timer(5 * TIMEOUT):
                    with World(env, top, dirs):
                        w['measured'] = measure(paths)
                for cb in callbacks_for(c):
                    w['runs'].append(_one_run(torf, t, arg, cb, fsmap, lambda: World(env, top, dirs)))
                    if w['runs'][-1]['res'].get('raised') == ['hang']:
                        _HANGS += 1
                        break                                       # reported once; do not wait for every other mode
                obs['worlds'].append(w)
                if w['runs'][-1]['res'].get('raised') == ['hang']:
                    break
            if c.get('xverify'):
                try:
                    with Timer(30):
                        v = t.verify(arg, threads=1)
                    obs['verify'] = v if isinstance(v, bool) else repr(v)
                except BaseException as e:  # noqa
                    obs['verify'] = 'raised:' + type(e).__name__
            obs['metainfo_unchanged'] = repr(t.metainfo) == before
        except BaseException as e:  # noqa
            import traceback
            obs['harness_exc'] = traceback.format_exc()[-900:]
        out.append((c, obs))
    return out


def driver_request(c, cb):
    r = {'op': 'c20.env', 'name': c['name'], 'single': c['single'], 'pl': c['pl'], 'piecesBytes': pieces_len(c),
         'fs': planned(c), 'cb': cb}
    if c['single']:
        r['length'] = lean_num(c['files'][0]['len'])
    else:
        r['files'] = [{'path': list(f['path']), 'len': lean_num(f['len'])} for f in c['files']]
    return r


# --------------------------------------------------------------------------------------------
# generators

ENVS = [{'kind': 'nofd'}, {'kind': 'nobody'}, {'kind': 'inject', 'errno': 'EIO'}, {'kind': 'inject', 'errno': 'EACCES'},
        {'kind': 'inject', 'errno': 'EIO', 'at': 'read'}]
INJECT_ERRNOS = ['EIO', 'EACCES', 'EMFILE', 'ENFILE', 'EINTR', 'ETXTBSY', 'EPERM', 'ENOMEM', 'ESTALE']
BIGS = [(1 << 31) - 1, 1 << 32, (1 << 53) - 1, 1 << 53, (1 << 53) + 2, 1 << 60]


def _case(files, disk, rng, env, single=False, top='same', pl=K, name='T', shape='env', xverify=False):
    return {'name': name, 'single': single, 'files': files, 'disk': disk, 'env': env, 'top': top, 'pl': pl,
            'cseed': rng.randrange(1 << 30), 'shape': shape, 'xverify': xverify}


def _typed(size, t):
    if t == 'bool':
        return {'t': 'bool', 'v': size}
    return {'t': t, 'v': size}


def _states(size, with_dir=True, with_fifo=False):
    sts = [{'kind': 'ok'}, {'kind': 'missing'}, {'kind': 'resize', 'd': 1}]
    if size > 0:
        sts.append({'kind': 'resize', 'd': -1})
    if with_dir:
        sts.append({'kind': 'dir', 'total': size})
    if with_fifo:
        sts.append({'kind': 'fifo'})
    return sts


def gen_cases(ctx, scale=1.0):
    import itertools
    rng = ctx.rng
    cases = []
    # A. every Python type of a valid length x every disk state, one and two files, single-file torrents
    typed_sizes = [('int', 5), ('float', 5), ('bool', 1), ('bool', 0), ('float', 0), ('float', K + 1)]
    for (t, size) in typed_sizes:
        for st in _states(size):
            for top in ('same', 'pathlib'):
                if top == 'pathlib' and st['kind'] not in ('ok', 'resize'):
                    continue
                cases.append(_case([{'path': [], 'size': size, 'len': _typed(size, t)}], [st], rng, {'kind': 'plain'},
                                   single=True, name='single.bin', top=top, shape='types-single',
                                   xverify=(st['kind'] == 'ok' and size > 0)))
    for (t0, s0), (t1, s1) in itertools.product(typed_sizes[:5], repeat=2):
        for d0, d1 in itertools.product(_states(s0), _states(s1)):
            if t0 == 'int' and t1 == 'int':
                continue
            fl = [{'path': ['f0'], 'size': s0, 'len': _typed(s0, t0)}, {'path': ['d', 'f1'], 'size': s1, 'len': _typed(s1, t1)}]
            good = d0['kind'] == 'ok' and d1['kind'] == 'ok' and s0 + s1 > 0
            cases.append(_case(fl, [d0, d1], rng, {'kind': 'plain'}, shape='types-two', xverify=good))
    # lengths that validate() must refuse, whatever is on disk
    bads = [{'t': 'frac', 'v': 5}, {'t': 'nonfinite', 'v': 0}, {'t': 'nonfinite', 'v': 1}, {'t': 'nonfinite', 'v': 2},
            {'t': 'int', 'v': -1}, {'t': 'float', 'v': -3}] + [{'t': 'other', 'v': v} for v in range(7)]
    for b in bads:
        cases.append(_case([{'path': [], 'size': 5, 'len': b}], [{'kind': 'ok'}], rng, {'kind': 'plain'}, single=True,
                           name='single.bin', shape='types-invalid'))
        cases.append(_case([{'path': ['a'], 'size': 3, 'len': {'t': 'float', 'v': 3}}, {'path': ['b'], 'size': 5, 'len': b}],
                           [{'kind': 'resize', 'd': 1}, {'kind': 'ok'}], rng, {'kind': 'plain'}, shape='types-invalid'))
    # sizes beyond 2**53 on sparse files: the mixed int/float comparison is exact
    for big in BIGS:
        for t in ('int', 'float'):
            for st in ({'kind': 'ok'}, {'kind': 'resize', 'd': 1}, {'kind': 'resize', 'd': -1}):
                cases.append(_case([{'path': ['a'], 'size': 3, 'len': {'t': 'int', 'v': 3}},
                                    {'path': ['big'], 'size': big, 'len': {'t': t, 'v': big}}], [{'kind': 'ok'}, st], rng,
                                   {'kind': 'plain'}, pl=1 << 46, shape='types-big'))
    cases.append(_case([{'path': [], 'size': (1 << 53) + 1, 'len': {'t': 'int', 'v': (1 << 53) + 1}}],
                       [{'kind': 'resize', 'd': -1}], rng, {'kind': 'plain'}, single=True, pl=1 << 46, name='big.bin',
                       shape='types-big'))
    cases.append(_case([{'path': [], 'size': 1 << 53, 'len': {'t': 'float', 'v': 1 << 53}}],
                       [{'kind': 'resize', 'd': 1}], rng, {'kind': 'plain'}, single=True, pl=1 << 46, name='big.bin',
                       shape='types-big'))
    # B. every world x every assignment of stat-visible states to one and two files (+ FIFOs)
    for env in ENVS:
        nodir = env['kind'] == 'nofd'          # totalling a directory needs a descriptor: not a fault "outside" the check
        for size in (0, 7):
            for st in _states(size, with_dir=not nodir, with_fifo=True):
                cases.append(_case([{'path': [], 'size': size, 'len': _typed(size, 'int')}], [st], rng, env, single=True,
                                   name='single.bin', shape='world-single'))
        for s0, s1 in ((7, 0), (K + 1, 3)):
            for d0, d1 in itertools.product(_states(s0, with_dir=not nodir, with_fifo=True) + [{'kind': 'symlink'}],
                                            _states(s1, with_dir=not nodir, with_fifo=True)):
                fl = [{'path': ['f0'], 'size': s0, 'len': _typed(s0, 'int')},
                      {'path': ['d', 'f1'], 'size': s1, 'len': _typed(s1, 'float' if s1 else 'int')}]
                cases.append(_case(fl, [d0, d1], rng, env, shape='world-two'))
    # C. structured random: layouts x types x states x worlds
    for _ in range(int(ctx.n(500, 8000) * scale)):
        single = rng.random() < 0.2
        n = 1 if single else rng.choice([1, 2, 2, 3, 3, 4, 5, 6])
        pl = K * rng.choice([1, 1, 2, 4])
        env = rng.choice([{'kind': 'plain'}] * 2 + [{'kind': 'nofd'}] * 3 + [{'kind': 'nobody'}] * 2 +
                         [{'kind': 'inject', 'errno': rng.choice(INJECT_ERRNOS)}] * 2 +
                         [{'kind': 'inject', 'errno': rng.choice(['EIO', 'ESTALE']), 'at': 'read'}])
        paths = [[]] if single else (layouts.tricky_paths(n, rng) if rng.random() < 0.25 else layouts.paths_for(n, rng, nested=True))
        files, disk = [], []
        big_used = False
        anybad = rng.random() < 0.08
        for i in range(n):
            size = rng.choice([0, 0, 1, 1, 2, pl - 1, pl, pl + 1, rng.randint(1, 3 * pl), rng.randint(1, 50)])
            t = rng.choice(['int', 'int', 'float', 'float', 'bool'])
            if rng.random() < 0.08 and not big_used:
                size = rng.choice(BIGS + [(1 << 53) + 1])
                big_used = True
                pl = 1 << 46
                t = 'int' if size == (1 << 53) + 1 else rng.choice(['int', 'float'])
            if t == 'bool':
                size = rng.choice([0, 1])
            ln = _typed(size, t)
            if t == 'float' and size == 0 and rng.random() < 0.5:
                ln['negzero'] = True
            if anybad and (i == n - 1 or rng.random() < 0.3):
                ln = rng.choice(bads)
            files.append({'path': paths[i], 'size': size, 'len': ln})
            sts = _states(size, with_dir=(env['kind'] != 'nofd' and size <= BIG), with_fifo=True) + [{'kind': 'symlink'}]
            if size <= BIG:
                sts.append({'kind': 'resize', 'd': rng.randint(1, 70000)})
            st = rng.choice(sts) if rng.random() < 0.4 else rng.choice([{'kind': 'ok'}] * 5 + [{'kind': 'symlink'}])
            if st['kind'] == 'fifo' and rng.random() < 0.5:
                # a FIFO that *is* the right size (0 bytes) where possible
                files[-1]['size'] = 0
                files[-1]['len'] = rng.choice([_typed(0, 'int'), _typed(0, 'float'), _typed(0, 'bool')])
            disk.append(st)
        allok = all(st['kind'] in ('ok', 'symlink') for st in disk) and not big_used and not anybad \
            and sum(f['size'] for f in files) > 0
        cases.append(_case(files, disk, rng, env, single=single, top=rng.choice(['same', 'same', 'pathlib']), pl=pl,
                           name='single.bin' if single else rng.choice(['T', 'My Torrent', 'x.y']), shape='env-random',
                           xverify=(allok and env['kind'] == 'plain')))
    return cases


def key(c, world, cb):
    return ('env', c['single'], c['top'], c['pl'], c['env']['kind'], c['env'].get('errno'), c['env'].get('at'), world,
            tuple((tuple(f['path']), f['size'], tuple(sorted(f['len'].items()))) for f in c['files']),
            tuple(tuple(sorted(st.items())) for st in c['disk']), None if cb is None else tuple(cb))


def public(c):
    return {k: c[k] for k in ('name', 'single', 'files', 'disk', 'env', 'top', 'pl', 'cseed', 'xverify', 'shape')}
