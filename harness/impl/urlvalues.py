"""
C16: typed values.  A value slot of an operation ('u', 'us', 'v', 'vs') may hold — instead of a JSON
string / list — a SPEC `{'$': kind, ...}` that says of which Python type the value is and where it
comes from.  `build(torf, t, H, x)` returns (the Python object to hand to the real code, its
STRUCTURE = what the code can tell about it: a str for every str / str subclass / URL object, a list
of structures — the items in iteration order — for everything that is iterated).  The structure is
what the Lean model is given (`Torf.Lists.PyV`); the claim under test is that nothing else matters.

kinds (x = payload, itself a value: str / list / spec, resolved recursively):
  builtin containers      tuple, gen (generator, one shot), iter (list iterator, one shot), set, frozenset
                          (iteration order of the object), dict / dictkeys / dictvalues, deque, list
  strings                 strsub (a str subclass), urlobj (torf's URL object; the structure is the
                          coerced string, as that is what the object IS)
  torf objects, detached  urls (utils.URLs(x)), trackers (utils.Trackers(x))
  of another torrent      other_ws, other_hs (Torrent(webseeds=x).webseeds), other_tr, other_tier (ti);
                          'keep': name -> the object stays reachable for later `on: ext` operations
  of this torrent         ws, hs, tr (the held object if one is held, else what the getter returns now),
                          tier (ti; of the held / a fresh Trackers object), tierk (k; a held tier handle)
  derived                 add (base + x: URLs.__add__ / Trackers.__add__), slice (base[a:b]), copy (list(base))
A spec that cannot be built (invalid payload for urls / urlobj, missing tier) degrades to its plain
payload (or []), so every history stays executable.
"""
import collections


class StrSub(str):
    """a str subclass that is not torf's URL"""


def has_spec(x):
    if isinstance(x, dict):
        return '$' in x or any(has_spec(v) for k, v in x.items() if k in ('u', 'us', 'v', 'vs', 'x', 'base'))
    if isinstance(x, list):
        return any(has_spec(y) for y in x)
    return False


def struct_of(obj):
    """structure of a live object by iterating it (NOT for one-shot iterators)"""
    if isinstance(obj, str):
        return str(obj)
    return [struct_of(i) for i in obj]


def flat(s):
    """flatten() on a structure"""
    if isinstance(s, str):
        return [s]
    return [u for x in s for u in flat(x)]


def _hashable(o):
    return tuple(_hashable(i) for i in o) if isinstance(o, list) else o


def build(torf, t, H, x):
    from torf import _utils
    if isinstance(x, str):
        return x, x
    if isinstance(x, list):
        pairs = [build(torf, t, H, y) for y in x]
        return [p[0] for p in pairs], [p[1] for p in pairs]
    if not (isinstance(x, dict) and '$' in x):
        return x, x                                   # {'other': 1}, None …: not a typed value
    k = x['$']
    try:
        if k in ('tuple', 'gen', 'iter', 'deque', 'list'):
            objs, st = build(torf, t, H, x['x'])
            if k == 'tuple':
                return tuple(objs), st
            if k == 'gen':
                return (o for o in objs), st
            if k == 'iter':
                return iter(objs), st
            if k == 'deque':
                return collections.deque(objs), st
            return list(objs), st
        if k in ('set', 'frozenset', 'dict', 'dictkeys', 'dictvalues'):
            objs, st = build(torf, t, H, x['x'])
            objs = [_hashable(o) for o in objs]
            if k == 'dictvalues':
                return dict(enumerate(objs)).values(), st
            if k in ('set', 'frozenset'):
                obj = set(objs) if k == 'set' else frozenset(objs)
                order = list(obj)
            else:
                d = dict.fromkeys(objs, 1)
                obj = d if k == 'dict' else d.keys()
                order = list(d)
            return obj, [st[objs.index(o)] for o in order]
        if k == 'strsub':
            return StrSub(x['x']), x['x']
        if k == 'urlobj':
            u = _utils.URL(x['x'])
            return u, str(u)
        if k == 'urls':
            o = _utils.URLs(build(torf, t, H, x['x'])[0])
            return o, struct_of(o)
        if k == 'trackers':
            o = _utils.Trackers(build(torf, t, H, x['x'])[0])
            return o, struct_of(o)
        if k in ('other_ws', 'other_hs', 'other_tr', 'other_tier'):
            p = build(torf, t, H, x['x'])[0]
            if k == 'other_ws':
                o = torf.Torrent(webseeds=p).webseeds
            elif k == 'other_hs':
                o = torf.Torrent(httpseeds=p).httpseeds
            else:
                o = torf.Torrent(trackers=p).trackers
                if k == 'other_tier':
                    o = o[x.get('ti', 0)]
            if 'keep' in x:
                H.setdefault('ext', {})[x['keep']] = o
            return o, struct_of(o)
        if k in ('ws', 'hs'):
            o = H[k] if H[k] is not None else getattr(t, 'webseeds' if k == 'ws' else 'httpseeds')
            return o, struct_of(o)
        if k == 'tr':
            o = H['tr'] if H['tr'] is not None else t.trackers
            return o, struct_of(o)
        if k == 'tier':
            o = (H['tr'] if H['tr'] is not None else t.trackers)[x['ti']]
            return o, struct_of(o)
        if k == 'tierk':
            o = H['tiers'][x['k']]
            return o, struct_of(o)
        if k in ('add', 'slice', 'copy'):
            b = build(torf, t, H, x['base'])[0]
            if k == 'add':
                o = b + build(torf, t, H, x['x'])[0]
            elif k == 'slice':
                o = b[x.get('a'):x.get('b')]
            else:
                o = list(b)
            return o, struct_of(o)
    except Exception:  # noqa  (cannot be built: degrade to the plain payload)
        p = x.get('x', [])
        if isinstance(p, (str, list)) and not has_spec(p):
            return p, p
        return [], []
    raise RuntimeError(f'harness: unknown value kind {k}')


SLOTS = ('u', 'us', 'v', 'vs')


def resolve_op(torf, t, H, op):
    """(operation with the Python objects in its value slots, operation with their structures)"""
    py, st = dict(op), dict(op)
    for s in SLOTS:
        if s in op and has_spec(op[s]):
            py[s], st[s] = build(torf, t, H, op[s])
    return py, st
