"""
Apply a seeded change to a scratch copy of /repo and run its demo and our check against it.
usage: seedtest.py <patch.diff|revert:<commit>> <PROP> [demo.py] [--tier quick|thorough] [--keep]
Prints: demo exit code on clean and patched tree, check exit code and VIOLATION line.
"""
import os, shutil, subprocess, sys
VERIF = os.path.dirname(os.path.dirname(os.path.abspath(__file__)))

def main():
    args = [a for a in sys.argv[1:] if not a.startswith('--')]
    tier = 'quick'
    if '--tier' in sys.argv:
        tier = sys.argv[sys.argv.index('--tier') + 1]
        args.remove(tier)
    patch, prop = args[0], args[1]
    demo = args[2] if len(args) > 2 else None
    d = f'/dev/shm/seedrepo-{os.getpid()}'
    shutil.rmtree(d, ignore_errors=True)
    subprocess.check_call(['git', 'clone', '-q', '/repo', d])
    try:
        if demo:
            r0 = subprocess.run(['/venv/bin/python', demo], env={**os.environ, 'PYTHONPATH': d}, capture_output=True, text=True, timeout=600)
            print('demo on clean tree: exit', r0.returncode)
        if patch.startswith('revert:'):
            c = patch.split(':', 1)[1]
            p = subprocess.run(['git', '-C', d, 'show', c], capture_output=True, text=True).stdout
            r = subprocess.run(['git', '-C', d, 'apply', '-R', '-'], input=p, text=True, capture_output=True)
        else:
            r = subprocess.run(['git', '-C', d, 'apply', '--3way', os.path.abspath(patch)], capture_output=True, text=True)
            if r.returncode != 0:
                r = subprocess.run(['git', '-C', d, 'apply', os.path.abspath(patch)], capture_output=True, text=True)
        if r.returncode != 0 and not patch.startswith('revert:'):
            # later fix: commits moved the context; GNU patch with fuzz still places most hunks
            subprocess.run(['git', '-C', d, 'reset', '-q', '--hard'], capture_output=True)
            r2 = subprocess.run(['patch', '-p1', '-F3', '--no-backup-if-mismatch', '-d', d, '-i', os.path.abspath(patch)],
                                capture_output=True, text=True)
            if r2.returncode == 0:
                print('patch applied with fuzz (context changed by later commits)')
                r = r2
        if r.returncode != 0:
            print('PATCH DOES NOT APPLY:', r.stderr[-500:])
            return 3
        if demo:
            r1 = subprocess.run(['/venv/bin/python', demo], env={**os.environ, 'PYTHONPATH': d}, capture_output=True, text=True, timeout=600)
            print('demo on patched tree: exit', r1.returncode, '|', (r1.stdout + r1.stderr).strip().splitlines()[-1:] )
        # evidence/ and replays/ of the checkout describe runs against /repo itself: keep seeded runs out of them
        env = {**os.environ, 'VERIF_REPO': d, 'VERIF_EVIDENCE_DIR': d + '-out/evidence', 'VERIF_REPLAY_DIR': d + '-out/replays'}
        rc = subprocess.run([os.path.join(VERIF, 'check'), prop, '--tier', tier], env=env, capture_output=True, text=True, timeout=7200)
        lines = [l for l in rc.stdout.splitlines() if l.startswith(('VIOLATION', 'KNOWN-FINDING', 'ERROR', prop)) or l.startswith('  ')]
        print('check', prop, tier, 'exit', rc.returncode)
        if rc.returncode not in (0, 1):
            for l in rc.stderr.splitlines()[-12:]:
                print('    stderr:', l[:300])
        for l in lines[-8:]:
            print('   ', l[:300])
        return 0
    finally:
        if '--keep' not in sys.argv:
            shutil.rmtree(d, ignore_errors=True)
            shutil.rmtree(d + '-out', ignore_errors=True)

if __name__ == '__main__':
    sys.exit(main())
