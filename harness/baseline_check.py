"""Run /repo's test suite (guard off) and compare with /root/.vp/BASELINE.json's stable_pass list."""
import json, subprocess, sys, os, xml.etree.ElementTree as ET
repo = sys.argv[1] if len(sys.argv) > 1 else '/repo'
out = f'/dev/shm/torf-baseline-junit-{os.getpid()}.xml'
subprocess.run(['taskset', '-c', os.environ.get('BASELINE_CPUS', '0-3'), '/venv/bin/python', '-m', 'pytest', '-q', '-p', 'no:cacheprovider', '--timeout=900',
                '--continue-on-collection-errors', f'--junitxml={out}'], cwd=repo,
               stdout=subprocess.DEVNULL, stderr=subprocess.DEVNULL)
base = json.load(open('/root/.vp/BASELINE.json'))
stable = set(base['stable_pass'])
passed = set(); failed = set()
for tc in ET.parse(out).getroot().iter('testcase'):
    name = f"{tc.get('classname')}::{tc.get('name')}"
    bad = any(ch.tag in ('failure', 'error') for ch in tc)
    skipped = any(ch.tag == 'skipped' for ch in tc)
    (failed if bad else passed).add(name) if not skipped else None
os.unlink(out)
missing = sorted(stable - passed)
print(f'stable_pass={len(stable)} passed_now={len(passed)} failed_now={len(failed)} stable_not_passing={len(missing)}')
for m in missing[:40]:
    print('  NOT PASSING:', m)
sys.exit(1 if missing else 0)
