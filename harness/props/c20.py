"""
C20 — the file-size check is exact and never disagrees with full verification.

Correspondence: the Lean model `FileSize.verifyFilesize` (proved equal to the specification
`FileSize.spec`, theorems C20_*) is run on the same (layout, file-system state, callback) as the
real `Torrent.verify_filesize`; result / raised error kind (+ actual and expected size, + which
file) and the full callback argument trace are compared.  Cross-check: whenever the real
`Torrent.verify()` returns True on a path, the real `verify_filesize()` must too.

A case = layout (listed files with recorded sizes; single- or multi-file) + per listed file what
is on disk (ok | missing | resized by d | a directory whose files total some number | a symlink to
a right-sized file | a dangling symlink) + shape of the `path` argument (ends in the torrent name,
renamed, trailing slash, pathlib object, does not exist, is a regular file) + extra files + how
`pieces` was made (real SHA-1s, dummy, invalid).  Every case is run without callback, with a
passive callback, and with a callback cancelling at each call.

Histories (harness/impl/c20hist.py, Lean: Torf.Model.FileSizeHistory, theorems C20_history_*): the
statement is about the torrent *as it is when the check runs*, so the same judgement is made after
every step of a history on one or more Torrent objects — size lookups (verify_filesize in every
callback mode incl. cancelled, failing and callback-raises runs, verify, filetree, partial_size of
files / directories / unknown paths, size / pieces / files) interleaved with edits of the metainfo
(in place, by replacement, through the setters, copy()) and with changes of the disk.

Spellings of the content path (harness/impl/c20path.py, Lean: Torf.Model.FileSizePath over C18's path
resolution, theorems C20_path_*): `link/..`, `a//b`, `a/./b`, trailing slashes, relative to a working
directory reached through a link, … with copies of the content at the real and at the lexical location
(each intact / damaged / absent); the size check must judge the tree the OS resolves the spelling to.

Worlds and typed lengths (harness/impl/c20env.py, Lean: Torf.Model.FileSizeEnv, theorems C20_env_*,
C20_depends_only_on_stat, C20_depends_only_on_value): every case is run in the plain world and in a world with
the same stat answers in which nothing can be opened (no free descriptor, uid 65534 on mode-000 files, injected
open / access / listdir / read faults, FIFOs); lengths are int, float, bool (and invalid objects).
"""
import errno
import itertools
import os
import pathlib
import shutil

from harness import common
from harness.gen import layouts
from harness.impl import content
from harness.impl import c20hist
from harness.impl import c20path
from harness.impl import c20env

K = 16384


def _m_d20a(case, observed, finding):
    """D20a: a listed file replaced by a directory that contains a dangling symlink; the raw
    FileNotFoundError of os.path.getsize escapes real_size()/verify_filesize().  Narrow: the case
    must contain such a directory, the observed outcome must be exactly that raised exception, and
    everything before that file must have been handled normally."""
    idx = [i for i, st in enumerate(case.get('disk', [])) if st.get('kind') == 'dir-dangling']
    if not idx or case.get('top') in ('nonexistent', 'regular-file') or case.get('single'):
        return False
    if (observed or {}).get('res', {}).get('raised') != ['internal:FileNotFoundError']:
        return False
    i = idx[0]
    if case.get('cb') is not None:
        return len(observed.get('calls', [])) == i
    return all(st['kind'] in ('ok', 'symlink') or (st['kind'] == 'dir' and st['total'] == f['size'])
               for st, f in zip(case['disk'][:i], case['files'][:i]))


# D20a (884cab4) and D20b (8785da6) were repaired in /repo; their witnesses stay as regression cases
MATCHERS = {}

RULE = ('case = (layout, per-file disk state, path shape, pieces kind, callback); exhaustive: every '
        'assignment of {ok, missing, -1, +1, dir(total = size), dir(total != size)} to <= 3 (thorough: 4) '
        'listed files x {no callback, passive, cancelling at call 1..n}; structured random: 1..9 files, '
        'nested paths, zero-length entries, multi-piece sizes, symlinks, renamed/missing/regular-file '
        'path argument, invalid torrents; non-trivial = (>= 2 listed files and >= 1 offending file) or a '
        'cancelling callback or a directory involved; distinct = distinct case tuples.  Histories: every (size lookup '
        'kind: 15) x (metainfo edit: %d) x (disk = content of the old | new metainfo) on one three-file torrent + '
        'structured random histories of 4..16 steps on 1..3 objects; every observed operation is one evaluation; '
        'non-trivial = the operation comes after a change (edit / setter / copy / disk) that itself came after an '
        'earlier size lookup; distinct = (history, operation index).  Spellings of the content path: every (state of '
        'the tree at the real location: %d) x (state of the tree at the lexical location) x %d catalogued spellings '
        '(link/.., a//b, a/./b, trailing slashes, relative to a cwd reached through a link, top through a link, ...) '
        '+ random walks through the linked tree, x {no callback, passive, cancel at each call}, str and pathlib; '
        'non-trivial = the spelling is not the plain path; distinct = (scenario, spelling, form, callback).  Worlds and '
        'typed lengths: every case is run in the plain world and in a world with the same stat answers in which nothing '
        'can be opened (no free descriptor: RLIMIT_NOFILE; uid 65534 on mode-000 files in unlistable directories; '
        'open / os.open / access / listdir / scandir failing by injection; reads failing after a successful open; '
        'FIFOs in place of files, every call under an interval timer); exhaustive: (int | float | bool lengths) x '
        '(ok, missing, +1, -1, directory) for one and two files, invalid lengths (fractional, negative, nan/inf, '
        'non-numbers), sizes up to 2**60 on sparse files, (5 worlds) x every assignment of (ok, missing, +1, -1, '
        'directory, FIFO, symlink) to one and two files; + structured random layouts x types x states x worlds, x '
        '{no callback, passive, cancel at each call}; non-trivial = a world other than the plain one or a length that '
        'is not an int; distinct = (case, world, callback)'
        % (len(c20hist.EX_EDITS), len(c20path.STATES), len(c20path.CATALOGUE)))


# --------------------------------------------------------------------------------------------
# real-code side

def _exc_obs(e, fsmap):
    """error kind (+ numbers) and the listed index whose file-system path the error names"""
    n = type(e).__name__
    if n == 'ReadError':
        idx = fsmap.get(str(e.path), -1)
        if idx == -1:
            # a read error inside a directory that stands where a listed file should be names the
            # unreadable entry below that path: it still names the listed file's location
            idx = fsmap.below(e.path)
        return ['read'], idx, e.errno
    if n == 'VerifyFileSizeError':
        return ['verifyFileSize', e.actual_size, e.expected_size], fsmap.get(str(e.filepath), -1), None
    if n == 'VerifyIsDirectoryError':
        return ['verifyIsDir'], fsmap.get(str(e.path), -1), None
    if n == 'MetainfoError':
        return ['metainfo'], None, None
    if n == 'PathError':
        return ['path'], None, None
    return ['internal:' + n], None, None


def _build(wd, c):
    """create the content described by case c; returns the `path` argument"""
    root = os.path.join(wd, 'c')
    shutil.rmtree(root, ignore_errors=True)
    os.makedirs(root)
    top_name = c['name'] if c['top'] not in ('renamed',) else 'Renamed.dir'
    top = os.path.join(root, top_name)
    aux = os.path.join(root, '_aux')          # link targets live outside the content path
    os.makedirs(aux)
    if c['top'] == 'nonexistent':
        return os.path.join(root, 'nope', c['name'])
    if c['top'] == 'regular-file':
        with open(top, 'wb') as f:
            f.write(b'x' * 11)
        return top

    def put(p, st, size, idx):
        data = content.file_bytes(c['cseed'], idx, size)
        k = st['kind']
        if k == 'missing':
            return
        os.makedirs(os.path.dirname(p), exist_ok=True)
        if k == 'ok':
            with open(p, 'wb') as f:
                f.write(data)
        elif k == 'resize':
            n = size + st['d']
            with open(p, 'wb') as f:
                f.write((data + b'\0' * max(0, st['d']))[:n])
        elif k == 'dir':
            os.makedirs(p)
            t = st['total']
            if t or st.get('emptyfile'):
                a = t // 2
                with open(os.path.join(p, 'x'), 'wb') as f:
                    f.write(b'a' * a)
                os.makedirs(os.path.join(p, 'sub'))
                with open(os.path.join(p, 'sub', 'y'), 'wb') as f:
                    f.write(b'b' * (t - a))
        elif k == 'dir-dangling':
            os.makedirs(p)
            with open(os.path.join(p, 'x'), 'wb') as f:
                f.write(b'a' * st['total'])
            os.symlink(os.path.join(aux, f'nothing{idx}'), os.path.join(p, 'dangling'))
        elif k == 'symlink':
            tgt = os.path.join(aux, f't{idx}')
            with open(tgt, 'wb') as f:
                f.write(data)
            os.symlink(tgt, p)
        elif k == 'dangling':
            os.symlink(os.path.join(aux, f'nothing{idx}'), p)
        else:
            raise AssertionError(k)

    if c['single']:
        put(top, c['disk'][0], c['files'][0]['size'], 0)
    else:
        os.makedirs(top)
        for i, (fl, st) in enumerate(zip(c['files'], c['disk'])):
            put(os.path.join(top, *fl['path']), st, fl['size'], i)
        for j in range(c.get('extra', 0)):
            with open(os.path.join(top, f'extra{j}'), 'wb') as f:
                f.write(b'e' * (j + 1))
    if c['top'] == 'slash':
        return top + os.sep
    return top


def _pieces(c):
    total = sum(f['size'] for f in c['files'])
    L = c['pl']
    n = -(-total // L) if L > 0 else 0
    if c['pieces'] == 'real':
        data = b''.join(content.file_bytes(c['cseed'], i, f['size']) for i, f in enumerate(c['files']))
        return b''.join(common.sha1(data[i:i + L]) for i in range(0, len(data), L))
    if c['pieces'] == 'dummy':
        return b'\x11' * (20 * n)
    if c['pieces'] == 'one-more':
        return b'\x11' * (20 * (n + 1))
    if c['pieces'] == 'odd':
        return b'\x11' * (20 * n + 7)
    if c['pieces'] == 'empty':
        return b''
    raise AssertionError(c['pieces'])


def _mk_torrent(torf, c):
    t = torf.Torrent()
    info = t.metainfo['info']
    info['name'] = c['name']
    if c['single']:
        info['length'] = c['files'][0]['size']
    else:
        info['files'] = [{'length': f['size'], 'path': list(f['path'])} for f in c['files']]
    info['piece length'] = c['pl']
    info['pieces'] = _pieces(c)
    return t


def callbacks_for(c):
    n = len(c['files'])
    return [None, []] + [[k] for k in range(1, n + 1)]


def _run_chunk(cases):
    torf = common.import_torf()
    wd = common.worker_dir()
    out = []
    for c in cases:
        obs = {'runs': []}
        try:
            path = _build(wd, c)
            arg = pathlib.Path(path) if c['top'] == 'pathlib' else path
            t = _mk_torrent(torf, c)
            before = repr(t.metainfo)
            base = path.rstrip(os.sep)
            # which listed file a reported path denotes: by text, else by what the OS makes of it
            fsmap = c20path.PathIndex(base, c['name'], c['files'])
            for cb in callbacks_for(c):
                calls = []

                def callback(tt, fs, tp, done, total, exc, _stops=cb):
                    eo = _exc_obs(exc, fsmap) if exc is not None else (None, None, None)
                    idx = fsmap.pair(fs, tp)
                    okargs = (tt is t and isinstance(done, int) and isinstance(total, int)
                              and (exc is None or isinstance(exc, torf.TorfError))
                              and (exc is None or eo[1] in (idx, None)))
                    calls.append([idx if okargs else -2, done, total, eo[0]])
                    # any value that is not None cancels — also falsy ones
                    return (False, 0, '', 'stop', True)[(done + total) % 5] if done in _stops else None
                try:
                    r = t.verify_filesize(arg, callback=None if cb is None else callback)
                    res = {'ok': r} if isinstance(r, bool) else {'ok': repr(r)}
                    which = None
                except BaseException as e:  # noqa
                    eo = _exc_obs(e, fsmap)
                    res = {'raised': eo[0]}
                    which = eo[1]
                    if eo[0] == ['read'] and eo[2] != errno.ENOENT:
                        res['errno'] = eo[2]
                obs['runs'].append({'cb': cb, 'res': res, 'calls': calls, 'which': which})
            if c.get('xverify'):
                try:
                    v = t.verify(arg, threads=1)
                    obs['verify'] = v if isinstance(v, bool) else repr(v)
                except BaseException as e:  # noqa
                    obs['verify'] = 'raised:' + type(e).__name__
                try:
                    seen = []
                    v = t.verify(arg, threads=1, callback=lambda *a: seen.append(a[-1]) and None)
                    obs['verify_cb'] = v if isinstance(v, bool) else repr(v)
                except BaseException as e:  # noqa
                    obs['verify_cb'] = 'raised:' + type(e).__name__
            obs['metainfo_unchanged'] = repr(t.metainfo) == before
        except BaseException as e:  # noqa
            import traceback
            obs['harness_exc'] = traceback.format_exc()[-800:]
        out.append((c, obs))
    return out


# --------------------------------------------------------------------------------------------
# model side

def fs_abstraction(c):
    """what the OS will report for each listed path, derived from the plan (not from the code)"""
    out = []
    for f, st in zip(c['files'], c['disk']):
        if c['top'] in ('nonexistent',) or (c['top'] == 'regular-file' and not c['single']):
            ent = {'kind': 'missing'}
        elif c['top'] == 'regular-file' and c['single']:
            ent = {'kind': 'file', 'n': 11}
        else:
            k = st['kind']
            if k in ('missing', 'dangling', 'dir-dangling'):
                # dir-dangling: the size cannot be determined => the specification wants a read error
                ent = {'kind': 'missing'}
            elif k in ('ok', 'symlink'):
                ent = {'kind': 'file', 'n': f['size']}
            elif k == 'resize':
                ent = {'kind': 'file', 'n': f['size'] + st['d']}
            elif k == 'dir':
                ent = {'kind': 'dir', 'n': st['total']}
            else:
                raise AssertionError(k)
        ent['path'] = list(f['path'])
        out.append(ent)
    return out


def driver_request(c, cb):
    r = {'op': 'c20.verify', 'name': c['name'], 'single': c['single'], 'pl': c['pl'],
         'piecesBytes': len(_pieces(c)) if c['pieces'] != 'real' else
         20 * (-(-sum(f['size'] for f in c['files']) // c['pl'])),
         'fs': fs_abstraction(c), 'cb': cb}
    if c['single']:
        r['length'] = c['files'][0]['size']
    else:
        r['files'] = [{'path': list(f['path']), 'size': f['size']} for f in c['files']]
    return r


# --------------------------------------------------------------------------------------------
# generators

def _states_for(size, small=True):
    sts = [{'kind': 'ok'}, {'kind': 'missing'}, {'kind': 'resize', 'd': 1},
           {'kind': 'dir', 'total': size, 'emptyfile': True}, {'kind': 'dir', 'total': size + 2}]
    if size > 0:
        sts.append({'kind': 'resize', 'd': -1})
    else:
        sts.append({'kind': 'dir', 'total': 0})        # an empty directory in place of an empty file
    return sts


def _case(files, disk, rng, single=False, top='same', pieces='dummy', pl=K, extra=0, xverify=False,
          name='T', shape='exhaustive'):
    return {'name': name, 'single': single, 'files': files, 'disk': disk, 'top': top, 'pieces': pieces,
            'pl': pl, 'extra': extra, 'xverify': xverify, 'cseed': rng.randrange(1 << 30), 'shape': shape}


def gen_cases(ctx, scale=1.0):
    rng = ctx.rng
    cases = []
    # 1. exhaustive: every assignment of states to every listed file
    nmax = 4 if ctx.thorough else 3
    size_sets = {1: [0, 1, 3, K, K + 1], 2: [0, 3, K + 1], 3: [0, 3] if not ctx.thorough else [0, 2, 7], 4: [0, 3]}
    count = 0
    for n in range(1, nmax + 1):
        for sizes in itertools.product(size_sets[n], repeat=n):
            paths = [['f%d' % i] if i % 2 == 0 else ['d', 'f%d' % i] for i in range(n)]
            files = [{'path': p, 'size': s} for p, s in zip(paths, sizes)]
            for disk in itertools.product(*[_states_for(s) for s in sizes]):
                count += 1
                good = all(st['kind'] == 'ok' or (st['kind'] == 'dir' and st['total'] == f['size'])
                           for st, f in zip(disk, files))
                pieces = 'real' if sum(sizes) > 0 else 'empty'
                cases.append(_case(files, list(disk), rng, pieces=pieces,
                                   xverify=(good or count % 7 == 0)))
    ctx.notes['exhaustive_scope'] = (f'<= {nmax} listed files, sizes per file from {size_sets}, every assignment of '
                                     '6 disk states per file, callbacks none/passive/cancel at each call')
    # single-file torrents: every state of the one file x path shapes
    for size in [1, 5, K, K + 3, 3 * K]:
        for st in _states_for(size) + [{'kind': 'symlink'}, {'kind': 'dangling'}]:
            for top in ('same', 'renamed', 'pathlib', 'nonexistent', 'regular-file'):
                if top == 'regular-file' and st['kind'] != 'ok':
                    continue
                cases.append(_case([{'path': [], 'size': size}], [st], rng, single=True, top=top,
                                   pieces='real', xverify=True, name='single.bin', shape='single'))
    # witness of the open finding D20a (always run)
    cases.append(_case([{'path': ['a'], 'size': 5}, {'path': ['b'], 'size': 7}],
                       [{'kind': 'ok'}, {'kind': 'dir-dangling', 'total': 7}], rng, shape='witness-D20a'))
    # 2. structured random
    for _ in range(int(ctx.n(1500, 20000) * scale)):
        n = rng.choice([1, 2, 2, 3, 3, 4, 5, 6, 9])
        pl = K * rng.choice([1, 1, 1, 2, 4])
        sizes = [rng.choice([0, 0, 1, 2, pl - 1, pl, pl + 1, rng.randint(1, 3 * pl), rng.randint(1, 50)])
                 for _ in range(n)]
        # a third of the layouts use names that are string prefixes of one another, differ in case only, …
        paths = layouts.tricky_paths(n, rng) if rng.random() < 0.35 else layouts.paths_for(n, rng, nested=True)
        files = [{'path': p, 'size': s} for p, s in zip(paths, sizes)]
        nbad = rng.choice([0, 0, 1, 1, 2, n])
        bad = set(rng.sample(range(n), min(nbad, n)))
        disk = []
        for i, s in enumerate(sizes):
            if i in bad:
                st = rng.choice(_states_for(s)[1:] + [{'kind': 'dangling'},
                                                      {'kind': 'resize', 'd': rng.randint(1, 70000)}])
                if rng.random() < 0.03:
                    st = {'kind': 'dir-dangling', 'total': s}
                if st['kind'] == 'resize' and s + st['d'] < 0:
                    st = {'kind': 'missing'}
            else:
                st = rng.choice([{'kind': 'ok'}] * 6 + [{'kind': 'symlink'}])
            disk.append(st)
        top = rng.choice(['same'] * 5 + ['renamed', 'renamed', 'slash', 'pathlib', 'nonexistent', 'regular-file'])
        pieces = rng.choice(['real'] * 6 + ['dummy', 'dummy', 'one-more', 'odd', 'empty'])
        if sum(sizes) == 0:
            pieces = rng.choice(['empty', 'dummy', 'one-more'])
        if rng.random() < 0.04:
            pl = rng.choice([K + 1, K - 1, 1, 8, 0])
            pieces = 'dummy' if pl else 'empty'
        cases.append(_case(files, disk, rng, top=top, pieces=pieces, pl=pl, extra=rng.choice([0, 0, 2]),
                           xverify=(rng.random() < 0.6), name=rng.choice(['T', 'My Torrent', 'x.y']),
                           shape='random'))
    return cases


# --------------------------------------------------------------------------------------------
# evaluation

def _key(c, cb):
    return (c['single'], c['top'], c['pieces'], c['pl'],
            tuple((tuple(f['path']), f['size']) for f in c['files']),
            tuple(tuple(sorted(st.items())) for st in c['disk']),
            None if cb is None else tuple(cb))


def _public(c):
    return {k: c[k] for k in ('name', 'single', 'files', 'disk', 'top', 'pieces', 'pl', 'extra', 'xverify', 'cseed')}


def evaluate(ctx, drv, cases):
    reqs, owner = [], []
    for ci, c in enumerate(cases):
        for cb in callbacks_for(c):
            reqs.append(driver_request(c, cb))
            owner.append(ci)
    replies = drv.run(reqs)
    per_case = {}
    for ci, r in zip(owner, replies):
        per_case.setdefault(ci, []).append(r)
    results = common.pmap(_run_chunk, common.split(cases, common.NPROC * 8))
    ci = -1
    for chunk in results:
        for (c, obs) in chunk:
            ci += 1
            case = _public(c)
            if 'harness_exc' in obs:
                ctx.machinery_error('harness could not build/run the case: ' + obs['harness_exc'], case)
                continue
            reps = per_case[ci]
            nofilesize_true = None
            for run_, rep in zip(obs['runs'], reps):
                cb = run_['cb']
                sub = dict(case, cb=cb)
                bad = sum(1 for e in rep['errs'] if e is not None)
                dirs = any(st['kind'] == 'dir' for st in c['disk'])
                nontriv = (len(c['files']) >= 2 and bad >= 1) or bool(cb) or dirs
                ctx.case(key=_key(c, cb), nontrivial=nontriv,
                         kind=f"{c['shape']}/{'nocb' if cb is None else 'passive' if cb == [] else 'cancel'}")
                if not rep['hyp']:
                    ctx.machinery_error('generator produced a layout outside the hypothesis WF', sub)
                    continue
                if not rep['modelEqSpec']:
                    ctx.machinery_error('model != spec although C20_refines is proved', sub)
                    continue
                impl = {'res': run_['res'], 'calls': run_['calls']}
                spec = rep['spec']
                if cb is None:
                    nofilesize_true = run_['res'] == {'ok': True}
                ok = impl == spec
                if ok and 'raised' in run_['res'] and run_['res']['raised'][0] in ('read', 'verifyFileSize', 'verifyIsDir'):
                    # the raised error must name the first offending listed file
                    first = 0 if rep['singleAtDir'] else next((i for i, e in enumerate(rep['errs']) if e is not None), None)
                    if run_['which'] != first:
                        ok = False
                        impl = dict(impl, which=run_['which'])
                        spec = dict(spec, which=first)
                if not ok:
                    ctx.violation('verify_filesize() deviates from the specification (result / raised error / '
                                  'callback trace)', sub, spec, impl, finding_matchers=MATCHERS)
                    continue
                if any(st['kind'] == 'dir-dangling' for st in c['disk']):
                    ctx.dist['outside-model(dir-dangling)-but-meets-spec'] += 1
                elif impl != rep['model'] and 'which' not in impl:
                    ctx.corr_break('c20.verify', sub, rep['model'], impl)
            if not obs.get('metainfo_unchanged', True):
                ctx.violation('verify_filesize() changed the metainfo', case, 'unchanged', 'changed',
                              finding_matchers=MATCHERS)
            if 'verify' in obs:
                ctx.dist['xverify'] += 1
                for k in ('verify', 'verify_cb'):
                    if obs[k] is True:
                        ctx.dist['xverify-true'] += 1
                        if nofilesize_true is not True:
                            ctx.violation('verify() succeeds on a path on which verify_filesize() does not',
                                          dict(case, cb=None), {'verify_filesize': True},
                                          {'verify': obs[k], 'verify_filesize': obs['runs'][0]['res']},
                                          finding_matchers=MATCHERS)
                # bookkeeping only (C02's business): does verify agree with C02's success condition?
                c02 = reps[0]['valid'] and reps[0]['presentExact'] and c['pieces'] == 'real'
                if (obs['verify'] is True) != c02:
                    ctx.dist['verify-differs-from-C02-success-condition'] += 1
                if nofilesize_true and obs['verify'] is not True:
                    ctx.dist['filesize-true-but-verify-not (converse need not hold)'] += 1
            if len(c['files']) >= 2 and any(e is not None for e in reps[0]['errs']) and reps[0]['valid']:
                ctx.sample({'case': dict(case, cb=obs['runs'][1]['cb']), 'impl': obs['runs'][1]['res'],
                            'calls': obs['runs'][1]['calls'][:4], 'nocallback': obs['runs'][0]['res']})


# --------------------------------------------------------------------------------------------
# histories

def _hist_public(h):
    return {k: h[k] for k in ('history', 'init', 'steps', 'cseed', 'shape', 'label', 'topname') if k in h}


def evaluate_histories(ctx, drv, hs):
    import hashlib
    import json
    results = common.pmap(c20hist.run_chunk, common.split(hs, common.NPROC * 8))
    flat = [x for chunk in results for x in chunk]
    reqs, idx = [], []
    for hi, (h, res) in enumerate(flat):
        if 'harness_exc' in res:
            ctx.machinery_error('harness could not run the history: ' + res['harness_exc'], _hist_public(h))
            continue
        reqs.append(res['lean'])
        idx.append(hi)
    replies = dict(zip(idx, drv.run(reqs)))
    for hi, (h, res) in enumerate(flat):
        if hi not in replies:
            continue
        pub = _hist_public(h)
        hkey = hashlib.sha1(json.dumps(pub, sort_keys=True, default=str).encode()).hexdigest()[:16]
        for pr in res['problems']:
            ctx.violation(pr['what'], {'history': pub, 'step': pr['step']}, pr['expected'], pr['observed'],
                          finding_matchers=MATCHERS)
        if res['cut']:
            ctx.dist['history-left-the-abstraction(cut)'] += 1
        metas = list(res['lean']['objs'])
        seen_lookup = changed_after_lookup = False
        last_disk_or_edit = 0
        steps = replies[hi]['steps']
        for oi, (op, ob, rep) in enumerate(zip(res['lean']['ops'], res['obs'], steps)):
            k = op['k']
            cur = metas[op['o']] if op['o'] < len(metas) else None
            if k in ('edit', 'setter'):
                metas[op['o']] = op['meta']
            elif k == 'copy':
                metas.append(cur)
            if k in ('edit', 'setter', 'copy'):
                if seen_lookup:
                    changed_after_lookup = True
                if ob and ob.get('setter_error'):
                    ctx.dist['history-setter-raised'] += 1
                continue
            # disk changes between lean ops: a disk step after a lookup also counts as a change
            si = ob['step'] if ob else None
            if si is not None and seen_lookup and any(st['op'] == 'disk' for st in h['steps'][last_disk_or_edit:si]):
                changed_after_lookup = True
            if si is not None:
                last_disk_or_edit = si
            was_seen = seen_lookup
            seen_lookup = True
            if ob is None:
                continue                                  # the lookups inside verify(): nothing observable
            case = {'history': pub, 'step': si, 'lean_op': {x: op[x] for x in op if x != 'fs'}, 'meta': cur}
            if k == 'check':
                case['fs'] = op['fs']
            kind = k if k != 'check' else ('check-nocb' if op['cb'] is None else 'check-raises' if op['raises']
                                           else 'check-passive' if op['cb'] == [] else 'check-cancel')
            ctx.case(key=('hist', hkey, oi), nontrivial=was_seen and changed_after_lookup, kind=f"{h['shape']}/{kind}")
            if rep.get('memoDiffers'):
                ctx.dist['history-ops-on-which-the-memoising-variant-differs'] += 1
            if not rep['hyp']:
                ctx.dist['history-op-outside-hypothesis(not judged)'] += 1
                continue
            if not rep['modelEqSpec']:
                ctx.machinery_error('history: model != spec although C20_history_spec is proved', case)
                continue
            impl, spec = ob['impl'], rep['spec']
            ok = impl == spec
            if k == 'lookupAll' and ob.get('extra_leaves'):
                ok = False
                impl = {'sizes': impl, 'extra_leaves': ob['extra_leaves']}
            if ok and k == 'check' and 'raised' in impl['res'] and impl['res']['raised'][0] in ('read', 'verifyFileSize', 'verifyIsDir'):
                first = 0 if rep['singleAtDir'] else next((i for i, e in enumerate(rep['errs']) if e is not None), None)
                if ob['which'] != first:
                    ok = False
                    impl = dict(impl, which=ob['which'])
                    spec = dict(spec, which=first)
            if not ok:
                what = {'check': 'verify_filesize() in a history deviates from the specification evaluated on the current '
                                 'metainfo and disk (result / raised error / callback trace)',
                        'lookup': 'partial_size() in a history deviates from the specification evaluated on the current metainfo',
                        'lookupAll': 'filetree in a history deviates from the current metainfo',
                        'props': 'size / pieces / files in a history deviate from the current metainfo'}[k]
                ctx.violation(what, case, spec, impl, finding_matchers=MATCHERS)
                continue
            if impl != rep['model']:
                ctx.corr_break('c20.history/' + k, case, rep['model'], impl)
            if 'verify' in ob:
                ctx.dist['history-verify'] += 1
                if ob['verify'] is True:
                    ctx.dist['history-verify-true'] += 1
                    if impl['res'] != {'ok': True}:
                        ctx.violation('verify() succeeds on a path on which verify_filesize() does not (same object, same '
                                      'moment of a history)', case, {'verify_filesize': True},
                                      {'verify': True, 'verify_filesize': impl['res']}, finding_matchers=MATCHERS)
                # bookkeeping only (C02's business): verify() True outside C02's success condition
                if (ob['verify'] is True) and not (rep['valid'] and rep['presentExact']):
                    ctx.dist['history-verify-true-outside-C02-success-condition'] += 1
            if k == 'check' and was_seen and changed_after_lookup and any(e is not None for e in rep['errs']) and len(ctx.samples) < 9 \
                    and h['shape'] != 'hist-exhaustive':
                ctx.sample({'history_steps': h['steps'], 'init': h['init'], 'at_step': si, 'meta_now': cur,
                            'impl': impl}, limit=9)


# --------------------------------------------------------------------------------------------
# spellings of the content path

def _sc_public(sc):
    return {k: v for k, v in sc.items()}


def evaluate_spellings(ctx, drv, scs):
    import hashlib
    import json
    results = common.pmap(c20path.run_chunk, common.split(scs, common.NPROC * 8))
    flat = [x for chunk in results for x in chunk]
    reqs, owner = [], []
    for si, (sc, res) in enumerate(flat):
        if 'harness_exc' in res:
            ctx.machinery_error('harness could not run the spelling scenario: ' + res['harness_exc'], _sc_public(sc))
            continue
        for pi, sp in enumerate(res['spells']):
            for ri, run_ in enumerate(sp['runs']):
                reqs.append({'op': 'c20.spelling', 'nodes': res['nodes'], 'cwd': sp['cwd'], 'dirTotals': res['totals'],
                             'path': sp['text'], 'meta': res['meta'], 'cb': run_['cb'], 'measured': sp['measured']})
                owner.append((si, pi, ri))
    replies = dict(zip(owner, drv.run(reqs)))
    for si, (sc, res) in enumerate(flat):
        if 'harness_exc' in res:
            continue
        pub = _sc_public(sc)
        skey = hashlib.sha1(json.dumps(pub, sort_keys=True, default=str).encode()).hexdigest()[:16]
        for pi, sp in enumerate(res['spells']):
            nocb_true = None
            rep0 = None
            for ri, run_ in enumerate(sp['runs']):
                rep = replies[(si, pi, ri)]
                rep0 = rep0 or rep
                cb = run_['cb']
                case = {'spelling': pub, 'label': sp['label'], 'path': sp['text'], 'form': sp['form'], 'cwd': sp['cwd'],
                        'cb': cb, 'resolves_to': rep['resolves'], 'measured': sp['measured']}
                plainsp = sp['label'] in ('plain', 'rel plain', 'lexical-tree-itself', 'lexical-tree-2-itself')
                ctx.case(key=('spell', skey, pi, sp['form'], None if cb is None else tuple(cb)), nontrivial=not plainsp,
                         kind=f"{sc['shape']}/{'nocb' if cb is None else 'passive' if cb == [] else 'cancel'}")
                if rep['variantDiffers']:
                    ctx.dist['spelling-runs-on-which-the-normpath-variant-differs'] += 1
                if not rep['hyp']:
                    ctx.dist['spelling-outside-hypothesis(not judged)'] += 1
                    continue
                if not rep['specEqMeasured']:
                    ctx.machinery_error('spelling: the model of path resolution disagrees with the operating system '
                                        '(spec on the resolved tree != spec on what was measured through the spelling)',
                                        dict(case, spec=rep['spec'], specMeasured=rep['specMeasured']))
                    continue
                if not rep['modelEqSpec']:
                    ctx.machinery_error('spelling: model != spec although C20_path_spelling is proved', case)
                    continue
                impl, spec = run_['impl'], rep['spec']
                if cb is None:
                    nocb_true = impl['res'] == {'ok': True}
                ok = impl == spec
                if ok and 'raised' in impl['res'] and impl['res']['raised'][0] in ('read', 'verifyFileSize', 'verifyIsDir'):
                    first = 0 if rep['singleAtDir'] else next((i for i, e in enumerate(rep['errs']) if e is not None), None)
                    if run_['which'] != first:
                        ok = False
                        impl = dict(impl, error_names_listed_file=run_['which'])
                        spec = dict(spec, error_names_listed_file=first)
                if not ok:
                    ctx.violation('verify_filesize() on a spelled content path deviates from the specification evaluated on '
                                  'the tree the operating system resolves the path to (result / raised error / callback '
                                  'trace / which file the reported path denotes)', case, spec, impl, finding_matchers=MATCHERS)
                    continue
                if impl != rep['model']:
                    ctx.corr_break('c20.spelling', case, rep['model'], impl)
            if rep0 is not None and rep0['hyp'] and rep0['specEqMeasured']:
                ctx.dist['spelling-verify'] += 1
                if sp['verify'] is True:
                    ctx.dist['spelling-verify-true'] += 1
                    if nocb_true is not True:
                        ctx.violation('verify() succeeds on a spelled path on which verify_filesize() does not',
                                      {'spelling': pub, 'label': sp['label'], 'path': sp['text'], 'form': sp['form'],
                                       'cwd': sp['cwd'], 'cb': None}, {'verify_filesize': True},
                                      {'verify': True, 'verify_filesize': sp['runs'][0]['impl']['res']},
                                      finding_matchers=MATCHERS)
                if sp['label'] in ('link/..', 'rel ../ from cwd through link') and len(ctx.samples) < 11 and sc['shape'] == 'spelling-exhaustive' \
                        and sc['real'] != 'intact':
                    ctx.sample({'spelling': sp['text'].replace(os.environ.get('VERIF_SCRATCH', '\0'), '<scratch>'), 'cwd_relative': sp['label'].startswith('rel'),
                                'real_tree': sc['real'], 'tree_at_lexical_location': sc['lex'],
                                'impl_nocb': sp['runs'][0]['impl']['res'], 'verify': sp['verify']}, limit=11)


# --------------------------------------------------------------------------------------------
# worlds (descriptor limits, permissions, open() faults, FIFOs) and typed lengths

def evaluate_envs(ctx, drv, cases):
    reqs, owner = [], []
    for ci, c in enumerate(cases):
        for cb in c20env.callbacks_for(c):
            reqs.append(c20env.driver_request(c, cb))
            owner.append(ci)
    replies = drv.run(reqs)
    per_case = {}
    for ci, r in zip(owner, replies):
        per_case.setdefault(ci, []).append(r)
    results = common.pmap(c20env.run_chunk, common.split(cases, common.NPROC * 8))
    ci = -1
    for chunk in results:
        for (c, obs) in chunk:
            ci += 1
            case = {'envcase': c20env.public(c)}
            if 'harness_exc' in obs:
                ctx.machinery_error('harness could not build/run the world case: ' + obs['harness_exc'], case)
                continue
            if obs.get('skipped_after_hangs'):
                ctx.dist['world-case-with-a-FIFO-skipped-after-three-calls-that-did-not-return'] += 1
                continue
            reps = per_case[ci]
            plan = [{k: e[k] for k in e if k in ('kind', 'n')} for e in c20env.planned(c)]
            typed = any(f['len']['t'] != 'int' for f in c['files'])
            plain_runs = obs['worlds'][0]['runs']
            nocb_true = None
            for w in obs['worlds']:
                wname = w['env']
                ctx.dist['world:' + (wname if w['effective'] == wname else wname + '(not root: plain)')] += 1
                # the harness's own stat, asked inside the world, must be the plan (directories: kind only)
                meas = [dict(m) for m in w['measured']]
                want = [({'kind': 'dir'} if e['kind'] == 'dir' else e) for e in plan]
                if meas != want:
                    ctx.machinery_error('world case: the stat answers measured inside the world differ from the plan',
                                        dict(case, world=wname, measured=meas, planned=want))
                    continue
                for ri, (run_, rep) in enumerate(zip(w['runs'], reps)):
                    cb = run_['cb']
                    sub = dict(case, world=wname, cb=cb)
                    ctx.case(key=c20env.key(c, wname, cb), nontrivial=(wname != 'plain' or typed),
                             kind=f"{c['shape']}/{wname}/{'nocb' if cb is None else 'passive' if cb == [] else 'cancel'}")
                    if wname != 'plain' and rep['probeDiffers']:
                        ctx.dist['world-runs-on-which-a-readability-probe-would-differ'] += 1
                    if rep['intfmtDiffers']:
                        ctx.dist['runs-on-which-an-integer-only-conversion-of-the-length-would-differ'] += 1
                    if not rep['hyp']:
                        ctx.machinery_error('generator produced a layout outside the hypothesis WF', sub)
                        continue
                    if not rep['modelEqSpec']:
                        ctx.machinery_error('world case: model != spec although C20_env_refines is proved', sub)
                        continue
                    impl = {'res': run_['res'], 'calls': run_['calls']}
                    spec = rep['spec']
                    if cb is None and wname == 'plain':
                        nocb_true = run_['res'] == {'ok': True}
                    ok = impl == spec
                    if ok and 'raised' in run_['res'] and run_['res']['raised'][0] in ('read', 'verifyFileSize', 'verifyIsDir'):
                        first = 0 if rep['singleAtDir'] else next((i for i, e in enumerate(rep['errs']) if e is not None), None)
                        if run_['which'] != first:
                            ok = False
                            impl = dict(impl, which=run_['which'])
                            spec = dict(spec, which=first)
                    if not ok:
                        ctx.violation('verify_filesize() deviates from the specification evaluated on the stat answers of the '
                                      'world and the values of the recorded lengths (result / raised error / callback trace)',
                                      sub, spec, impl, finding_matchers=MATCHERS)
                        continue
                    if wname != 'plain' and ri < len(plain_runs):
                        pl_ = plain_runs[ri]
                        if {'res': pl_['res'], 'calls': pl_['calls']} != impl:
                            ctx.violation('verify_filesize() gives different verdicts in two worlds that agree on every stat '
                                          'answer', sub, {'res': pl_['res'], 'calls': pl_['calls']}, impl,
                                          finding_matchers=MATCHERS)
                            continue
                    if impl != rep['model'] and 'which' not in impl:
                        ctx.corr_break('c20.env', sub, rep['model'], impl)
            if not obs.get('metainfo_unchanged', True):
                ctx.violation('verify_filesize() changed the metainfo', case, 'unchanged', 'changed', finding_matchers=MATCHERS)
            if 'verify' in obs:
                ctx.dist['world-xverify'] += 1
                if obs['verify'] is True:
                    ctx.dist['world-xverify-true'] += 1
                    if nocb_true is not True:
                        ctx.violation('verify() succeeds on a path on which verify_filesize() does not (typed lengths)',
                                      dict(case, world='plain', cb=None), {'verify_filesize': True},
                                      {'verify': True, 'verify_filesize': plain_runs[0]['res']}, finding_matchers=MATCHERS)
            if len(obs['worlds']) > 1 and len(obs['worlds'][1]['runs']) > 1 and typed and len(c['files']) >= 2 \
                    and any(e is not None for e in reps[0]['errs']):
                ctx.sample({'world_case': c20env.public(c), 'world': obs['worlds'][1]['env'],
                            'passive_callback': obs['worlds'][1]['runs'][1]['calls'][:4],
                            'nocallback': obs['worlds'][1]['runs'][0]['res']}, limit=9)


def run(ctx, drv):
    ctx.notes['rule'] = RULE
    ctx.notes['assumptions'] = [
        'the torrent has no content path of its own (as after Torrent.read); then validate() only looks at the metainfo '
        '(modelled: piece length positive multiple of 16 KiB, pieces non-empty multiple of 20 with ceil(size/piece length) digests)',
        'layouts are well formed (DESIGN 6.1): pairwise distinct paths, components are plain names (no separator, not "", ".", ".."); '
        'for partial_size of arbitrary paths additionally no listed path is a directory prefix of another',
        'the file system is abstracted per listed path to missing | regular file of size n | directory whose files total n; '
        'symlinks are followed, dangling links are "missing"; unreadable directories / races are not modelled',
        '"exists with exactly the recorded size" includes a directory whose files total the recorded size in a multi-file '
        'torrent (torf measures with real_size); stated in C20_iff via AllGood',
        'float division in validate() is exact below 2^53',
        "full verification's success condition is C02's specification (AllGood and hashes match); the run-time cross-check "
        'uses the real verify()',
        'histories: the metainfo of the moment is read back from the plain mapping torrent.metainfo (for edits through the '
        'mapping it is compared with the harness\'s own shadow dict); what a setter does to the metainfo is not judged here; '
        'the disk does not change while a call is in progress; a torrent without file list (mode None) is a multi-file '
        'torrent with an empty list; a callback that raises ends the run like a cancelling one and its exception leaves '
        'verify_filesize()',
        'spelled paths: path resolution is the model of property C18 (Torf.Reuse.resolve on an inode table scanned from the '
        'real tree with lstat/readlink/listdir; 40 symbolic links per resolution; everything searchable — the checks run as '
        'root); its agreement with the operating system is checked on every case (specification on the resolved tree = '
        'specification on what os.stat finds through the spelling); the empty string and spellings that only resolve after '
        'pathlib has dropped a trailing slash or dot behind a regular file are not judged; reported paths are compared by '
        'what they denote (same file / same realpath), never as text; os.path / pathlib string functions are trusted',
        'worlds: the stat answers of a world are planned by the generator and measured by the harness with os.stat inside '
        'the very same world (a difference is a machinery error); a directory standing where a file is listed has to be '
        'listed to be totalled, so it is not generated in the no-descriptor world and stays readable in the others; a '
        'FIFO is, for stat, a non-directory of size 0; "does not return" = no return within 2 s of a call that takes '
        'about a millisecond; lowering RLIMIT_NOFILE, changing the effective uid and replacing functions of os / io / '
        'builtins happen only in forked workers and only while the call runs; without a root harness the uid world is '
        'the plain one (counted)',
        'typed lengths: int, bool and float objects are stored in the metainfo as generated; a float stands for its exact '
        'value (all generated floats are exactly representable); error objects are compared by the == value of '
        'actual_size / expected_size, not by their type; piece counts come from the values',
    ]
    corpus, hcorpus, scorpus, ecorpus = [], [], [], []
    cdir = os.path.join(common.CORPUS_DIR, 'C20')
    if os.path.isdir(cdir):
        import json
        for fn in sorted(os.listdir(cdir)):
            if fn.endswith('.json'):
                cc = json.load(open(os.path.join(cdir, fn)))['case']
                if 'history' in cc:
                    hcorpus.append(dict(cc['history'], shape='corpus-history'))
                elif 'spelling' in cc:
                    scorpus.append(dict(cc['spelling'], shape='corpus-spelling'))
                elif 'envcase' in cc:
                    ecorpus.append(dict(cc['envcase'], shape='corpus-world'))
                else:
                    corpus.append(dict(cc, shape='corpus'))
    cases = corpus + gen_cases(ctx)
    evaluate(ctx, drv, cases)
    evaluate_histories(ctx, drv, hcorpus + c20hist.gen_histories(ctx))
    evaluate_spellings(ctx, drv, scorpus + c20path.gen_scenarios(ctx))
    evaluate_envs(ctx, drv, ecorpus + c20env.gen_cases(ctx))
    ctx.exhaustive = False


def search(ctx, drv):
    evaluate(ctx, drv, gen_cases(ctx, scale=3.0))
    evaluate_histories(ctx, drv, c20hist.gen_histories(ctx, scale=3.0))
    evaluate_spellings(ctx, drv, c20path.gen_scenarios(ctx, scale=3.0))
    evaluate_envs(ctx, drv, c20env.gen_cases(ctx, scale=3.0))


def replay(ctx, drv, rp):
    c = dict(rp['case'])
    if 'history' in c:
        evaluate_histories(ctx, drv, [dict(c['history'], shape=c['history'].get('shape', 'replay'))])
    elif 'spelling' in c:
        evaluate_spellings(ctx, drv, [dict(c['spelling'])])
    elif 'envcase' in c:
        evaluate_envs(ctx, drv, [dict(c['envcase'])])
    else:
        c.pop('cb', None)
        c.setdefault('shape', 'replay')
        evaluate(ctx, drv, [c])
    return {'fails': bool(ctx.violations or ctx.corr_breaks), 'violations': ctx.violations,
            'corr_breaks': ctx.corr_breaks}
