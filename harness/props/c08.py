"""
C08 — untrusted input only ever produces documented errors.

Correspondence + specification check for `Torrent.read_stream` / `Torrent.read` on arbitrary bytes
and `Magnet.from_string` on arbitrary strings against the Lean model `Torf.Untrusted`.

* c08.read    observable: 'ok' | error kind (bdecode | metainfo | read | value | internal:<PyType>);
              for a returned torrent the kinds of validate(), dump(), dump(validate=False).
              Environment parameters of the model are *measured* in the worker, not fitted:
              frames available to decode_dict / dump (recursion limit − call depth), the allocation
              limit (RLIMIT_AS − current address space), datetime.fromtimestamp on the raw creation
              date, URL well-formedness of announce strings (urllib, independent of torf.utils).
* c08.magnet  observable: 'ok' | magnet | url | internal:<PyType>, the stored info hash and xl; the
              oracles urlparse / parse_qs / int() / is_url are computed by the harness with the
              standard library.
* cost        CPU time of every call against c·len + d; scaling families (doubling the input);
              thorough tier: peak RSS / peak address-space delta per input in a forked child.

SPEC (what the property demands, independent of the model): kind ∈ documented set; a torrent
returned with validate=True validates; validate()/dump() of a returned torrent ∈ {ok, metainfo}.
"""
import datetime
import json
import os
import re
import resource
import sys
import time
import urllib.parse

from harness import common
from harness.gen import untrusted as ugen
from harness.impl import pyval

RULE = ('read: fixed table of every shape the property names (length prefixes 10^k..10^30 and around 2^31/2^32/2^63, '
        'digit strings around the 4300 limit, creation date / private / info / pieces / announce of every wrong type, '
        'nesting 10..5000 around the measured recursion threshold under three recursion limits, duplicate / unsorted / '
        'non-UTF-8 keys, -0, leading zeros, trailing data) + field matrix: every field validate() or a getter looks at '
        '(announce, announce-list and its tiers/items, url-list, httpseeds, comment, created by, creation date, encoding, info, '
        'private, source, name, md5sum, piece length, length, pieces, files, files[i] and its md5sum / path / path components / '
        'length, unknown keys) x values of every decoded type and hostile text (non-ASCII letters, full-width / Arabic-Indic / '
        'superscript digits, NUL, newlines, bidi/BOM/zero-width, astral, empty, whitespace, 300..70000 characters, path-like, '
        'MD5 near misses, URL-like with hostile ports and hosts) x single-/multi-file x minimal/full layout + random MD5 near '
        'misses + keys harvested from the source under test at run time (AST of torf/*.py: every string constant used as a '
        'subscript, as argument of .get/.pop/.setdefault, in an in-test or ==-test, as key of a dict display, inside a tuple/list '
        'argument such as the key paths of assert_type [primary]; every other short constant of the code that is not a doc string '
        'or message [secondary]) x level (top level, info, a file entry) x values of every bencodable type (ints incl. negative '
        'and 10^30 / 2^63 / -2^1024, byte strings valid / not UTF-8 / numeric-looking / empty / long, lists, dicts, nested) x '
        'context (the four valid layouts and each with one required key removed: pieces, name, piece length, length / files, '
        "a file's length / path, info; and 'crowded' layouts in which every other harvested key the model does not know is "
        "present at every level with a number / a text / a nested mapping): read with validate=False always and validate=True "
        "for a share; a key outside the "
        'vocabulary of the model (op c08.keys) is also evaluated by the model on the input without it '
        '(C08_unknown_key_irrelevant) + number ladder: 0, 1, 2, 16383..16385, 2^31-1..2^31+1, 2^32, 2^53-1..2^53+1, 2^63-1..2^63+1, 2^64, 10^308, 2^1023, '
        '2^1024-1, 2^1024, 2^1024+1, 2^1025, 10^309, 10^400, 2^2048, 10^4298, 10^4299, 10^4300-1, 10^4300 and their negatives as '
        'length, files[0|1].length, piece length (the number, 16384 x it, the multiples of 16384 around it), creation date and '
        'private of single- and multi-file torrents, each as it is and fitted (piece length chosen so that the torrent validates '
        'and every later check and export is reached), 19 pairs of file lengths whose sum crosses a border + numbers stored as text: '
        '162 numeric-looking byte strings (digit runs of 1, 2, 10, 19, 20, 39, 308..310, 4299..4301, 5000, 10^5 digits as 9.., 10.., '
        '0.., 0..1; signs, white space, underscores, radix prefixes, exponent / float / inf / nan, Unicode decimal digits, other '
        'Unicode digits and numerics, look-alike signs, long mixed forms around the 4300-digit limit; not-UTF-8 variants) as creation '
        'date, private, length, piece length, files[i].length, pieces, encoding and as the port of the URL in announce, announce-list, '
        'url-list, httpseeds + short runs of 26 byte '
        'units at start / middle / end of the text of 19 fields + exhaustive strings over {d,l,e,i,1,0,:,-,a} up to length 4 '
        '(6 thorough) + truncation of seed torrents at every offset + seeded fuzz (bit flips, structure mutations, wrong '
        'types, hostile value at a random place, spliced length prefixes, deep values, slice delete/dup/reverse, random bytes), '
        'each with validate on/off and through bytes / BytesIO / Torrent.read(file), followed by validate(), dump(), '
        'dump(validate=False), infohash, magnet() on the returned torrent; magnets: fixed table (authority forms, xt variants incl. '
        'IGNORECASE specials, xl numerals, good/bad URLs in tr/ws/xs/as) + size dimensions (0, 1, 2, 10, 100, 999..1002, 3000 '
        '[thorough: ..20000] `&`-separated fields in 24 shapes: blank, without "=", repeated / distinct tr ws dn kt xl xt x_ unknown, '
        '`;`, mixed; single values of 4300..100000 characters; 40 percent-escapes valid/invalid/non-UTF-8/encoded separators in '
        '24 positions incl. parameter names) + runs (1, 40) of 63 units (every str.isspace() class, BOM / zero-width / LRM / RLM, '
        'escapes, separators, digits, hash letters, URL punctuation) at 18 positions + exact topics of 24 kinds (btih hex/base32, bare '
        'hashes, urn:btmh: multihash and its malformed forms, sha1, ed2k, tree:tiger, md5, aich, kzhash, bitprint, crc32, uuid) in 14 '
        'spellings of the prefix (case, percent-encoding, padding) alone, in all 100 ordered pairs of 10 core topics, 64 triples, 3..100 '
        'v2 topics with/without a v1 topic, xt.N, x_xt, topics in other parameters, 36 other parameters (so, x.pe, select-only, mt, '
        'fl, ...) + the numeric-looking strings as xl and as URL port + authority grid: userinfo (absent, user@, user:pw@, @, a@b@ '
        '[thorough + :@, user:p:w@, %40@, "us er@"]) x host (absent, name, IPv4, [IPv6], [IPv6%zone], unbalanced / bad brackets, IDN, '
        'empty label, space, 300 characters [thorough: 24 hosts]) x port (absent, ":", 80, 0, 65535, 65536, 99999, -1, x, 6881x, " 80", '
        'Arabic-Indic, superscript, 80:81, 20 and 4301 digits [thorough: 30 ports]) as authority of the magnet URI (8 placements of '
        'path and query, no query, upper-case scheme, scheme-less) and of the URL in tr / ws / xs / as + grammar (2 % with ~100..2500 '
        'fields) + '
        'mutations + random. cost: 25 size families + repeated-unit families (unit x position x entry point: 63 units x 18 magnet '
        'positions, 26 byte units x 3 positions x 19 torrent fields, 27 shapes of the encoding: digit runs in prefixes and '
        'integers, nesting, long keys, many small items), sizes n, 4n, 16n, process CPU time in a forked child under RLIMIT_CPU. '
        'non-trivial = read: the decoder does not stop with a plain DecodingError (the input decodes, or a primitive '
        'raises ValueError / OverflowError / MemoryError); magnet: urlparse gave scheme "magnet"; cost points always; '
        'distinct = distinct (input, validate, how, recursion limit) resp. distinct URI')

AS_LIMIT = 4 << 30          # RLIMIT_AS of the workers: makes the allocation limit a known number
GRAY = (0.5, 1.5)           # length prefixes within these factors of the limit are not compared with the model

# cost bounds claimed for the implementation (measured, not proved): CPU seconds and bytes
TIME_C, TIME_D = 20e-6, 0.5           # per input byte, constant
RSS_C, RSS_D = 400, 48 << 20          # peak RSS delta: bytes per input byte, constant
VM_C, VM_D = 1200, 256 << 20          # peak address-space delta


def ekind(e):
    n = type(e).__name__
    k = {'MetainfoError': 'metainfo', 'BdecodeError': 'bdecode', 'ReadError': 'read',
         'MagnetError': 'magnet', 'URLError': 'url'}.get(n)
    if k:
        return k
    if type(e) is ValueError:
        return 'value'
    return 'internal:' + n


def pretty(kind):
    """exception name for messages"""
    return {'value': 'ValueError', 'metainfo': 'MetainfoError', 'bdecode': 'BdecodeError', 'read': 'ReadError',
            'magnet': 'MagnetError', 'url': 'URLError'}.get(kind, kind.split(':', 1)[-1])


# ------------------------------------------------------------------------------------------ findings

def _m_memory(case, observed, finding):
    """D08f: the input holds a length prefix far beyond its own size and either MemoryError escapes
    or (cost probe) about that many bytes of address space were reserved"""
    if not isinstance(observed, dict) or case.get('maxprefix', 0) <= max(10 ** 8 - 1, 16 * case.get('len', 0)):
        return False
    if case.get('what') == 'address-space':
        return observed.get('vm', 0) >= case['maxprefix'] // 2
    return observed.get('read') == 'internal:MemoryError'


def _m_dump_recursion(case, observed, finding):
    """D08g: dump() / dump(validate=False) of a returned torrent raises RecursionError and the frame
    model agrees that encode_dict needs more frames than were available"""
    w = case.get('which')
    if not isinstance(observed, dict) or w not in ('dump', 'dumpnv') or observed.get(w) != 'internal:RecursionError':
        return False
    if case.get('enc_short') is not True:
        return False
    return w == 'dumpnv' or observed.get('validate') == 'ok'


def _m_quadratic_trackers(case, observed, finding):
    """D08h: super-linear time of from_string in the number of distinct tr/ws values"""
    return case.get('family') in ('magnet/distinct-tr', 'magnet/distinct-ws') and case.get('what') == 'scaling'


MATCHERS = {'memory_error_huge_prefix': _m_memory,
            'dump_recursion_deep': _m_dump_recursion,
            'quadratic_distinct_trackers': _m_quadratic_trackers}


# ------------------------------------------------------------------------------------------ workers

def _depth():
    f = sys._getframe(1)
    n = 0
    while f is not None:
        n += 1
        f = f.f_back
    return n


def _status():
    d = {}
    with open('/proc/self/status') as f:
        for line in f:
            if line.startswith(('VmPeak', 'VmSize', 'VmHWM', 'VmRSS')):
                k, v = line.split(':')
                d[k] = int(v.split()[0]) * 1024
    return d


_WORKER = {}


def _worker_init():
    if _WORKER:
        return
    torf = common.import_torf()
    import flatbencode
    try:
        resource.setrlimit(resource.RLIMIT_AS, (AS_LIMIT, AS_LIMIT))
        _WORKER['mem'] = AS_LIMIT - _status()['VmSize']
    except (ValueError, OSError):
        _WORKER['mem'] = None
    # warm the ABC caches / lazy imports so that frame counts are the steady-state ones
    warm = b'd1:ald1:ai1e1:b1:xeli1eee8:announce8:http://a13:creation datei1e' + ugen.VALID_INFO + b'e'
    for v in (True, False):
        t = torf.Torrent.read_stream(warm, validate=v)
        t.dump()
        t.dump(validate=False)
    try:
        torf.Torrent.read_stream(b'd1:a' + b'l' * 2000 + b'e' * 2000 + b'e')
    except Exception:   # noqa
        pass
    import gc
    gc.freeze()              # CPU time of a case must not depend on the size of the harness's heap
    _WORKER['torf'] = torf
    _WORKER['fb'] = flatbencode
    _WORKER['dir'] = common.worker_dir()


def ref_is_url(s):
    try:
        u = urllib.parse.urlparse(s)
        u.port
    except Exception:   # noqa
        return False
    return bool(u.scheme and u.netloc)


class _OSErrStream:
    def read(self, n=-1):
        raise OSError(5, 'Input/output error')


def _oracles(x):
    """creation-date conversion and URL table from an independent decode of the input"""
    fb = _WORKER['fb']
    cd, urls = None, []
    _WORKER['pieces_depth'] = 0
    try:
        top = fb.decode(x)
    except BaseException:   # noqa
        return cd, urls
    if not isinstance(top, dict):
        return cd, urls
    info = top.get(b'info')
    if isinstance(info, dict) and b'pieces' in info:
        _WORKER['pieces_depth'] = _nesting(info[b'pieces'])
    v = top.get(b'creation date')
    if isinstance(v, int):
        try:
            cd = {'ok': pyval.to_json(datetime.datetime.fromtimestamp(v))}
        except OverflowError:
            cd = {'raise': 'overflow'}
        except OSError:
            cd = {'raise': 'os'}
        except ValueError:
            cd = {'raise': 'value'}
    cand = []
    a = top.get(b'announce')
    if isinstance(a, bytes):
        cand.append(a)
    al = top.get(b'announce-list')
    if isinstance(al, list):
        for tier in al[:50]:
            if isinstance(tier, list):
                cand.extend(u for u in tier[:50] if isinstance(u, bytes))
    for b in cand:
        try:
            s = b.decode('utf8')
        except UnicodeDecodeError:
            continue
        urls.append([b.hex(), ref_is_url(s)])
    return cd, urls


def _nesting(v):
    """container nesting depth, iteratively"""
    best, stack = 0, [(v, 1)]
    while stack:
        w, d = stack.pop()
        if isinstance(w, dict):
            w = list(w.values())
        if isinstance(w, list):
            best = max(best, d)
            stack.extend((e, d + 1) for e in w if isinstance(e, (list, dict)))
    return best


def _call(fn):
    try:
        fn()
        return 'ok'
    except BaseException as e:   # noqa
        if isinstance(e, (KeyboardInterrupt, SystemExit)):
            raise
        return ekind(e)


def _one_read(c):
    """runs one case on the real code; returns the observation"""
    torf = _WORKER['torf']
    x = c['x']
    how = c.get('how', 'bytes')
    V = c['validate']
    D = _depth()
    limit0 = sys.getrecursionlimit()
    extra = c.get('rl')
    limit = limit0 if not extra else D + 1 + extra
    obs = {'mem': _WORKER['mem']}
    obs['cd'], obs['urls'] = _oracles(x)
    obs['pieces_depth'] = _WORKER['pieces_depth']
    path = None
    if how == 'file':
        path = os.path.join(_WORKER['dir'], 'in.torrent')
        with open(path, 'wb') as f:
            f.write(x)
    t = None
    t0 = time.process_time()
    sys.setrecursionlimit(limit)
    try:
        try:
            if how == 'bytes':
                t = torf.Torrent.read_stream(x, validate=V)
            elif how == 'bytearray':
                t = torf.Torrent.read_stream(bytearray(x), validate=V)
            elif how == 'stream':
                import io
                t = torf.Torrent.read_stream(io.BytesIO(x), validate=V)
            elif how == 'stream-oserror':
                t = torf.Torrent.read_stream(_OSErrStream(), validate=V)
            elif how == 'file':
                t = torf.Torrent.read(path, validate=V)
            elif how == 'file-oserror':
                t = torf.Torrent.read('/proc/self/mem', validate=V)
            else:
                t = torf.Torrent.read(os.path.join(_WORKER['dir'], 'does', 'not', 'exist'), validate=V)
            obs['read'] = 'ok'
        except BaseException as e:   # noqa
            if isinstance(e, (KeyboardInterrupt, SystemExit)):
                raise
            obs['read'] = ekind(e)
        if t is not None:
            try:
                t.validate()
                obs['validate'] = 'ok'
            except BaseException as e:   # noqa
                obs['validate'] = ekind(e)
            try:                                   # called from this frame: encFuel = limit - D
                t.dump()
                obs['dump'] = 'ok'
            except BaseException as e:   # noqa
                obs['dump'] = ekind(e)
            try:
                t.dump(validate=False)
                obs['dumpnv'] = 'ok'
            except BaseException as e:   # noqa
                obs['dumpnv'] = ekind(e)
            try:
                t.infohash
                obs['infohash'] = 'ok'
            except BaseException as e:   # noqa
                obs['infohash'] = ekind(e)
            try:
                t.magnet()
                obs['magnet'] = 'ok'
            except BaseException as e:   # noqa
                obs['magnet'] = ekind(e)
    finally:
        sys.setrecursionlimit(limit0)
    obs['cpu'] = time.process_time() - t0
    inner = 2 if how.startswith('file') else 1      # read() adds one frame above read_stream()
    obs['decFuel'] = limit - (D + inner)
    obs['encFuel'] = limit - D
    return obs


CASE_CPU_CAP = 60            # CPU seconds one judged case may use (bound for the largest input, 10 MB: 200 s; typical: ms)
CASE_MAX_KILLS = 2           # after this many killed cases the rest of a chunk is skipped (the kills are violations)


def _case_cap(c):
    """CPU seconds a judged case may use: 4 x the claimed bound, at least 10 s, at most CASE_CPU_CAP"""
    ln = len(c['x']) if 'x' in c else len(c['uri'].encode('utf8', 'surrogatepass'))
    return int(min(CASE_CPU_CAP, max(10, 4 * (TIME_C * ln + TIME_D))))


def _run_isolated(one, cases):
    """run `one(case)` for every case in a forked child whose RLIMIT_CPU is moved forward before each case: an input on
    which the code under test hangs (catastrophic regular expression, endless loop) costs CASE_CPU_CAP seconds instead of
    blocking the chunk.  A killed case comes back as {'timeout': True}; after CASE_MAX_KILLS kills the rest of the chunk
    comes back as {'skipped': True}"""
    import pickle
    _worker_init()
    out = [None] * len(cases)
    i = kills = 0
    while i < len(cases) and kills < CASE_MAX_KILLS:
        r, w = os.pipe()
        pid = os.fork()
        if pid == 0:
            try:
                os.close(r)
                f = os.fdopen(w, 'wb')
                for j in range(i, len(cases)):
                    resource.setrlimit(resource.RLIMIT_CPU, (int(time.process_time()) + _case_cap(cases[j]) + 1,
                                                             resource.RLIM_INFINITY))
                    pickle.dump(('start', j), f)
                    f.flush()
                    pickle.dump(('res', j, one(cases[j])), f)
                    f.flush()
            finally:
                os._exit(0)
        os.close(w)
        started = None
        progressed = False
        with os.fdopen(r, 'rb') as f:
            while True:
                try:
                    msg = pickle.load(f)
                except (EOFError, pickle.UnpicklingError):
                    break
                if msg[0] == 'start':
                    started = msg[1]
                else:
                    out[msg[1]] = msg[2]
                    started = None
                    i = msg[1] + 1
                    progressed = True
        os.waitpid(pid, 0)
        if started is not None:
            out[started] = {'timeout': True}
            kills += 1
            i = started + 1
        elif not progressed:
            break
    for j in range(len(cases)):
        if out[j] is None:
            out[j] = {'skipped': True}
    return out


def _run_read_chunk(cases):
    return _run_isolated(_one_read, cases)


def _bmp(v):
    """no lone surrogates / astral characters anywhere (the JSON transport to the driver is BMP-only)"""
    if isinstance(v, str):
        return not any(0xd800 <= ord(ch) <= 0xdfff or ord(ch) > 0xffff for ch in v)
    if isinstance(v, (list, tuple)):
        return all(_bmp(x) for x in v)
    if isinstance(v, dict):
        return all(_bmp(k) and _bmp(x) for k, x in v.items())
    return True


def _magnet_oracles(uri):
    o = {'urlparse': None, 'qs': [], 'urls': [], 'ints': [], 'pct': []}
    try:
        info = urllib.parse.urlparse(uri.strip(), scheme='magnet', allow_fragments=False)
    except ValueError:
        return o
    o['urlparse'] = [info.scheme, info.query]
    o['stripped'] = uri.strip()
    try:                                   # lazily validated attribute (the unchanged from_string does not read it)
        info.port
        o['portRaises'] = False
    except ValueError:
        o['portRaises'] = True
    qs = urllib.parse.parse_qs(info.query)
    # unquote() of every name / value that holds a '%' (after '+' -> ' '), for the modelled parse_qs
    pct = {}
    if '%' in info.query:
        for nv in info.query.split('&'):
            for part in nv.split('=', 1):
                part = part.replace('+', ' ')
                if '%' in part and part not in pct:
                    pct[part] = urllib.parse.unquote(part)
    o['pct'] = [[k, v] for k, v in pct.items()]
    o['qs'] = [[k, list(v)] for k, v in qs.items()]
    seen = set()
    for k in ('xs', 'as', 'tr', 'ws'):
        for v in qs.get(k, []):
            for w in (v, v.replace(' ', '+')):       # MonitoredList coerces tr/ws items twice (see Model mkUrl2)
                if w not in seen:
                    seen.add(w)
                    o['urls'].append([w, ref_is_url(w)])
    for v in dict.fromkeys(qs.get('xl', [])):
        try:
            o['ints'].append([v, pyval._int_str(int(v))])
        except ValueError:
            o['ints'].append([v, None])
    return o


def _one_magnet(c):
    torf = _WORKER['torf']
    uri = c['uri']
    obs = {}
    t0 = time.process_time()
    try:
        m = torf.Magnet.from_string(uri)
        obs['kind'] = 'ok'
        obs['infohash'] = m.infohash
        obs['xl'] = None if m.xl is None else pyval._int_str(m.xl)
    except BaseException as e:   # noqa
        if isinstance(e, (KeyboardInterrupt, SystemExit)):
            raise
        obs['kind'] = ekind(e)
    obs['cpu'] = time.process_time() - t0
    if c.get('modelled', True):
        obs['oracle'] = _magnet_oracles(uri)
    return obs


def _run_magnet_chunk(cases):
    return _run_isolated(_one_magnet, cases)


def _pmap(fn, chunks, timeout):
    """fork pool with a wall-clock limit; a timeout comes back as None for that chunk"""
    import multiprocessing as mp
    common.scratch_root()
    if not chunks:
        return []
    pool = mp.get_context('fork').Pool(min(common.NPROC, len(chunks)))
    try:
        rs = [pool.apply_async(fn, (ch,)) for ch in chunks]
        out = []
        deadline = time.time() + timeout
        for r in rs:
            try:
                out.append(r.get(max(1.0, deadline - time.time())))
            except mp.TimeoutError:
                out.append(None)
        return out
    finally:
        pool.terminate()
        pool.join()


def _run_all(fn, cases, timeout, ctx, what):
    """run cases in chunks; cases of a chunk that timed out are re-run one by one so that the input
    that hangs is identified (a hang violates "time bounded by the input size")"""
    chunks = common.split(cases, common.NPROC * 4)
    res = _pmap(fn, chunks, timeout)
    out = []
    for ch, r in zip(chunks, res):
        if r is not None:
            for c, o in zip(ch, r):
                if o.get('timeout'):
                    ctx.violation(f'{what}: no result within {_case_cap(c)} s of CPU time for an input of '
                                  f'{len(c.get("x", c.get("uri", "")))} bytes (bound {TIME_C}*len+{TIME_D})',
                                  _case_json(c), expected='time <= c*len + d', observed='killed by RLIMIT_CPU',
                                  finding_matchers=MATCHERS)
                    out.append(None)
                elif o.get('skipped'):
                    ctx.dist['skipped-after-%d-killed-cases-in-the-chunk' % CASE_MAX_KILLS] += 1
                    out.append(None)
                else:
                    out.append(o)
            continue
        for c in ch:
            r1 = _pmap(fn, [[c]], 60)[0]
            if r1 is None:
                ctx.violation(f'{what}: no result within 60 s for an input of {len(c.get("x", c.get("uri", "")))} bytes',
                              _case_json(c), expected='time <= c*len + d', observed='timeout',
                              finding_matchers=MATCHERS)
                out.append(None)
            else:
                out.extend(r1)
    return out


# ------------------------------------------------------------------------------------------ evaluation

PREFIX_RE = re.compile(rb'(?<![0-9])([0-9]{1,40}):')


def _maxprefix(x):
    m = 0
    for g in PREFIX_RE.finditer(x[:200000]):
        m = max(m, int(g.group(1)))
    return m


def _case_json(c):
    j = {k: v for k, v in c.items() if k not in ('x', 'x_without')}
    if c.get('x_without') is not None:
        j['x_without'] = c['x_without'].hex()          # the same torrent with the harvested key absent
    if 'x' in c:
        x = c['x']
        j['len'] = len(x)
        if len(x) <= 4096:
            j['x'] = x.hex()
        else:
            j['x_head'] = x[:256].hex()
            j['x_tail'] = x[-64:].hex()
            j['x_sha1'] = common.sha1(x).hex()
            j['x_recipe'] = c.get('recipe')
    return j


_VOCABULARY = {}


def _outside_vocabulary(drv, hkey):
    """is the harvested key outside the key set of the model at its level (op c08.keys = Model/KeyVocabulary.lean)"""
    if not hkey:
        return False
    if not _VOCABULARY:
        _VOCABULARY.update(drv.run([{'op': 'c08.keys'}])[0])
    try:
        return bytes.fromhex(hkey['key']).decode('utf8') not in _VOCABULARY[hkey['level']]
    except UnicodeDecodeError:
        return True


def _drv_run(drv, reqs):
    """the driver is a filter process: run several instances side by side"""
    if len(reqs) < 200:
        return drv.run(reqs)
    from concurrent.futures import ThreadPoolExecutor
    chunks = common.split(reqs, common.NPROC)
    with ThreadPoolExecutor(len(chunks)) as ex:
        return [r for part in ex.map(drv.run, chunks) for r in part]


def evaluate_read(ctx, drv, cases):
    for c in cases:
        c.setdefault('validate', True)
        c.setdefault('how', 'bytes')
    t_impl = time.time()
    obs_all = _run_all(_run_read_chunk, cases, ctx.n(600, 3000), ctx, 'read_stream')
    ctx.notes.setdefault('phase_s', {})['read_impl'] = round(ctx.notes.get('phase_s', {}).get('read_impl', 0) + time.time() - t_impl, 1)
    reqs, idx = [], []
    for i, (c, o) in enumerate(zip(cases, obs_all)):
        if o is None or not c.get('modelled', True) or len(c['x']) > 300000:
            continue
        how = {'bytearray': 'bytes'}.get(c['how'], c['how'])
        reqs.append({'op': 'c08.read', 'x': c['x'].hex(), 'validate': c['validate'], 'how': how,
                     'mem': o['mem'] if o['mem'] is not None else 2 ** 62, 'decFuel': o['decFuel'],
                     'encFuel': o['encFuel'], 'encFuelNV': o['encFuel'], 'cd': o['cd'], 'urls': o['urls']})
        if c.get('x_without') is not None and _outside_vocabulary(drv, c.get('hkey')):
            # a harvested key the model does not know: the model is also evaluated on the input without it
            reqs[-1]['xw'] = c['x_without'].hex()
        idx.append(i)
    replies = dict(zip(idx, _drv_run(drv, reqs)))
    for i, (c, o) in enumerate(zip(cases, obs_all)):
        if o is None:
            continue
        m = replies.get(i)
        x = c['x']
        case = _case_json(c)
        case['maxprefix'] = _maxprefix(x)
        case['env'] = {'decFuel': o['decFuel'], 'encFuel': o['encFuel'], 'mem': o['mem']}
        case['pieces_depth'] = o['pieces_depth']
        if o['pieces_depth'] >= 500:
            # regression family of the repaired finding D08i (/repo 3420ff7): compared like every other case
            ctx.dist['deep-pieces(ex-D08i)' + ('/validate' if c['validate'] else '')] += 1
        I = {k: o[k] for k in ('read', 'validate', 'dump', 'dumpnv', 'infohash', 'magnet') if k in o}
        if m and 'keyAgree' in m:
            # the key of this case is outside the model's vocabulary: by C08_unknown_key_irrelevant the model's verdict
            # is the one for the input without the key; a reaction of the code to the key shows below as a difference
            # between code and model on this input
            ctx.dist['harvested key outside the model vocabulary (judged against the model without it)'] += 1
            case['unknown_key'] = dict(c['hkey'], key=bytes.fromhex(c['hkey']['key']).decode('utf8', 'replace'),
                                       model_without=m['without'])
            if not m['keyAgree'] or (c['hkey']['level'] == 'top' and not m['infohashAgree']):
                ctx.machinery_error('the model tells apart two inputs that differ only under a key outside its vocabulary '
                                    '(contradicts C08_unknown_key_irrelevant)', case)
        inside = c['how'] not in ('bytes', 'bytearray') or len(x) <= 10 ** 7
        model = m['model'] if m else None
        hyps = m['hyps'] if m else {}
        case['enc_short'] = (hyps.get('encFuel') is False or hyps.get('encFuelNV') is False) if m else None
        key = (x if len(x) <= 4096 else common.sha1(x), c['validate'], c['how'], c.get('rl'))
        nontrivial = bool(model and model['parse'] != 'DecodingError')
        ctx.case(key=repr(key), nontrivial=nontrivial, kind=c['kind'] + ('' if inside else '/beyond-limit'))
        ctx.dist['read-outcome:' + I['read']] += 1
        if len(ctx.samples) < 4 and nontrivial and c['kind'].startswith('seed/'):
            ctx.sample({'case': {k: case[k] for k in ('kind', 'validate', 'how', 'len') if k in case} |
                        {'x': x[:80].hex() + ('…' if len(x) > 80 else '')}, 'impl': I, 'model': model})
        # ---- specification on the implementation
        if inside:
            spec_read = m['spec']['read'] if m else ['ok', 'bdecode', 'metainfo', 'read']
            spec_ret = m['spec']['returned'] if m else ['ok', 'metainfo']
            if I['read'] not in spec_read:
                ctx.violation(f"read raised {pretty(I['read'])} (documented: BdecodeError, MetainfoError, ReadError)",
                              dict(case, which='read'), expected=spec_read, observed=I, finding_matchers=MATCHERS)
            elif I['read'] == 'ok':
                if c['validate'] and I['validate'] != 'ok':
                    ctx.violation('torrent returned with validate=True does not pass validate()', case,
                                  expected='validate ok', observed=I, finding_matchers=MATCHERS)
                for k in ('validate', 'dump', 'dumpnv', 'infohash'):
                    if I[k] not in spec_ret:
                        ctx.violation(f'{k}{"" if k == "infohash" else "()"} of a returned torrent raised {pretty(I[k])} '
                                      f'(allowed: success or MetainfoError)',
                                      dict(case, which=k), expected=spec_ret, observed=I, finding_matchers=MATCHERS)
                # magnet(): infohash first (its error is magnet()'s error), then the name / size / trackers /
                # webseeds getters and the Magnet constructor.  URLError / TypeError from that tail for metainfo that
                # validates is C07's open finding D07i (url-list is never validated, a URL may be refused by the
                # URL class although is_url accepts it): counted, not judged here.  Anything else is a violation.
                if I['infohash'] != 'ok':
                    if I['magnet'] != I['infohash']:
                        ctx.violation(f"magnet() of a returned torrent raised {pretty(I['magnet'])} although infohash raised "
                                      f"{pretty(I['infohash'])}", dict(case, which='magnet'), expected=[I['infohash']],
                                      observed=I, finding_matchers=MATCHERS)
                elif I['magnet'] in ('url', 'internal:TypeError'):
                    ctx.dist['magnet()-tail:' + I['magnet'] + ' (C07 finding D07i, not judged)'] += 1
                elif I['magnet'] not in spec_ret:
                    ctx.violation(f"magnet() of a returned torrent raised {pretty(I['magnet'])} (allowed: success or MetainfoError)",
                                  dict(case, which='magnet'), expected=spec_ret, observed=I, finding_matchers=MATCHERS)
        # ---- cost (CPU time of read + validate + 2 dumps)
        if o['cpu'] > TIME_C * len(x) + TIME_D:
            ctx.violation(f"CPU time {o['cpu']:.2f}s exceeds {TIME_C}*len+{TIME_D} for {len(x)} bytes", case,
                          expected='time <= c*len + d', observed={'cpu': o['cpu']}, finding_matchers=MATCHERS)
        if not m:
            continue
        if model['steps'] > 3 * min(len(x), 10 ** 7) + 3:
            ctx.machinery_error('model steps exceed 3*len+3 (contradicts C08_read_steps)', case)
        # ---- correspondence and theorem sanity
        mp = case['maxprefix']
        gray = o['mem'] is None or (GRAY[0] * o['mem'] <= mp <= GRAY[1] * o['mem'])
        hyp = bool(m['hyp'])
        if hyp and inside and model['read'] not in m['spec']['read']:
            ctx.machinery_error('model read outcome outside the documented set under the hypothesis '
                                '(contradicts C08_read_total)', case)
        if gray:
            ctx.dist['gray-zone-memory'] += 1
            continue
        if not hyp and inside:
            ctx.dist['outside-hyp'] += 1
        if model['read'] != I['read']:
            ctx.corr_break('c08.read', case, model, I)
            continue
        if I['read'] == 'ok':
            if model['validate'] != I['validate']:
                ctx.corr_break('c08.read/validate', case, model, I)
            if hyps.get('encOrder'):
                if model['dump'] != I['dump'] or model['dumpnv'] != I['dumpnv']:
                    ctx.corr_break('c08.read/dump', case, model, I)
            else:
                ctx.dist['enc-order-ambiguous'] += 1
            # infohash: the frames of its encoder path are not modelled; compared when there is a margin
            if model['encNeed'] + 10 <= o['encFuel']:
                if model['infohash'] != I['infohash']:
                    ctx.corr_break('c08.read/infohash', case, model, I)
                if hyps.get('files') and model['infohash'] not in m['spec']['returned']:
                    ctx.machinery_error('model infohash outside {ok, metainfo} although info.files is not a mapping '
                                        '(contradicts C08_returned_infohash)', case)
            if c['validate'] and model['validate'] != 'ok':
                ctx.machinery_error('model returned a torrent with validate=True that does not validate '
                                    '(contradicts C08_read_total)', case)


def _bucket(n):
    for b in (0, 1, 10, 100, 999, 1000, 1001, 5000):
        if n <= b:
            return '<=%d' % b
    return '>5000'


def evaluate_magnet(ctx, drv, cases):
    obs_all = _run_all(_run_magnet_chunk, cases, ctx.n(300, 1500), ctx, 'Magnet.from_string')
    reqs, idx = [], []
    for i, (c, o) in enumerate(zip(cases, obs_all)):
        if o is None or 'oracle' not in o:
            continue
        if not _bmp(c['uri']) or not _bmp(o['oracle']):
            continue
        reqs.append({'op': 'c08.magnet', 'uri': c['uri'], **o['oracle']})
        idx.append(i)
    replies = dict(zip(idx, _drv_run(drv, reqs)))
    for i, (c, o) in enumerate(zip(cases, obs_all)):
        if o is None:
            continue
        m = replies.get(i)
        case = {'kind': c['kind'], 'uri': c['uri'] if len(c['uri']) <= 20000 else c['uri'][:500] + '…',
                'len': len(c['uri'])}
        if 'fields' in c:
            case['fields'] = c['fields']         # recipe: ugen.magnet_sizes() entry with this kind and number
        up = (o.get('oracle') or {}).get('urlparse')
        ctx.case(key='M' + c['uri'], nontrivial=bool(up and up[0] == 'magnet'), kind=c['kind'])
        ctx.dist['magnet-outcome:' + o['kind']] += 1
        if len(ctx.samples) < 6 and c['kind'] == 'magnet/grammar' and up and up[0] == 'magnet':
            ctx.sample({'case': case, 'impl': o['kind'], 'model': m and m['model']})
        if o['kind'] not in ('ok', 'magnet', 'url'):
            ctx.violation(f"Magnet.from_string raised {pretty(o['kind'])} (documented: MagnetError, URLError)", case,
                          expected=['ok', 'magnet', 'url'], observed=o['kind'], finding_matchers=MATCHERS)
        if o['cpu'] > TIME_C * len(c['uri'].encode('utf8', 'surrogatepass')) + TIME_D:
            ctx.violation(f"CPU time {o['cpu']:.2f}s exceeds {TIME_C}*len+{TIME_D}", case,
                          expected='time <= c*len + d', observed={'cpu': o['cpu']}, finding_matchers=MATCHERS)
        if not m:
            ctx.dist['magnet-impl-only'] += 1
            continue
        model = m['model']
        ctx.dist['magnet-fields:' + _bucket(m['numFields'])] += 1
        if not m['stripAgree'] or m['stripSteps'] > len(c['uri']) + 2:
            ctx.machinery_error('the Lean model of str.strip() disagrees with CPython on this string, or its step count exceeds '
                                'len+2 (Model/PyStrip.lean is wrong / contradicts C08_strip_steps)', case)
        if m.get('portReadKind') == 'internal:ValueError':
            ctx.dist['magnet: a read of .port after the scheme test would raise (C08_magnet_port_read_raises)'] += 1
        if not m['intAgree']:
            ctx.machinery_error('the Lean model of int() on ASCII strings disagrees with CPython on an xl value of this URI '
                                '(Model/PyInt.lean is wrong)', case)
        if not m['qsAgree']:
            ctx.machinery_error('the Lean model of urllib.parse.parse_qs disagrees with the standard library on this query '
                                '(Model/QueryString.lean is wrong)', case)
        if m['hyp'] and model['kind'] not in m['spec']:
            ctx.machinery_error('model magnet outcome outside the documented set (contradicts C08_magnet_documented)', case)
        if m['hypOracle'] and m['modelOracleQs'] not in m['spec']:
            ctx.machinery_error('model magnet outcome (parse_qs as oracle) outside the documented set '
                                '(contradicts C08_magnet_total)', case)
        I = {'kind': o['kind'], 'infohash': o.get('infohash'), 'xl': o.get('xl')}
        if model != I:
            ctx.corr_break('c08.magnet', case, model, I)


# ------------------------------------------------------------------------------------------ cost

def _fam_read(name, n):
    """scaling families for read_stream: input of about n bytes"""
    V = ugen.VALID_INFO
    if name == 'read/many-files':
        k = max(1, n // 40)
        files = b''.join(b'd6:lengthi1e4:pathl5:%05deee' % (i % 100000) for i in range(k))
        pieces = b'x' * (20 * (-(-k // 16384)))
        return (b'd4:infod5:filesl' + files + b'e4:name1:a12:piece lengthi16384e6:pieces' +
                str(len(pieces)).encode() + b':' + pieces + b'ee')
    if name == 'read/many-tiers':
        k = max(1, n // 20)
        return b'd13:announce-listl' + b'l10:http://a.be' * k + b'e' + V + b'e'
    if name == 'read/many-keys':
        k = max(1, n // 12)
        return b'd' + V + b''.join(b'6:z%05di1e' % i for i in range(min(k, 99999))) + b'e'
    if name == 'read/dup-keys':
        return b'd1:al' + b'd1:ai1e1:ai2ee' * max(1, n // 14) + b'e' + V + b'e'
    if name == 'read/deep':
        return b'd1:a' + b'l' * (n // 2) + b'e' * (n // 2) + V + b'e'
    if name == 'read/deep-unclosed':
        return b'd1:a' + b'l' * n
    if name == 'read/empty-dicts':
        return b'd1:al' + b'de' * (n // 2) + b'e' + V + b'e'
    if name == 'read/empty-lists':
        return b'd1:al' + b'le' * (n // 2) + b'e' + V + b'e'
    if name == 'read/small-ints':
        return b'd1:al' + b'i7e' * (n // 3) + b'e' + V + b'e'
    if name == 'read/short-strings':
        return b'd1:al' + b'1:\xff' * (n // 3) + b'e' + V + b'e'
    if name == 'read/one-string':
        return b'd1:a' + str(n).encode() + b':' + b'\xc3\xa9' * (n // 2) + V + b'e'
    if name == 'read/digits':
        return b'd' + b'9' * n + b':ae'
    if name == 'read/e-only':
        return b'd' + b'1:a' + b'e' * n
    raise KeyError(name)


def _fam_magnet(name, n):
    base = 'magnet:?xt=' + ugen.H40
    if name == 'magnet/distinct-tr':
        return base + ''.join('&tr=http://t%d.example/a' % i for i in range(max(1, n // 30)))
    if name == 'magnet/distinct-ws':
        return base + ''.join('&ws=http://t%d.example/a' % i for i in range(max(1, n // 30)))
    if name == 'magnet/same-tr':
        return base + '&tr=http://a' * (n // 12)
    if name == 'magnet/dn':
        return base + '&dn=' + 'a' * n
    if name == 'magnet/amp':
        return base + '&' * n
    if name == 'magnet/x_':
        return base + '&x_a=1' * (n // 6)
    if name == 'magnet/pct':
        return base + '&dn=' + '%41' * (n // 3)
    if name == 'magnet/kt':
        return base + '&kt=' + 'a+' * (n // 2)
    if name == 'magnet/spaces':
        return ' ' * n
    if name == 'magnet/xt-long':
        return 'magnet:?xt=' + 'a' * n
    if name == 'magnet/unknown-keys':
        return base + ''.join('&k%d=1' % i for i in range(n // 8))
    if name == 'magnet/xl-digits':
        return base + '&xl=' + '9' * n
    raise KeyError(name)


READ_FAMILIES = ['read/many-files', 'read/many-tiers', 'read/many-keys', 'read/dup-keys', 'read/deep',
                 'read/deep-unclosed', 'read/empty-dicts', 'read/empty-lists', 'read/small-ints',
                 'read/short-strings', 'read/one-string', 'read/digits', 'read/e-only']
MAGNET_FAMILIES = ['magnet/distinct-tr', 'magnet/distinct-ws', 'magnet/same-tr', 'magnet/dn', 'magnet/amp',
                   'magnet/x_', 'magnet/pct', 'magnet/kt', 'magnet/spaces', 'magnet/xt-long', 'magnet/unknown-keys',
                   'magnet/xl-digits']


def _measure_child(job):
    """fork a child, run one call there, report CPU time and memory peaks of the child"""
    fam, n, validate = job
    _worker_init()
    torf = _WORKER['torf']
    if fam == 'raw':
        data, n = n, len(n)
    else:
        data = _fam_unit(fam, n) if fam.startswith('unit/') else \
            _fam_read(fam, n) if fam.startswith('read/') else _fam_magnet(fam, n)
    r, w = os.pipe()
    pid = os.fork()
    if pid == 0:
        try:
            os.close(r)
            import gc
            gc.collect()
            gc.freeze()      # the harness's own heap must not be traversed by collections the input triggers
            s0 = _status()
            t0 = time.process_time()
            try:
                if isinstance(data, bytes):
                    t = torf.Torrent.read_stream(data, validate=validate)
                    k = 'ok'
                    try:
                        t.dump(validate=False)
                    except Exception:   # noqa
                        pass
                else:
                    torf.Magnet.from_string(data)
                    k = 'ok'
            except BaseException as e:   # noqa
                k = ekind(e)
            cpu = time.process_time() - t0
            s1 = _status()
            os.write(w, json.dumps({'kind': k, 'cpu': cpu, 'rss': s1['VmHWM'] - s0['VmRSS'],
                                    'vm': s1['VmPeak'] - s0['VmSize'], 'len': len(data)}).encode())
        finally:
            os._exit(0)
    os.close(w)
    buf = b''
    t_end = time.time() + 180
    import select
    while time.time() < t_end:
        rl, _, _ = select.select([r], [], [], 1.0)
        if rl:
            ch = os.read(r, 65536)
            if not ch:
                break
            buf += ch
    else:
        os.kill(pid, 9)
    os.close(r)
    os.waitpid(pid, 0)
    if not buf:
        return {'family': fam, 'n': n, 'timeout': True}
    return {'family': fam, 'n': n, **json.loads(buf)}


def _measure_chunk(jobs):
    return [_measure_child(j) for j in jobs]


def cost_checks(ctx):
    """scaling: CPU time of size 4n against size n (linear ⇒ ≈ 4; the check allows 6.4 after re-measuring), absolute
    bound c·len + d; thorough: peak RSS / address-space deltas against c·len + d"""
    sizes = [50000, 200000, 800000] if not ctx.thorough else [100000, 400000, 1600000, 6400000]
    msizes = [20000, 80000, 320000] if not ctx.thorough else [40000, 160000, 640000]
    jobs = [(f, n, True) for f in READ_FAMILIES for n in sizes] + [(f, n, True) for f in MAGNET_FAMILIES for n in msizes]
    res = [r for ch in _pmap(_measure_chunk, [[j] for j in jobs], ctx.n(500, 1500)) or [] for r in (ch or [])]
    by = {}
    for r in res:
        by.setdefault(r['family'], []).append(r)
    table = []
    for fam, rs in sorted(by.items()):
        rs.sort(key=lambda r: r['n'])
        row = {'family': fam, 'points': [{k: r.get(k) for k in ('len', 'cpu', 'rss', 'vm', 'kind', 'timeout')} for r in rs]}
        table.append(row)
        for r in rs:
            ctx.case(key='cost:%s:%d' % (fam, r['n']), nontrivial=True, kind='cost/' + fam.split('/')[0])
            case = {'family': fam, 'n': r['n'], 'len': r.get('len'), 'what': 'absolute'}
            if r.get('timeout'):
                case['what'] = 'scaling'
                ctx.violation(f'{fam}: no result within 180 s for n={r["n"]}', case, expected='time <= c*len+d',
                              observed='timeout', finding_matchers=MATCHERS)
                continue
            doc = ('ok', 'bdecode', 'metainfo', 'read') if fam.startswith('read/') else ('ok', 'magnet', 'url')
            if r.get('kind') not in doc:
                ctx.violation(f"{fam} (n={r['n']}, {r['len']} bytes): raised {pretty(str(r.get('kind')))} (documented: "
                              f"{', '.join(doc[1:])})", dict(case, what='kind', recipe=f'_fam(%r, %d)' % (fam, r['n'])),
                              expected=list(doc), observed=r.get('kind'), finding_matchers=MATCHERS)
            if r['cpu'] > TIME_C * r['len'] + TIME_D:
                case['what'] = 'scaling'
                ctx.violation(f"{fam}: CPU {r['cpu']:.2f}s for {r['len']} bytes exceeds {TIME_C}*len+{TIME_D}", case,
                              expected='time <= c*len+d', observed=r, finding_matchers=MATCHERS)
            if r['rss'] > RSS_C * r['len'] + RSS_D:
                ctx.violation(f"{fam}: peak RSS delta {r['rss']} for {r['len']} bytes exceeds {RSS_C}*len+{RSS_D}", case,
                              expected='rss <= c*len+d', observed=r, finding_matchers=MATCHERS)
            if r['vm'] > VM_C * r['len'] + VM_D:
                ctx.violation(f"{fam}: peak address-space delta {r['vm']} for {r['len']} bytes exceeds {VM_C}*len+{VM_D}",
                              case, expected='vm <= c*len+d', observed=r, finding_matchers=MATCHERS)
        ok = [r for r in rs if not r.get('timeout')]
        for a, b in zip(ok, ok[1:]):
            if b['cpu'] >= 0.4 and a['cpu'] > 0 and b['len'] >= 3 * a['len']:
                ratio = b['cpu'] / max(a['cpu'], 1e-3)
                if ratio > 1.6 * (b['len'] / a['len']):
                    # repeat both points twice and compare the *medians*: load inflates a measurement, and a collection of the
                    # garbage collector that happens to fall into one run and not into another makes the same input cost 0.03 s
                    # or 0.12 s (read/deep, seen under load) — minima would pair a lucky small point with an ordinary large one
                    ma, mb = [a['cpu']], [b['cpu']]
                    for _ in range(2):
                        again = _pmap(_measure_chunk, [[(fam, a['n'], True)], [(fam, b['n'], True)]], 400)
                        if again[0] and again[1] and not again[0][0].get('timeout') and not again[1][0].get('timeout'):
                            ma.append(again[0][0]['cpu'])
                            mb.append(again[1][0]['cpu'])
                    a = dict(a, cpu=sorted(ma)[len(ma) // 2])
                    b = dict(b, cpu=sorted(mb)[len(mb) // 2])
                    ratio = b['cpu'] / max(a['cpu'], 1e-3)
                    if ratio > 1.6 * (b['len'] / a['len']) and b['cpu'] >= 0.4:
                        # still steep: other processes on the machine (cache and memory-bandwidth pressure, sibling
                        # hyper-threads) inflate CPU time by a factor that changes from second to second, so points measured
                        # at different moments are not comparable under load (seen: 0.32 s → 2.72 s for a linear family
                        # while three other checks were running).  Measure the two points back to back, one after the
                        # other and alone, three times; a super-linear cost shows in every pair, a burst of load does not.
                        pairs = []
                        for _ in range(3):
                            again = _pmap(_measure_chunk, [[(fam, a['n'], True), (fam, b['n'], True)]], 600)
                            if again and again[0] and not any(x.get('timeout') for x in again[0]):
                                pairs.append((again[0][0]['cpu'], again[0][1]['cpu']))
                        if pairs:
                            pa, pb = min(pairs, key=lambda p: p[1] / max(p[0], 1e-3))
                            a, b = dict(a, cpu=pa), dict(b, cpu=pb)
                            ratio = pb / max(pa, 1e-3)
                            row.setdefault('paired_remeasure', []).append([[round(x, 3), round(y, 3)] for x, y in pairs])
                row.setdefault('ratios', []).append(round(ratio, 2))
                if ratio > 1.6 * (b['len'] / a['len']) and b['cpu'] >= 0.4:
                    ctx.violation(f"{fam}: CPU time grows {ratio:.1f}x when the input grows {b['len'] / a['len']:.1f}x "
                                  f"({a['cpu']:.2f}s → {b['cpu']:.2f}s): super-linear",
                                  {'family': fam, 'n': b['n'], 'len': b['len'], 'what': 'scaling'},
                                  expected='linear', observed={'small': a, 'large': b}, finding_matchers=MATCHERS)
    ctx.notes['cost_table'] = table


# ---------------------------------------------------------------------- repeated-unit scaling families (round 3)
# One character class repeated n times at one position of one value, for both entry points; sizes n, 4n, 16n; process CPU
# time; judged by the same linear rule as the families above (absolute bound c*len+d; 4x the input must not cost more than
# 6.4x once the larger point takes >= 0.4 s, re-measured before alarming).  Each family runs in its own forked child under
# RLIMIT_CPU, smallest size first, and stops at the first size that is flagged, so that a quadratic or exponential step costs
# seconds, not hours.

UNIT_CPU_CAP = 25            # CPU seconds one family may use before its child is killed (reported as a violation)
UNIT_FLAG_LIMIT = 8          # stop measuring after this many flagged families (they are all reported)
SLOW_FLOOR = 0.4             # s: below this a point is not used for the ratio rule
RATIO_SLACK = 1.6            # allowed growth = RATIO_SLACK * growth of the input (families above)
UNIT_SLACK = 2.0             # the same for the repeated-unit families: 4x the input may cost 8x (quadratic: 16x)


def unit_family_names(thorough):
    # quick: every white-space class at every position, every other unit at a third of the positions (in rotation)
    ws_quick = ('sp', 'tab', 'nl', 'cr', 'vt', 'nel', 'nbsp', 'emsp', 'ideo', 'bom', 'zwsp', 'ws-mix')
    names = ['unit/magnet/%s/%s' % (pos, u) for pi, pos in enumerate(ugen.MAGNET_POSITIONS) for ui, u in enumerate(ugen.UNITS)
             if thorough or u in ws_quick or (pi + ui) % 3 == 0]
    for fi, field in enumerate(ugen.READ_FIELDS):
        for pos in ugen.READ_POSITIONS:
            for ui, u in enumerate(ugen.BUNITS):
                if thorough or (pos == 'mid' and (u in ('sp', 'tab', 'nl', 'nbsp', 'auml', 'a-dot', 'sp-a') or (fi + ui) % 2 == 0)) \
                        or (pos != 'mid' and u in ('sp', 'auml', 'slash', 'zero', 'xff', 'f') and (fi + ui) % 2 == 0):
                    names.append('unit/read/%s/%s/%s' % (field, pos, u))
    names += ['unit/read-struct/' + k for k in ugen.READ_STRUCT]
    return names


def _fam_unit(name, n):
    p = name.split('/')
    if p[1] == 'magnet':
        return ugen.magnet_unit(p[2], p[3], n)
    if p[1] == 'read':
        return ugen.read_unit(p[2], p[3], p[4], n)
    return ugen.READ_STRUCT[p[2]](n)


def _unit_recipe(name, n):
    p = name.split('/')
    if p[1] == 'magnet':
        u = ugen.UNITS[p[3]]
        return 'harness.gen.untrusted.magnet_unit(%r, %r, %d): %s' % (
            p[2], p[3], n, ugen.MAGNET_POSITIONS[p[2]]('<%r * %d>' % (u, max(1, n // len(u))), 'magnet:?xt=urn:btih:' + ugen.H40))
    if p[1] == 'read':
        u = ugen.BUNITS[p[4]]
        path, pre, suf = ugen.READ_FIELDS[p[2]]
        return 'harness.gen.untrusted.read_unit(%r, %r, %r, %d): full %s-file torrent with %s = %r, %r * %d at %s of it' % (
            p[2], p[3], p[4], n, 'multi' if b'files' in path else 'single', ugen.path_label(path), pre + suf, u,
            max(1, n // len(u)), p[3])
    return 'harness.gen.untrusted.READ_STRUCT[%r](%d)' % (p[2], n)


def _unit_call(torf, data):
    """what is timed: the entry point and, for a torrent, everything the property lets a caller do with the result"""
    if isinstance(data, str):
        try:
            torf.Magnet.from_string(data)
            return 'ok'
        except BaseException as e:   # noqa
            return ekind(e)
    try:
        torf.Torrent.read_stream(data, validate=True)
        k = 'ok'
    except BaseException as e:   # noqa
        k = ekind(e)
    try:
        t = torf.Torrent.read_stream(data, validate=False)
    except BaseException:   # noqa
        return k
    for f in (t.validate, t.dump, lambda: t.dump(validate=False), lambda: t.infohash, t.magnet):
        try:
            f()
        except BaseException:   # noqa
            pass
    return k


def _unit_timed(torf, data):
    t0 = time.process_time()
    k = _unit_call(torf, data)
    return time.process_time() - t0, k


def _unit_family_in_child(torf, w, fam, sizes):
    """runs in the forked child: one JSON line per size, stops at the first flagged size"""
    prev = None
    for n in sizes:
        data = _fam_unit(fam, n)
        ln = len(data) if isinstance(data, bytes) else len(data.encode('utf8', 'surrogatepass'))
        os.write(w, (json.dumps({'family': fam, 'start': n, 'len': ln}) + '\n').encode())
        t, k = _unit_timed(torf, data)
        if t < 0.05:
            t = min(t, _unit_timed(torf, data)[0], _unit_timed(torf, data)[0])
        flag = None
        if t > TIME_C * ln + TIME_D:
            flag = 'absolute'
        elif prev and t >= SLOW_FLOOR and t / max(prev['cpu'], 1e-4) > UNIT_SLACK * (ln / prev['len']):
            # re-measure before alarming and compare medians (load inflates a run, a garbage collection may or may not fall
            # into it: minima would pair a lucky small point with an ordinary large one)
            pt = sorted([prev['cpu']] + [_unit_timed(torf, prev['data'])[0] for _ in range(2)])[1]
            if t < 3.0 or t / max(pt, 1e-4) < 2.5 * (ln / prev['len']):
                ts = [t] + [_unit_timed(torf, data)[0] for _ in range(2 if t < 1.0 else 1)]
                t = sorted(ts)[(len(ts) - 1) // 2]
            if t >= SLOW_FLOOR and t / max(pt, 1e-4) > UNIT_SLACK * (ln / prev['len']):
                flag = 'superlinear'
            prev['cpu'] = pt
        os.write(w, (json.dumps({'family': fam, 'n': n, 'len': ln, 'cpu': t, 'kind': k, 'flag': flag,
                                 'prev_cpu': prev and prev['cpu'], 'prev_len': prev and prev['len']}) + '\n').encode())
        if flag:
            break
        prev = {'cpu': t, 'len': ln, 'data': data}
    os.write(w, (json.dumps({'family': fam, 'done': True}) + '\n').encode())


def _measure_unit_families(jobs):
    """families [(name, sizes)…] one after the other in a forked child; each gets UNIT_CPU_CAP seconds of CPU time
    (RLIMIT_CPU is moved forward before each one); when the child is killed the family that was running is reported as
    killed and the rest continues in a new child.  Returns [{'family', 'points', 'killed_at'}…]"""
    _worker_init()
    torf = _WORKER['torf']
    out = []
    jobs = list(jobs)
    while jobs:
        r, w = os.pipe()
        pid = os.fork()
        if pid == 0:
            try:
                os.close(r)
                import gc
                gc.collect()
                gc.freeze()
                for fam, sizes in jobs:
                    resource.setrlimit(resource.RLIMIT_CPU, (int(time.process_time()) + UNIT_CPU_CAP + 1, resource.RLIM_INFINITY))
                    _unit_family_in_child(torf, w, fam, sizes)
            finally:
                os._exit(0)
        os.close(w)
        buf = b''
        t_end = time.time() + len(jobs) * (6 * UNIT_CPU_CAP + 30)
        import select
        while time.time() < t_end:
            rl, _, _ = select.select([r], [], [], 1.0)
            if rl:
                ch = os.read(r, 65536)
                if not ch:
                    break
                buf += ch
        else:
            os.kill(pid, 9)
        os.close(r)
        os.waitpid(pid, 0)
        by = {}
        for line in buf.decode().splitlines():
            j = json.loads(line)
            rec = by.setdefault(j['family'], {'family': j['family'], 'points': [], 'killed_at': None, 'done': False})
            if 'start' in j:
                rec['killed_at'] = {'start': j['start'], 'len': j['len']}
            elif j.get('done'):
                rec['done'] = True
            else:
                rec['points'].append(j)
                rec['killed_at'] = None
        rest = []
        for fam, sizes in jobs:
            rec = by.get(fam)
            if rec is None:
                rest.append((fam, sizes))          # never started: the child died before it
            else:
                out.append({k: rec[k] for k in ('family', 'points', 'killed_at')})
        if len(rest) == len(jobs):                   # no progress at all (fork trouble): give up on these
            out.extend({'family': f, 'points': [], 'killed_at': None} for f, _ in rest)
            break
        jobs = rest
    return out


def _measure_unit_family(job):
    return _measure_unit_families([job])[0]


def _measure_unit_family_chunk(jobs):
    return _measure_unit_families(jobs)


def unit_cost_checks(ctx):
    import multiprocessing as mp
    names = unit_family_names(ctx.thorough)
    ctx.rng.shuffle(names)
    msizes = [8000, 32000, 128000] if not ctx.thorough else [32000, 128000, 512000]
    rsizes = [25000, 100000, 400000] if not ctx.thorough else [100000, 400000, 1600000]
    jobs = [(f, msizes if f.startswith('unit/magnet/') else rsizes) for f in names]
    common.scratch_root()
    pool = mp.get_context('fork').Pool(common.NPROC)
    results, flagged = [], 0
    try:
        for part in pool.imap_unordered(_measure_unit_families, [jobs[i:i + 12] for i in range(0, len(jobs), 12)]):
            results.extend(part)
            flagged += sum(1 for res in part if res['killed_at'] or any(p.get('flag') for p in res['points']))
            if flagged >= UNIT_FLAG_LIMIT:
                break
    finally:
        pool.terminate()
        pool.join()
    table, worst_ratio, worst_rate, worst_fam = [], 0.0, 0.0, None
    for res in sorted(results, key=lambda x: x['family']):
        fam = res['family']
        steep = False
        for p in res['points']:
            ctx.case(key='cost:%s:%d' % (fam, p['n']), nontrivial=True, kind='cost/unit-' + fam.split('/')[1])
            worst_rate = max(worst_rate, p['cpu'] / max(p['len'], 1))
            if p.get('prev_cpu') and p['cpu'] >= 0.1:          # the CPU clock of this machine ticks in 4 ms steps
                g = (p['cpu'] / max(p['prev_cpu'], 4e-3)) / (p['len'] / p['prev_len'])
                steep = steep or g > 2.5
                if g > worst_ratio:
                    worst_ratio, worst_fam = g, fam
            case = {'family': fam, 'n': p['n'], 'len': p['len'], 'what': 'scaling', 'recipe': _unit_recipe(fam, p['n'])}
            doc = ('ok', 'magnet', 'url') if fam.startswith('unit/magnet/') else ('ok', 'bdecode', 'metainfo', 'read')
            if p['kind'] not in doc:
                ctx.violation(f"{fam} (n={p['n']}): raised {pretty(str(p['kind']))} (documented: {', '.join(doc[1:])})",
                              dict(case, what='kind'), expected=list(doc), observed=p['kind'], finding_matchers=MATCHERS)
            if p.get('flag') == 'absolute':
                ctx.violation(f"{fam}: CPU {p['cpu']:.2f}s for {p['len']} bytes exceeds {TIME_C}*len+{TIME_D}", case,
                              expected='time <= c*len+d', observed=p, finding_matchers=MATCHERS)
            elif p.get('flag') == 'superlinear':
                ctx.violation(f"{fam}: CPU time grows {p['cpu'] / max(p['prev_cpu'], 1e-4):.1f}x when the input grows "
                              f"{p['len'] / p['prev_len']:.1f}x ({p['prev_cpu']:.3f}s → {p['cpu']:.2f}s): super-linear",
                              case, expected='linear', observed=p, finding_matchers=MATCHERS)
        if res['killed_at']:
            k = res['killed_at']
            ctx.case(key='cost:%s:%d' % (fam, k['start']), nontrivial=True, kind='cost/unit-' + fam.split('/')[1])
            ctx.violation(f"{fam}: no result within {UNIT_CPU_CAP} s of CPU time for {k['len']} bytes "
                          f"(bound {TIME_C}*len+{TIME_D} = {TIME_C * k['len'] + TIME_D:.1f} s)",
                          {'family': fam, 'n': k['start'], 'len': k['len'], 'what': 'scaling',
                           'recipe': _unit_recipe(fam, k['start'])},
                          expected='time <= c*len+d', observed='killed by RLIMIT_CPU', finding_matchers=MATCHERS)
        if res['killed_at'] or steep or any(p.get('flag') or p['cpu'] >= 0.1 for p in res['points']):
            table.append({'family': fam, 'points': [{k: p.get(k) for k in ('len', 'cpu', 'kind', 'flag')} for p in res['points']],
                          'killed_at': res['killed_at']})
    ctx.notes['unit_families'] = {'families': len(names), 'measured': len(results), 'sizes_magnet': msizes, 'sizes_read': rsizes,
                                  'worst_cpu_per_byte': worst_rate, 'worst_growth_over_input_growth(cpu>=0.1s)': round(worst_ratio, 2), 'worst_growth_family': worst_fam,
                                  'rule': f'cpu <= {TIME_C}*len+{TIME_D}; cpu(4n)/cpu(n) <= {UNIT_SLACK}*4 once cpu(4n) >= {SLOW_FLOOR} s '
                                          f'(medians after re-measuring); killed after {UNIT_CPU_CAP} s CPU',
                                  'slow_or_flagged': table}


def per_input_memory(ctx, read_cases, magnet_cases):
    """thorough tier: peak RSS / address-space delta and CPU time of single inputs, each in a forked
    child of a worker under RLIMIT_AS, against c*len + d"""
    r = ctx.rng
    pick = [c for c in read_cases if c['kind'].startswith(('big/', 'depth/huge'))]
    rest = [c for c in read_cases if not c['kind'].startswith(('big/', 'depth/huge', 'small-exhaustive'))
            and c.get('how', 'bytes') == 'bytes' and not c.get('rl')]
    pick += r.sample(rest, min(len(rest), ctx.n(0, 3000)))
    jobs = [('raw', c['x'], c.get('validate', True)) for c in pick]
    mpick = r.sample(magnet_cases, min(len(magnet_cases), ctx.n(0, 1500)))
    jobs += [('raw', c['uri'], None) for c in mpick if not any(0xd800 <= ord(ch) <= 0xdfff for ch in c['uri'])]
    res = [x for ch in _pmap(_measure_chunk, common.split(jobs, common.NPROC * 4), 1500) for x in (ch or [])]
    worst = {'rss_per_byte': 0, 'vm_per_byte': 0, 'n': len(res)}
    for job, m in zip(jobs, res):
        data = job[1]
        ln = len(data) if isinstance(data, bytes) else len(data.encode('utf8'))
        ctx.case(key=None, nontrivial=False, kind='cost/per-input')
        case = ({'kind': 'per-input', 'x': data.hex(), 'len': ln, 'validate': job[2], 'what': 'address-space'}
                if isinstance(data, bytes) and ln <= 4096 else
                {'kind': 'per-input', 'len': ln, 'head': repr(data[:200]), 'what': 'address-space'})
        if isinstance(data, bytes):
            case['maxprefix'] = _maxprefix(data)
        if m.get('timeout'):
            ctx.violation(f'no result within 180 s for an input of {ln} bytes', case, expected='time <= c*len+d',
                          observed='timeout', finding_matchers=MATCHERS)
            continue
        doc = ('ok', 'bdecode', 'metainfo', 'read', 'value') if isinstance(data, bytes) else ('ok', 'magnet', 'url')
        if m.get('kind') not in doc and not (m.get('kind') == 'internal:MemoryError' and case.get('maxprefix', 0) >= 10 ** 8):
            ctx.violation(f"per-input measurement: raised {pretty(str(m.get('kind')))}", dict(case, what='kind'), expected=list(doc),
                          observed=m.get('kind'), finding_matchers=MATCHERS)
        worst['rss_per_byte'] = max(worst['rss_per_byte'], round(max(0, m['rss'] - RSS_D) / max(ln, 1), 1))
        worst['vm_per_byte'] = max(worst['vm_per_byte'], round(max(0, m['vm'] - VM_D) / max(ln, 1), 1))
        if m['cpu'] > TIME_C * ln + TIME_D:
            ctx.violation(f"CPU {m['cpu']:.2f}s for {ln} bytes exceeds {TIME_C}*len+{TIME_D}", dict(case, what='time'),
                          expected='time <= c*len+d', observed=m, finding_matchers=MATCHERS)
        if m['rss'] > RSS_C * ln + RSS_D:
            ctx.violation(f"peak RSS delta {m['rss']} for {ln} bytes exceeds {RSS_C}*len+{RSS_D}", dict(case, what='rss'),
                          expected='rss <= c*len+d', observed=m, finding_matchers=MATCHERS)
        if m['vm'] > VM_C * ln + VM_D:
            ctx.violation(f"peak address-space delta {m['vm']} for {ln} bytes exceeds {VM_C}*len+{VM_D}", case,
                          expected='vm <= c*len+d', observed=m, finding_matchers=MATCHERS)
    ctx.notes['per_input_memory'] = worst


def memory_probe(ctx):
    """D08f second half: address space proportional to the length prefix, not to the input"""
    out = []
    for n in (10 ** 8, 10 ** 9, 2 * 10 ** 9):
        x = b'd4:name' + str(n).encode() + b':xe'
        r = _pmap(_probe_prefix, [[x]], 120)[0]
        if r:
            out.append({'prefix': n, 'len': len(x), **r[0]})
            ctx.case(key='memprobe:%d' % n, nontrivial=True, kind='cost/prefix-probe')
            if r[0]['vm'] > VM_C * len(x) + VM_D:
                ctx.violation(f"read_stream reserves {r[0]['vm']} bytes of address space for a {len(x)}-byte input "
                              f"(length prefix {n})", {'kind': 'prefix-probe', 'len': len(x), 'x': x.hex(), 'maxprefix': n,
                                                       'what': 'address-space'},
                              expected='vm <= c*len+d', observed=r[0],
                              finding_matchers=MATCHERS)
    ctx.notes['prefix_probe'] = out


def _probe_prefix(xs):
    torf = common.import_torf()
    s0 = _status()
    try:
        torf.Torrent.read_stream(xs[0])
        k = 'ok'
    except BaseException as e:   # noqa
        k = ekind(e)
    s1 = _status()
    return [{'kind': k, 'rss': s1['VmHWM'] - s0['VmRSS'], 'vm': s1['VmPeak'] - s0['VmSize']}]


# ------------------------------------------------------------------------------------------ run

def _expand(r, base, p_validate=0.6, hows=True):
    out = []
    for c in base:
        c = dict(c)
        c['validate'] = r.random() < p_validate
        if hows:
            k = r.random()
            c['how'] = 'bytes' if k < 0.8 else 'stream' if k < 0.88 else 'file' if k < 0.96 else 'bytearray'
        out.append(c)
    return out


def _load_corpus(ctx):
    import glob
    out = []
    for p in sorted(glob.glob(os.path.join(common.CORPUS_DIR, ctx.prop, '*.json'))):
        j = json.load(open(p))
        for c in (j if isinstance(j, list) else [j]):
            if 'x' in c:
                c['x'] = bytes.fromhex(c['x'])
            out.append(c)
    return out


def harvested_cases(ctx):
    """keys harvested from the source under test (harness/gen/keyharvest.py) x levels x values of every bencodable
    type x contexts (other keys present / absent): read with validate=False always (validate(), dump(), infohash and
    magnet() then run on the returned object), validate=True for a share, file / stream for a few"""
    from harness.gen import keyharvest
    r = ctx.rng
    h = keyharvest.harvest()
    ctx.notes['harvested_keys'] = {
        'source': 'AST of $VERIF_REPO/torf/*.py (%d files)' % h['files'],
        'primary': [k.decode('utf8', 'replace') for k in h['primary']],
        'secondary': len(h['secondary']), 'errors': h['errors']}
    out = []
    voc = common.Driver().run([{'op': 'c08.keys'}])[0]          # the vocabulary of the model (Model/KeyVocabulary.lean)
    vocab = {lv: {k.encode('utf8') for k in voc[lv]} for lv in ('top', 'info', 'file')}
    for c in ugen.harvested_key_cases(h['primary'], h['secondary'], full=ctx.thorough, known=ugen.static_key_slots(),
                                      vocab=vocab):
        out.append(dict(c, validate=False, how='bytes'))
        k = r.random()
        if ctx.thorough or k < 0.4:
            out.append(dict(c, validate=True, how='bytes'))
        if k > (0.85 if ctx.thorough else 0.95):
            out.append(dict(c, validate=r.random() < 0.5, how=r.choice(['file', 'stream'])))
    return out


def build_read_cases(ctx):
    r = ctx.rng
    cases = []
    corpus = _load_corpus(ctx)
    for c in corpus:
        if 'x' in c:
            cases.append(dict(c, kind='corpus/' + c.get('kind', 'read')))
    fixed = ugen.fixed_read_cases()
    for c in fixed:
        for V in (True, False):
            cases.append(dict(c, validate=V, how='bytes'))
    for c in fixed[::7]:
        cases.append(dict(c, validate=True, how='file'))
        cases.append(dict(c, validate=False, how='stream'))
    for how in ('stream-oserror', 'file-oserror', 'file-missing'):
        for V in (True, False):
            cases.append(dict(kind='fixed/' + how, x=b'', validate=V, how=how))
    # nesting around the recursion threshold under the default limit and two lowered limits
    for rl, wide in ((None, ctx.thorough), (300, True), (100, True)):
        for c in ugen.depth_cases(fuel_hint=(rl or 997), wide=wide):
            if (rl or not ctx.thorough) and c['depth'] > 1000:
                continue
            for V in ((True, False) if c['kind'] in ('depth/top', 'depth/pieces') else (False,)):
                cases.append(dict(c, validate=V, how='bytes', rl=rl))
        for c in ugen.depth_cases(fuel_hint=(rl or 997), wide=False)[::5]:
            if not (rl and c['depth'] > 1000):
                cases.append(dict(c, validate=False, how='file', rl=rl))
    for c in ugen.huge_depth_cases():
        cases.append(dict(c, validate=False, how='bytes'))
    for c in ugen.regression_19d011f():
        for V in (True, False):
            cases.append(dict(c, validate=V, how='bytes'))
    for c in ugen.regression_3420ff7():
        if c['depth'] >= 20000 and not ctx.thorough and (b'd1:ad1:a' in c['x'] or b'd1:ald1:a' in c['x']):
            # dict nesting 20 000 deep costs the Lean driver 4-12 s per case (quadratic in the model's dict
            # handling): quick tier checks these against the documented sets only, thorough against the model
            c = dict(c, modelled=False)
        for V in (True, False):
            cases.append(dict(c, validate=V, how='bytes'))
        if c['depth'] in (1500, 5000):
            cases.append(dict(c, validate=True, how='file'))
            cases.append(dict(c, validate=True, how='stream'))
    # hostile values (every decoded type, hostile text) in every field validate() or a getter looks at
    for c in ugen.field_matrix(full_product=ctx.thorough):
        cases.append(dict(c, validate=True, how='bytes'))
        k = r.random()
        if ctx.thorough or k < 0.35:
            cases.append(dict(c, validate=False, how='bytes'))
        if k > (0.5 if ctx.thorough else 0.85):
            cases.append(dict(c, validate=r.random() < 0.7, how=r.choice(['file', 'stream'])))
    cases += _expand(r, ugen.md5_near_misses(r, ctx.n(600, 20000)), p_validate=0.8)
    cases += harvested_cases(ctx)
    # number ladder in every numeric field, in torrents that are valid around the number
    for c in ugen.number_ladder():
        cases.append(dict(c, validate=True, how='bytes'))
        k = r.random()
        if ctx.thorough or k < 0.2:
            cases.append(dict(c, validate=False, how='bytes'))
        if k > (0.5 if ctx.thorough else 0.9):
            cases.append(dict(c, validate=r.random() < 0.7, how=r.choice(['file', 'stream'])))
    # numbers stored as text: numeric-looking strings in every numeric field and as the port of every URL field
    for c in ugen.numeric_string_cases(full_product=ctx.thorough):
        cases.append(dict(c, validate=True, how='bytes'))
        k = r.random()
        if ctx.thorough or k < 0.25:
            cases.append(dict(c, validate=False, how='bytes'))
        if k > (0.5 if ctx.thorough else 0.92):
            cases.append(dict(c, validate=r.random() < 0.7, how=r.choice(['file', 'stream'])))
    # short runs of every byte unit at every position of every text field
    pad = ugen.read_padding()
    cases += _expand(r, pad if ctx.thorough else r.sample(pad, len(pad) // 2), p_validate=0.75)
    cases += _expand(r, ugen.exhaustive_small(6 if ctx.thorough else 4), hows=False)
    # truncation at every offset of a few seed torrents
    from harness.gen import metainfo as gen
    from harness.impl import bencode_strict as bstrict
    for _ in range(ctx.n(4, 40)):
        x = bstrict.ser(gen.metainfo(r, {}))
        cases += _expand(r, ugen.truncations(x, 1 if len(x) < 3000 else 7), hows=False)
    cases += _expand(r, ugen.truncations(ugen.VALID), p_validate=1.0, hows=False)
    seeded = ugen.seeded(r, ctx.n(9000, 400000))
    for c in _expand(r, seeded):
        if c['kind'] == 'seed/deep' and r.random() < 0.5:
            c['rl'] = r.choice([100, 300])
        cases.append(c)
    if ctx.thorough:
        for c in ugen.big_cases():
            for how in ('bytes', 'stream'):
                cases.append(dict(c, validate=True, how=how))
    else:
        for c in ugen.big_cases()[:2]:
            cases.append(dict(c, validate=True, how='bytes'))
    return cases


def build_magnet_cases(ctx):
    r = ctx.rng
    cases = [dict(c, kind='corpus/' + c.get('kind', 'magnet')) for c in _load_corpus(ctx) if 'uri' in c]
    cases += ugen.magnet_fixed()
    cases += ugen.magnet_sizes(thorough=ctx.thorough)
    cases += ugen.magnet_padding()
    cases += ugen.magnet_authority(full=ctx.thorough)
    cases += ugen.magnet_topics()
    cases += ugen.magnet_numeric()
    cases += ugen.magnet_random(r, ctx.n(8000, 300000))
    return cases


def run(ctx, drv):
    ctx.notes['rule'] = RULE
    ctx.notes['assumptions'] = [
        'CPython primitives are modelled by hand and validated differentially: buf.read(n) raises OverflowError above '
        '2^63-34 and MemoryError above the allocation limit (measured: RLIMIT_AS of the worker minus its address space; '
        'prefixes within a factor 0.5..1.5 of that limit are not compared with the model), int() refuses more than 4300 '
        'digits, RecursionError when decode_dict/encode_dict need more Python frames than recursion limit minus call depth',
        'datetime.fromtimestamp, urlparse, int(), unquote() of strings with a "%" and URL well-formedness are oracles computed '
        'by the harness with the standard library and passed to the model per case; parse_qs is modelled in Lean '
        '(Model/QueryString.lean) and compared with urllib.parse.parse_qs on every magnet case',
        'the keys the code reads are harvested from its source on every run (harness/gen/keyharvest.py); the Lean model looks at a '
        'metainfo only through the keys of Model/KeyVocabulary.lean (C08_unknown_key_irrelevant: validate() of two metainfos that '
        'answer those lookups alike is the same, whatever other keys they hold at the top level, in info and in file entries), so '
        'a harvested key outside that vocabulary is judged against the model evaluated without it; the driver evaluates both and a '
        'difference is a machinery error; getters that read/validate/dump/infohash/magnet() do not call are not observed',
        'validate()/dump()/infohash of returned torrents: C08_returned_* use C07_validate_only_metainfo_error (imported, proved) '
        'under filesNotMapping (finding D07f); magnet() of a returned torrent is judged against {ok, MetainfoError} except for '
        'URLError/TypeError from its getter tail after infohash succeeded (C07 finding D07i: counted, not judged)',
        'str.strip() is modelled in Lean (Model/PyStrip.lean: isPySpace = str.isspace(), compared over all Unicode scalar values '
        'on every run; the stripped string and the step count are compared on every magnet case); urlparse is applied to the '
        'stripped string',
        'every judged case runs in a forked child whose RLIMIT_CPU is moved forward per case (4 x the claimed bound, 10..60 s): '
        'an input on which the code hangs is reported as a violation of the time bound after that many CPU seconds',
        'repeated-unit families: bound cpu <= c*len+d as for every call; growth rule cpu(4n) <= 8*cpu(n) once cpu(4n) >= 0.4 s, '
        'medians after re-measuring (quadratic = 16x); CPU time, not wall time, so machine load does not enter except through '
        'SMT / cache contention',
        'int() on ASCII strings is modelled in Lean (Model/PyInt.lean: C white space, sign, digits with single underscores, the '
        '4300-digit limit) and compared with CPython on every xl value; for strings with non-ASCII characters (Unicode digits and '
        'spaces) int() stays an oracle',
        'after a correspondence break search() first sweeps the field of the break (all hostile values, number ladder, numeric-looking '
        'strings, in four layouts and in the breaking input) resp. the authority grid (6480 authorities) in the place of the authority '
        'of the breaking URI and of its URL parameters and the parameters of the breaking URI (alone, pairs, dropped, doubled, values of '
        'their class), then a random budget',
        'urlparse() is an oracle for the eager fields (scheme, query); the lazily validated attribute .port is a separate oracle value '
        '(does reading it raise ValueError) that the unchanged from_string never reads (Model/UrlAttrs.lean)',
        'time and memory of CPython are measured (CPU seconds, peak RSS, peak address space in a forked child), not proved; '
        'claimed bound: %g s/byte + %g s, RSS %d B/byte + %d MiB' % (TIME_C, TIME_D, RSS_C, RSS_D >> 20),
        'byte strings longer than MAX_TORRENT_FILE_SIZE are outside the property ("up to the read limit"): '
        'read_stream(bytes) raises a bare ValueError there (pinned by tests/test_read.py:204); only model = code is checked',
        'strings with lone surrogates or astral characters are checked on the implementation against the documented set '
        'only (the JSON transport to the Lean driver is BMP-only)',
    ]
    ctx.notes['trusted_base'] = ['C08_read_steps counts steps of the model, CPU time of CPython is measured',
                                 'urlparse / unquote / datetime / int() behaviour enters as oracle values per case; '
                                 'the Lean model of parse_qs is validated against urllib.parse.parse_qs on every magnet case']
    phase = ctx.notes.setdefault('phase_s', {})
    # the model's white space (str.strip()) against CPython's, over all Unicode scalar values
    sp = drv.run([{'op': 'c08.isspace'}])[0]['space']
    if sp != [n for n in range(0x110000) if not 0xd800 <= n <= 0xdfff and chr(n).isspace()]:
        ctx.machinery_error('isPySpace (Model/PyStrip.lean) is not str.isspace()', {'model': sp})
    t0 = time.time()
    rc = build_read_cases(ctx)
    phase['build_read_cases'] = round(time.time() - t0, 1)
    voc = drv.run([{'op': 'c08.keys'}])[0]
    known = set(voc['top']) | set(voc['info']) | set(voc['file'])
    hk = ctx.notes.get('harvested_keys', {})
    hk['model_vocabulary'] = {k: voc[k] for k in ('top', 'info', 'file')}
    hk['primary_outside_model_vocabulary'] = [k for k in hk.get('primary', []) if k not in known]
    # self-test hook for search(): VERIF_C08_SKIP_KINDS=prefix,prefix… drops those kinds from the main run, so that a seeded
    # change is only seen as a correspondence break and the sweep has to find the failing input
    skip = tuple(k for k in os.environ.get('VERIF_C08_SKIP_KINDS', '').split(',') if k)
    if skip:
        rc = [c for c in rc if not c['kind'].startswith(skip)]
        ctx.notes['skipped_kinds(self-test)'] = list(skip)
    B = 15000
    try:
        phase['main_rss_mb'] = _status()['VmRSS'] >> 20
    except Exception:   # noqa
        pass
    t0 = time.time()
    random_order = list(range(len(rc)))
    ctx.rng.shuffle(random_order)
    rc = [rc[i] for i in random_order]
    for i in range(0, len(rc), B):
        evaluate_read(ctx, drv, rc[i:i + B])
    phase['evaluate_read'] = round(time.time() - t0, 1)
    t0 = time.time()
    mc = build_magnet_cases(ctx)
    if skip:
        mc = [c for c in mc if not c['kind'].startswith(skip)]
    for i in range(0, len(mc), 20000):
        evaluate_magnet(ctx, drv, mc[i:i + 20000])
    phase['magnet'] = round(time.time() - t0, 1)
    t0 = time.time()
    # arguments that are neither bytes nor streams: outside "arbitrary bytes", recorded only
    torf = common.import_torf()
    outside = {}
    for label, arg in (('int', 5), ('str', 'abc'), ('None', None), ('list', [b'de'])):
        try:
            torf.Torrent.read_stream(arg)
            outside[label] = 'ok'
        except Exception as e:   # noqa
            outside[label] = ekind(e)
    ctx.notes['outside_quantifier_non_bytes'] = outside
    cost_checks(ctx)
    t1 = time.time()
    unit_cost_checks(ctx)
    phase['unit_cost_checks'] = round(time.time() - t1, 1)
    if ctx.thorough:
        per_input_memory(ctx, rc, mc)
    phase['cost_checks'] = round(time.time() - t0, 1)
    t0 = time.time()
    memory_probe(ctx)
    phase['memory_probe'] = round(time.time() - t0, 1)


def _break_paths(case):
    """where in the metainfo a correspondence break sits: the field of a field-directed case, else every value of the input"""
    if case.get('path'):
        return [case['path']]
    if 'x' not in case:
        return []
    try:
        import flatbencode
        top = flatbencode.decode(bytes.fromhex(case['x']))
    except Exception:   # noqa
        return []
    return [ugen.path_label(p) for p in ugen._value_paths(top)][:40] if isinstance(top, dict) else []


def search(ctx, drv):
    """after a correspondence break: (1) sweep the place where model and code disagree — for a torrent the field of the break
    (every hostile value, the number ladder, the numeric-looking strings with their long forms, in the four layouts and in the
    input of the break itself); for a magnet the parameters of the URI alone, in pairs, dropped, doubled, reordered and with every
    value of their class — so that a difference that stays inside the documented sets on the generated input (digit string
    accepted, hybrid link accepted) is followed to the input of the same class on which it leaves them (4301 digits, v2-only
    link); (2) spend a larger random budget directly against the specification"""
    r = ctx.rng
    breaks = list(ctx.corr_breaks)
    paths, bases_by_path = [], {}
    for b in breaks:
        if not b['op'].startswith('c08.read'):
            continue
        for label in _break_paths(b['case']):
            if label not in bases_by_path and len(paths) < 8:
                paths.append(label)
                bases_by_path[label] = []
            if label in bases_by_path and len(bases_by_path[label]) < 2 and 'x' in b['case']:
                try:
                    import flatbencode
                    top = flatbencode.decode(bytes.fromhex(b['case']['x']))
                    if isinstance(top, dict):
                        bases_by_path[label].append(top)
                except Exception:   # noqa
                    pass
    std = [ugen.layout(k, f) for k in ('single', 'multi') for f in (True, False)]
    for label in paths:
        path = ugen.parse_path_label(label)
        cs = ugen.field_sweep(path, std + bases_by_path[label])
        cases = [dict(c, validate=V, how='bytes') for c in cs for V in (True, False)]
        ctx.dist['search:field-sweep:' + label] += len(cases)
        for i in range(0, len(cases), 6000):
            evaluate_read(ctx, drv, cases[i:i + 6000])
            if ctx.violations:
                return
    uris = []
    for b in breaks:
        if b['op'] == 'c08.magnet' and b['case'].get('uri') and not b['case']['uri'].endswith('…') and b['case']['uri'] not in uris:
            uris.append(b['case']['uri'])
    for uri in sorted(uris, key=len)[:6]:
        # the authority grid in the place of the authority of the URI / of its URL parameters, when the break involves one
        if '//' in urllib.parse.unquote(uri):
            ac = ugen.authority_sweep(uri)
            ctx.dist['search:authority-sweep'] += len(ac)
            evaluate_magnet(ctx, drv, ac)
            if ctx.violations:
                return
        mc = ugen.magnet_sweep(uri)
        ctx.dist['search:magnet-sweep'] += len(mc)
        evaluate_magnet(ctx, drv, mc)
        if ctx.violations:
            return
    n = ctx.n(30000, 300000)
    cases = _expand(r, ugen.seeded(r, n))
    for i in range(0, len(cases), 6000):
        evaluate_read(ctx, drv, cases[i:i + 6000])
        if ctx.violations:
            return
    mc = ugen.magnet_random(r, n)
    evaluate_magnet(ctx, drv, mc)


def replay(ctx, drv, rp):
    case = rp['case']
    if 'uri' in case:
        uri = case['uri']
        if uri.endswith('…') and 'fields' in case:
            uri = next((c['uri'] for c in ugen.magnet_sizes(thorough=True)
                        if c['kind'] == case['kind'] and c.get('fields') == case['fields']), uri)
        c = {'kind': 'replay', 'uri': uri}
        evaluate_magnet(ctx, drv, [c])
    elif 'x' in case:
        c = {'kind': 'replay', 'x': bytes.fromhex(case['x']), 'validate': case.get('validate', True),
             'how': case.get('how', 'bytes'), 'rl': case.get('rl')}
        evaluate_read(ctx, drv, [c])
    elif 'family' in case and case['family'].startswith('unit/'):
        res = _pmap(_measure_unit_family_chunk, [[(case['family'], [max(1, case['n'] // 4), case['n']])]], 400)[0]
        res = res and res[0]
        return {'fails': bool(res and (res['killed_at'] or any(p.get('flag') for p in res['points']))), 'measure': res}
    elif 'family' in case:
        r = _pmap(_measure_chunk, [[(case['family'], max(1, case['n'] // 4), True)], [(case['family'], case['n'], True)]], 800)
        a, b = (r[0] or [None])[0], (r[1] or [None])[0]
        fails = bool(b and (b.get('timeout') or b['cpu'] > TIME_C * b['len'] + TIME_D))
        if a and b and not a.get('timeout') and not b.get('timeout') and b['cpu'] >= SLOW_FLOOR:
            fails = fails or b['cpu'] / max(a['cpu'], 1e-3) > RATIO_SLACK * (b['len'] / a['len'])
        return {'fails': fails, 'measure': [a, b]}
    else:
        return {'fails': False, 'note': 'replay without a concrete input: ' + str(rp.get('broken'))}
    return {'fails': bool(ctx.violations or ctx.known), 'violations': ctx.violations[:3],
            'known': list(ctx.known), 'correspondence_breaks': ctx.corr_breaks[:3]}
