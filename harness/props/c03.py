"""
C03 — hashing is schedule-independent and always terminates.

The real `Torrent.generate()` / `Torrent.verify()` run under a deterministic cooperative
scheduler (harness/sched/shim.py) that controls every queue / event / thread operation of
torf._generate and the placement of every timeout expiry.  For every schedule
  * the outcome is compared with the sequential reference (the specification),
  * deadlock ("no thread can move"), livelock (only idle steps remain) and threads alive at
    return are detected directly,
  * the logged label sequence is replayed step by step in the Lean transition system
    `Torf.Pipeline` (op names, enabledness, queue lengths, event flag, final result, running
    threads) — the correspondence tie for the theorems.
"""
import json
import os

from harness import common
from harness.gen import layouts
from harness.sched import runner

RULE = ('case = (mode generate|verify, layout, damage, hasher threads 1..4, callback yes/no, schedule strategy '
        '{uniform, PCT priorities with change points, stall one victim thread, fire timeouts as early as possible} '
        'with its seed); piece counts below/at/above the queue capacity 3*threads; non-trivial = >= 2 hasher '
        'threads or >= 1 timeout fired, and the run has > capacity pieces or a damaged piece; distinct = distinct '
        '(case, schedule) pairs; plus a slice of the exit-path families of C04 (close() failing in the reader\'s finally '
        'block, callbacks that cannot be called, intervals of the wrong type; non-trivial = the fault fired)')

MATCHERS = {}


def _kinds_from_c02(reply):
    """item kinds for the pipeline model from the sequential model's callback trace"""
    n = reply['pieces']
    kinds = ['nodata'] * n
    for cl in reply['calls']:
        p = cl['piece']
        if cl['exc'] is not None and cl['exc']['kind'] in ('read', 'size'):
            kinds[p] = 'exc'
        elif cl['exc'] is not None and cl['exc']['kind'] == 'content':
            kinds[p] = 'mismatch'
        elif cl['hash'] is not None and kinds[p] == 'nodata':
            kinds[p] = 'data'
    return kinds


def _run_chunk(cases):
    torf = common.import_torf()
    wd = common.worker_dir()
    out = []
    for c in cases:
        try:
            obs = runner.run_case(torf, wd, c)
        except BaseException as e:   # noqa
            import traceback
            obs = {'harness_exc': traceback.format_exc()[-1500:]}
        out.append((c, obs))
    return out


STRATS = ['uniform', 'uniform', 'pct', 'pct', 'stall', 'timeouts-first']


def mk_strategy(rng, threads):
    kind = rng.choice(STRATS)
    params = {}
    if kind == 'stall':
        params = {'victim': rng.choice(['main', 'reader', 'janitor'] + [f'hasher{i+1}' for i in range(threads)]),
                  'patience': rng.choice([30, 200, 600])}
    elif kind == 'pct':
        params = {'d': rng.choice([1, 2, 3]), 'horizon': rng.choice([60, 200, 500])}
    return {'kind': kind, 'params': params, 'seed': rng.randrange(1 << 30)}


def gen_cases(ctx, scale=1.0, modes=('generate', 'verify')):
    rng = ctx.rng
    cases = []
    n = int(ctx.n(2600, 150000) * scale)
    for _ in range(n):
        threads = rng.choice([1, 1, 2, 2, 3, 4])
        cap = 3 * threads
        L = rng.choice([2, 3, 4, 8])
        npieces = rng.choice([0, 1, 2, cap - 1, cap, cap + 1, cap + 2, cap + threads + 3, rng.randint(1, 3 * cap)])
        npieces = max(1, npieces)
        nfiles = rng.randint(1, 4)
        total = npieces * L - rng.choice([0, 0, 1, L - 1])
        total = max(1, total)
        cuts = sorted(rng.sample(range(1, total), min(total - 1, nfiles - 1))) if total > 1 else []
        sizes = [b - a for a, b in zip([0] + cuts, cuts + [total])]
        mode = rng.choice(modes)
        c = {'mode': mode, 'L': L, 'sizes': sizes, 'paths': layouts.paths_for(len(sizes), rng, nested=False),
             'cseed': rng.randrange(1 << 30), 'threads': threads, 'disk': ['ok'] * len(sizes), 'flips': [],
             'cb': None, 'interval': 0, 'strategy': mk_strategy(rng, threads), 'max_steps': 30000}
        if mode == 'verify':
            dmg = rng.choice(['none', 'none', 'flip', 'files', 'both'])
            if dmg in ('files', 'both'):
                for i in rng.sample(range(len(sizes)), rng.choice([1, 1, 2]) if len(sizes) > 1 else 1):
                    if sizes[i] > 0:
                        c['disk'][i] = rng.choice(['missing', sizes[i] + 1, sizes[i] - 1])
            if dmg in ('flip', 'both'):
                i = rng.randrange(len(sizes))
                if sizes[i]:
                    c['flips'].append([i, rng.randrange(sizes[i])])
            if dmg == 'none' and npieces >= 3 and rng.random() < 0.35:
                # a misplaced write: one full piece holds the bytes of another piece of the same torrent
                full = total // L
                if full >= 2:
                    dst, src = rng.sample(range(full), 2)
                    c['patches'] = copy_piece_patches(c, dst, src)
            c['cb'] = rng.choice([None, {'table': {}}])
        else:
            c['cb'] = rng.choice([None, {'table': {}}])
            # a listed file that changed its size after the torrent was made: the reader's generator yields an error
            # item for it, which generate() raises whatever the callback and the interval are
            if rng.random() < 0.2:
                for i in rng.sample(range(len(sizes)), rng.choice([1, 1, 2]) if len(sizes) > 1 else 1):
                    if sizes[i] > 0:
                        # (not down to 0 bytes: generate() refuses a tree without any content before it starts)
                        c['disk'][i] = rng.choice([sizes[i] + 1] + ([sizes[i] - 1] if sizes[i] > 1 else []))
        # the damage happens DURING the run: the damaged files after the first one are intact when the run starts and get
        # their state when the reader makes its first read() call (inside file 0).  A file is looked at when the reader
        # arrives at it, so the run must go exactly as if the damage had been there from the start.
        damaged = [i for i in range(1, len(sizes)) if c['disk'][i] != 'ok' or any(f == i for f, _ in c['flips'])]
        if damaged and c['disk'][0] == 'ok' and not c.get('patches') and rng.random() < 0.4:
            c['late'] = {'files': damaged, 'at_read': 1}
        cases.append(c)
    return cases


def model_flips(c):
    """positions whose byte differs from the recorded content, for the sequential model: byte flips and patches"""
    return list(c['flips']) + [[f, o] for f, o, _ in (c.get('patches') or [])]


def copy_piece_patches(c, dst, src):
    """byte patches that overwrite piece `dst` of the concatenated stream with the bytes of piece `src` (a misplaced
    write: the corrupt piece's data equals another piece of the same torrent)"""
    from harness.impl import content as _content
    L = c['L']
    blobs = [_content.file_bytes(c['cseed'], i, s) for i, s in enumerate(c['sizes'])]
    stream = b''.join(blobs)
    out = []
    starts = []
    pos = 0
    for s_ in c['sizes']:
        starts.append(pos)
        pos += s_
    for k in range(L):
        a, b = dst * L + k, src * L + k
        if a >= len(stream) or b >= len(stream) or stream[a] == stream[b]:
            continue
        fi = max(i for i in range(len(starts)) if starts[i] <= a and a < starts[i] + c['sizes'][i])
        out.append([fi, a - starts[fi], stream[b]])
    return out


def needs_c02(c):
    """the sequential model classifies the reader's items: every verify case, and generate on a damaged disk"""
    return c['mode'] == 'verify' or any(d != 'ok' for d in c['disk'])


def model_cfg(c, c02reply):
    if c['mode'] == 'generate':
        total = sum(c['sizes'])
        n = (total + c['L'] - 1) // c['L']
        items = ['data'] * n if c02reply is None else _kinds_from_c02(c02reply)
        raise_on_bad = True
    else:
        items = _kinds_from_c02(c02reply)
        raise_on_bad = c['cb'] is None
    table = [[int(k), {'raise-base': 'raise', 'cancel-first': 'cancel'}.get(v, v)]
             for k, v in ((c['cb'] or {}).get('table') or {}).items()]
    return {'N': c['threads'], 'cap': 3 * c['threads'], 'items': items, 'readFault': c.get('read_fault_item'),
            'refuse': list(c.get('refuse') or []), 'raiseOnBad': raise_on_bad, 'cbByDone': table}


def run_optimized(cases, level=1, timeout=600):
    """the same cases in a child interpreter started with -O / -OO (assert statements compiled away)"""
    import subprocess
    from harness.sched import optworker
    env = dict(os.environ, PYTHONPATH=common.VERIF, VERIF_REPO=common.REPO)
    p = subprocess.run(['/venv/bin/python', '-' + 'O' * level, '-B', '-m', 'harness.sched.optworker'], cwd=common.VERIF, env=env,
                       input='\n'.join(json.dumps(c) for c in cases) + '\n', capture_output=True, text=True, timeout=timeout)
    lines = [l for l in p.stdout.splitlines() if l.strip()]
    if not lines or json.loads(lines[0]).get('optimize') != level or len(lines) != len(cases) + 1:
        raise RuntimeError(f'optimized worker failed (rc {p.returncode}): {p.stderr[-800:]}')
    return [(c, optworker.unjson(json.loads(l))) for c, l in zip(cases, lines[1:])]


def _run_chunk_opt(cases):
    return run_optimized(cases) if cases else []


def expected_outcome(c, c02reply):
    """sequential reference = what the specification demands of the outcome (no cancel/faults)"""
    if c['mode'] == 'generate':
        if c02reply is None or not c02reply['bad']:
            return {'returned': True}
        # the error of one of the files whose size changed (GenerateCallback raises it with or without a callback)
        return {'raised_any_of': [{'kind': e[1], 'file': e[0]} for e in c02reply['bad']]}
    if c['cb'] is None:
        r = c02reply['nocb']
        if 'ok' in r:
            return {'returned': r['ok']}
        # several damaged pieces: any one of the corresponding errors
        poss = []
        for cl in c02reply['calls']:
            if cl['exc'] is not None:
                e = cl['exc']
                poss.append({'kind': e['kind'], 'file': e.get('file')} if e['kind'] in ('read', 'size')
                            else {'kind': 'content', 'piece': e['piece']})
        return {'raised_any_of': poss}
    return {'returned': c02reply['cb'].get('ok')}


def _match_expected(exp, res):
    if res is None:
        return False
    if 'returned' in exp:
        return res == {'returned': exp['returned']}
    if 'raised' not in res:
        return False
    r = res['raised']
    for p in exp['raised_any_of']:
        if p['kind'] == r.get('kind') and (p['kind'] == 'content' and p['piece'] == r.get('piece') or
                                           p['kind'] in ('read', 'size') and p['file'] == r.get('file')):
            return True
    return False


def evaluate(ctx, drv, cases, prop='C03', optimized=False):
    # sequential model (C02) for verify cases: item kinds + expected outcome
    vidx = [i for i, c in enumerate(cases) if needs_c02(c)]
    c02 = drv.run([{'op': 'c02.verify', 'L': cases[i]['L'], 'sizes': cases[i]['sizes'], 'disk': cases[i]['disk'],
                    'flips': model_flips(cases[i]), 'single': False, 'pathIsDir': True} for i in vidx])
    c02by = dict(zip(vidx, c02))
    # optimized=True: the same cases in child interpreters started with -O (assert statements compiled away)
    results = common.pmap(_run_chunk_opt if optimized else _run_chunk,
                          common.split(cases, common.NPROC if optimized else common.NPROC * 4))
    flat = [x for chunk in results for x in chunk]
    reqs = []
    for i, (c, obs) in enumerate(flat):
        if 'harness_exc' in obs:
            raise RuntimeError(f'harness failure: {obs["harness_exc"]}')
        cfg = model_cfg(c, c02by.get(i))
        pqm = (obs.get('structure') or {}).get('pq_max')
        if pqm and pqm > 0:
            cfg['cap'] = pqm      # the theorems hold for every capacity >= 1; follow the code's choice
        reqs.append({'op': 'c03.replay', 'cfg': cfg, 'trace': obs['trace']})
    replies = drv.run(reqs)
    for i, ((c, obs), rep) in enumerate(zip(flat, replies)):
        case = {k: c[k] for k in ('mode', 'L', 'sizes', 'paths', 'cseed', 'threads', 'disk', 'flips', 'cb',
                                  'interval', 'strategy', 'max_steps') if k in c}
        for k in ('refuse', 'read_fault', 'read_fault_item', 'patches', 'late'):
            if c.get(k) is not None:
                case[k] = c[k]
        ntimeouts = sum(1 for e in obs['trace'] if e[2] == 'timeout')
        npieces = obs['total']
        ctx.case(key=json.dumps(case, sort_keys=True),
                 nontrivial=(c['threads'] >= 2 or ntimeouts > 0) and
                            (npieces > 3 * c['threads'] or any(d != 'ok' for d in c['disk']) or bool(c['flips'])),
                 kind=f"{c['mode']}/{c['strategy']['kind']}/N{c['threads']}" + ('/python -O' if optimized else ''))
        if optimized:
            case['python'] = '-O'
        ctx.dist['timeouts-fired'] += ntimeouts
        ctx.dist['steps'] += obs['steps']
        ctx.sample({'case': case, 'trace_head': obs['trace'][:12], 'outcome': obs['outcome'],
                    'result': obs['result']}, limit=3)
        judge(ctx, c, case, obs, rep, c02by.get(i), prop)


def judge(ctx, c, case, obs, rep, c02reply, prop):
    """C03 verdict for a fault-free, cancel-free run"""
    problems = []
    if obs['outcome'] == 'deadlock':
        problems.append(f'deadlock: no thread can move, blocked at {obs["stuck"]}')
    elif obs['outcome'] == 'livelock':
        problems.append(f'no termination: only idle steps remain, threads at {obs["stuck"]}')
    elif obs['outcome'] == 'budget':
        ctx.dist['step-budget-exhausted(inconclusive)'] += 1
        return
    if obs['alive_at_return']:
        problems.append(f'worker threads still running at return: {obs["alive_at_return"]}')
    exp = expected_outcome(c, c02reply)
    if obs['outcome'] == 'done' and not _match_expected(exp, obs['result']):
        problems.append(f'outcome {obs["result"]} differs from the sequential reference {exp}')
    if c['mode'] == 'generate' and obs['outcome'] == 'done' and obs['result'] == {'returned': True} and \
            obs['pieces_stored'] != obs['want_pieces']:
        problems.append('stored piece string differs from the sequential reference (lost/duplicated/misordered digest)')
    if problems:
        ctx.violation(f'{c["mode"]}(threads={c["threads"]}): ' + '; '.join(problems), case,
                      {'expected': exp}, {'outcome': obs['outcome'], 'result': obs['result'],
                                          'alive_at_return': obs['alive_at_return'], 'stuck': obs['stuck'],
                                          'trace_tail': obs['trace'][-25:]}, MATCHERS)
        return
    check_correspondence(ctx, c, case, obs, rep)


def model_result_matches(c, obs, mres):
    """compare the model's Result with the implementation's return value / exception"""
    res = obs['result']
    if mres is None or res is None:
        return mres is None and res is None
    if 'returned' in mres:
        if 'returned' not in res:
            return False
        coll = sorted(mres['returned'])
        if c['mode'] == 'generate':
            return res['returned'] == (len(coll) == obs['total'])
        return True   # verify: the value also depends on hash equality, judged against the spec above
    r = mres['raised']
    if 'raised' not in res:
        return False
    ir = res['raised']
    k = r['kind']
    if k == 'cb':
        return ir.get('kind') == 'cb'
    if k == 'item':
        return ir.get('kind') in ('read', 'size', 'content')
    if k == 'read':
        return ir.get('kind') == 'read'
    if k == 'startRefused':
        return ir.get('kind') == 'startRefused'
    return ir.get('kind') == 'internal'


def check_correspondence(ctx, c, case, obs, rep):
    st = obs.get('structure') or {}
    if st.get('hq_max') not in (0, None) or (st.get('pq_max') is not None and st['pq_max'] <= 0):
        # the model assumes a bounded piece queue and an unbounded hash queue
        ctx.corr_break('c03.structure', case, {'pq': 'bounded (capacity >= 1)', 'hq': 'unbounded'}, st)
        ctx.notes['structure_seen'] = st
        return False
    if not rep['ok']:
        ctx.corr_break('c03.replay', case, {k: rep[k] for k in rep if k != 'id'},
                       {'trace_around': obs['trace'][max(0, rep['at'] - 6): rep['at'] + 2]})
        return False
    if obs['outcome'] == 'done':
        if not rep['terminal'] or rep['running'] or not model_result_matches(c, obs, rep['result']) or \
                sorted(rep['aliveAtReturn'] or []) != sorted(obs['alive_at_return'] or []):
            ctx.corr_break('c03.replay(final)', case,
                           {'terminal': rep['terminal'], 'running': rep['running'], 'result': rep['result'],
                            'aliveAtReturn': rep['aliveAtReturn']},
                           {'result': obs['result'], 'alive_at_return': obs['alive_at_return']})
            return False
    return True


def run(ctx, drv):
    ctx.notes['rule'] = RULE
    ctx.notes['assumptions'] = [
        'granularity: one label per queue/event/thread operation; the code between two operations of a thread contains '
        'at most one access to a shared variable (stop flag, tracked-hasher list), so every CPython interleaving is '
        'equivalent to one at this granularity (the GIL makes the individual accesses atomic)',
        'timeouts are adversarial (may fire whenever the awaited condition is false); termination is claimed under weak fairness',
        'small piece lengths: only the validate() gate of verify() is bypassed on the instance',
        'the shim replaces threading/queue/time_monotonic of torf._generate with cooperative versions whose semantics '
        '(FIFO queues, blocking put/get, Event, Thread.start/join/is_alive) are trusted to match the standard library',
    ]
    evaluate(ctx, drv, gen_cases(ctx))
    if not ctx.violations:
        evaluate(ctx, drv, gen_cases(ctx, scale=0.08), optimized=True)
    if not ctx.violations:
        # "returns ... and leaves no worker thread running" also for the calls that end early: a failing close() in the
        # reader's finally block, and arguments the collecting thread trips over (C04 owns the full fault enumeration)
        from harness.sched import exitfaults
        exitfaults.evaluate(ctx, drv, exitfaults.gen_cases(ctx, slim=True), strict=False, matchers=MATCHERS)


def directed_cases(ctx):
    """cases aimed at a structural deviation seen by the correspondence check"""
    st = ctx.notes.get('structure_seen') or {}
    rng = ctx.rng
    out = []
    M = st.get('hq_max') or 0
    if M and M > 0:
        # bounded hash queue: the collector stops consuming on the exception path; build a backlog > M
        for threads in (1, 2):
            for victim_patience in (25,):
                n = M + 3 * threads + threads + 6
                L = 2
                sizes = [n * L]
                for mode, extra in (('verify', {'flips': [[0, 0]], 'cb': None}),
                                    ('generate', {'flips': [], 'cb': {'table': {'1': 'raise'}}})):
                    out.append({'mode': mode, 'L': L, 'sizes': sizes, 'paths': [['f000']],
                                'cseed': rng.randrange(1 << 30), 'threads': threads, 'disk': ['ok'],
                                'interval': 0, 'max_steps': 40 * n + 5000,
                                'strategy': {'kind': 'stall', 'params': {'victim': 'main', 'patience': victim_patience},
                                             'seed': rng.randrange(1 << 30)}, **extra})
    return out


def search(ctx, drv):
    d = directed_cases(ctx)
    if d:
        evaluate_directed(ctx, drv, d)
    if not ctx.violations:
        evaluate(ctx, drv, gen_cases(ctx, scale=2.0))


def evaluate_directed(ctx, drv, cases):
    """directed cases may involve cancel/raise: judge only termination and leaked threads"""
    results = common.pmap(_run_chunk, common.split(cases, common.NPROC))
    for chunk in results:
        for (c, obs) in chunk:
            if 'harness_exc' in obs:
                raise RuntimeError(obs['harness_exc'])
            case = {k: c[k] for k in c}
            ctx.case(key=json.dumps(case, sort_keys=True), nontrivial=True, kind='directed')
            problems = []
            if obs['outcome'] == 'deadlock':
                problems.append(f'deadlock: no thread can move, blocked at {obs["stuck"]}')
            elif obs['outcome'] == 'livelock':
                problems.append(f'no termination: only idle steps remain, threads at {obs["stuck"]}')
            if obs['alive_at_return']:
                problems.append(f'worker threads still running at return: {obs["alive_at_return"]}')
            if problems:
                ctx.violation(f'{c["mode"]}(threads={c["threads"]}): ' + '; '.join(problems), case, 'returns, no thread left',
                              {'outcome': obs['outcome'], 'result': obs['result'], 'stuck': obs['stuck'],
                               'alive_at_return': obs['alive_at_return'], 'structure': obs.get('structure')}, MATCHERS)


def replay(ctx, drv, rp):
    c = dict(rp['case'])
    from harness.sched import exitfaults
    if exitfaults.is_exit_case(c):
        exitfaults.evaluate(ctx, drv, [c], strict=False, matchers=MATCHERS)
    else:
        evaluate(ctx, drv, [c], optimized=c.pop('python', None) == '-O')
    return {'fails': bool(ctx.violations or ctx.corr_breaks), 'violations': ctx.violations,
            'corr_breaks': ctx.corr_breaks}
