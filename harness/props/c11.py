"""
C11 — stream geometry and random access agree with the byte stream.

For every layout (piece length, file sizes in metainfo order) every public geometry method of
`TorrentFileStream` is called with every interesting argument (incl. out-of-range, negative,
foreign files) under several content-path settings; the same queries go to the Lean driver,
which answers with the code-shaped model (`Torf.Geometry.*`), the arithmetic specification
(`Torf.GeomSpec.*`) and whether the query lies inside the hypothesis of the proved theorem.

  impl ≠ spec                      → ctx.violation (KNOWN-FINDING only through a narrow matcher)
  hyp, impl = spec, impl ≠ model   → ctx.corr_break
  hyp, model ≠ spec                → ctx.machinery_error
"""
import os
import pathlib

from harness import common
from harness.gen import layouts
from harness.impl import content

RULE = ('case = (layout, content-path setting, method, arguments); layouts: exhaustive small scopes '
        '(L<=4, <=3 files, sizes 0..2L+1, quick tier samples the largest scope) + boundary-directed random '
        'larger layouts + single-file torrents; arguments: every position -1..T+1, every piece index '
        '-2..n+1, every file incl. two foreign File objects, every relative index -c-2..c+2 plus lists, '
        'byte ranges exhaustively for T<=7 else singletons, piece-aligned and random pairs; settings: no '
        'content path / class argument / Torrent.path / method argument / method argument "" / class '
        'argument shadowing Torrent.path. non-trivial = layout with >= 2 files and a file boundary strictly '
        'inside a piece; distinct = distinct (L, sizes, setting, method, arguments)')

SETTINGS = [
    {'name': 'none', 'cls': None, 'tpath': None, 'arg': None},
    {'name': 'cls', 'cls': 'top', 'tpath': None, 'arg': None},
    {'name': 'tpath', 'cls': None, 'tpath': 'top', 'arg': None},
    {'name': 'arg', 'cls': None, 'tpath': None, 'arg': 'top'},
    {'name': 'arg-empty', 'cls': 'top', 'tpath': None, 'arg': ''},
    {'name': 'cls-over-tpath', 'cls': 'top', 'tpath': 'other', 'arg': None},
]
SETTING = {s['name']: s for s in SETTINGS}
AFFECTED_BY_EMPTY = {'byte_range', 'files_at_piece', 'piece_indexes', 'abs', 'rel', 'get_piece',
                     'piece_hash', 'verify'}


# ----------------------------------------------------------------------------- arithmetic helpers

def _pos(sizes):
    out, p = [], 0
    for s in sizes:
        out.append(p)
        p += s
    return out


def _npieces(L, sizes):
    return -(-sum(sizes) // L)


def build_queries(L, sizes, rng_seed, full=True):
    """the argument space of one layout (deterministic in rng_seed)"""
    import random
    rng = random.Random(rng_seed)
    n, T, npc = len(sizes), sum(sizes), _npieces(L, sizes)
    pos = _pos(sizes)
    qs = [{'m': 'max_piece_index'}]
    for p in range(-2, T + 2):
        qs.append({'m': 'file_at_position', 'p': p})
    for i in range(-2, npc + 2):
        qs.append({'m': 'files_at_piece', 'i': i})
        qs.append({'m': 'get_piece', 'i': i})
        qs.append({'m': 'piece_hash', 'i': i})
        qs.append({'m': 'verify', 'i': i})
    for j in range(n + 2):            # n, n+1 : foreign files (unknown path / known path, other size)
        qs.append({'m': 'file_position', 'j': j})
        qs.append({'m': 'byte_range_of_file', 'j': j})
        qs.append({'m': 'piece_indexes', 'j': j, 'excl': False})
        qs.append({'m': 'piece_indexes', 'j': j, 'excl': True})
        if j < n:
            c = ((pos[j] + sizes[j] - 1) // L - pos[j] // L + 1) if sizes[j] else 1
            rl = [[r] for r in range(-c - 2, c + 3)] + [[], [0, -1], [-c, c, 1, -2, 0]]
            rl.append([rng.randint(-c - 3, c + 3) for _ in range(rng.randint(2, 6))])
        else:
            rl = [[0], [-1, 1]]
        for rels in rl:
            qs.append({'m': 'abs', 'j': j, 'rels': rels})
            if j < n:
                qs.append({'m': 'rel', 'j': j, 'rels': rels})
    if T <= 7 and full:
        pairs = [(a, b) for a in range(-1, T + 2) for b in range(a, T + 2)]
    else:
        pairs = [(a, a) for a in range(-1, T + 2)]
        pairs += [(i * L, (i + 1) * L - 1) for i in range(0, npc + 1)]
        pairs += [(-1, T + 1), (0, T - 1 if T else 0)]
        for _ in range(12):
            a = rng.randint(-1, T + 1)
            pairs.append((a, rng.randint(a, T + 1)))
    for a, b in pairs:
        qs.append({'m': 'byte_range', 'a': a, 'b': b})
    return qs


# ----------------------------------------------------------------------------- the real code

def _err(e, torf):
    if isinstance(e, ValueError):
        return {'err': 'value'}
    if isinstance(e, torf.ReadError):
        return {'err': 'internal:OSError'}
    return {'err': 'internal:' + type(e).__name__}


def _run_layout(torf, _stream, wd, c):
    """all queries of one layout on the real code → list of observables (driver JSON shape)"""
    L, sizes, st = c['L'], c['sizes'], SETTING[c['setting']]
    single = c.get('single', False)
    n = len(sizes)
    files = [{'path': p, 'size': s} for p, s in zip(c['paths'], sizes)]
    name = 'T'
    top = os.path.join(wd, name)
    has_path = any(st[k] == 'top' for k in ('cls', 'tpath', 'arg'))
    contents = None
    if has_path:
        contents = content.make_tree(wd, name, files, seed=c['cseed'], single=single)
    else:
        contents = [content.file_bytes(c['cseed'], i, s) for i, s in enumerate(sizes)]
    t = content.make_torrent(torf, wd, name, files, L, single=single, with_path=False)
    if st['tpath'] == 'top':
        t._path = pathlib.Path(top)
    elif st['tpath'] == 'other':
        t._path = pathlib.Path(os.path.join(wd, 'elsewhere'))
    stream = b''.join(contents)
    npc = _npieces(L, sizes)
    hashes = [common.sha1(stream[i * L:(i + 1) * L]) for i in range(npc)][:c['nstored']]
    if c.get('bad') is not None and c['bad'] < len(hashes):
        hashes[c['bad']] = common.sha1(b'wrong' + hashes[c['bad']])
    if hashes:
        t.metainfo['info']['pieces'] = b''.join(hashes)
    tfiles = list(t.files)
    foreign = [torf.File(os.path.join(name, 'no-such-file'), size=1),
               torf.File(str(tfiles[0]), size=tfiles[0].size + 1)]
    kw = {} if st['arg'] is None else {'content_path': top if st['arg'] == 'top' else ''}
    # what a returned object must look like for file j (kind decided by the Lean model)
    ret = c['returned']

    def ident(o):
        for j in range(n):
            r = ret[j]
            if r['kind'] == 'torrentFile':
                if isinstance(o, torf.File) and o == tfiles[j] and str(o) == str(tfiles[j]) and o.size == sizes[j]:
                    return j
            elif r['kind'] == 'joined':
                exp = os.path.join(top, *c['paths'][j])
                if isinstance(o, torf.File) and str(o) == exp and o.size == sizes[j]:
                    return j
            elif r['kind'] == 'contentPath':
                if not isinstance(o, torf.File) and str(o) == top:
                    return j
        return 'unrecognised:' + repr(o)

    def farg(j):
        return tfiles[j] if j < n else foreign[min(j - n, 1)]

    out = []
    with _stream.TorrentFileStream(t, content_path=(top if st['cls'] == 'top' else None)) as tfs:
        for q in c['queries']:
            m = q['m']
            try:
                if m == 'max_piece_index':
                    r = tfs.max_piece_index
                    r = int(r) if r == int(r) else repr(r)
                elif m == 'file_position':
                    r = {'ok': tfs.get_file_position(farg(q['j']))}
                elif m == 'file_at_position':
                    r = {'ok': ident(tfs.get_file_at_position(q['p'], **kw))}
                elif m == 'byte_range':
                    r = {'ok': [ident(o) for o in tfs.get_files_at_byte_range(q['a'], q['b'], **kw)]}
                elif m == 'byte_range_of_file':
                    r = {'ok': list(tfs.get_byte_range_of_file(farg(q['j'])))}
                elif m == 'files_at_piece':
                    r = {'ok': [ident(o) for o in tfs.get_files_at_piece_index(q['i'], **kw)]}
                elif m == 'piece_indexes':
                    r = {'ok': list(tfs.get_piece_indexes_of_file(farg(q['j']), exclusive=q['excl']))}
                elif m == 'abs':
                    r = {'ok': list(tfs.get_absolute_piece_indexes(farg(q['j']), q['rels']))}
                elif m == 'rel':
                    r = {'ok': list(tfs.get_relative_piece_indexes(farg(q['j']), q['rels']))}
                elif m == 'get_piece':
                    kw2 = {'content_path': top} if st['arg'] == 'top' else {}
                    r = {'ok': tfs.get_piece(q['i'], **kw2)}
                elif m == 'piece_hash':
                    kw2 = {'content_path': top} if st['arg'] == 'top' else {}
                    r = {'ok': tfs.get_piece_hash(q['i'], **kw2)}
                elif m == 'verify':
                    kw2 = {'content_path': top} if st['arg'] == 'top' else {}
                    r = {'ok': tfs.verify_piece(q['i'], **kw2)}
                else:
                    raise RuntimeError(m)
            except BaseException as e:  # noqa
                if isinstance(e, (KeyboardInterrupt, RuntimeError)):
                    raise
                r = _err(e, torf)
            out.append(r)
        seq = None
        if has_path and sum(sizes) > 0:
            try:
                kw2 = {'content_path': top} if st['arg'] == 'top' else {}
                seq = [p for (p, _fp, _ex) in tfs.iter_pieces(**kw2)]
            except BaseException as e:  # noqa
                seq = 'exc:' + type(e).__name__
    return out, seq, contents


def _run_chunk(cases):
    torf = common.import_torf()
    from torf import _stream
    wd = common.worker_dir()
    return [_run_layout(torf, _stream, wd, c) for c in cases]


# ----------------------------------------------------------------------------- known findings

def _has_empty(case):
    return any(s == 0 for s in case['sizes'])


def match_d11a(case, observed, finding):
    """zero-length entries: the layout has one, the method is one of those that look at file
    ends, and the implementation does exactly what the recorded defect does (the code-shaped
    model of the unrepaired code predicts the observed answer)."""
    q = case['query']
    if not _has_empty(case) or q['m'] not in AFFECTED_BY_EMPTY:
        return False
    if q['m'] in ('piece_indexes', 'abs', 'rel') and not q.get('excl'):
        # only the zero-length file itself is answered wrongly by these
        if not (q['j'] < len(case['sizes']) and case['sizes'][q['j']] == 0):
            return False
    if q['m'] in ('byte_range', 'files_at_piece') and 'ok' in observed and 'ok' in case['spec']:
        # surplus entries are zero-length files, nothing else differs
        obs = observed['ok']
        if not all(isinstance(j, int) for j in obs):
            return False
        if [j for j in obs if case['sizes'][j] != 0] != case['spec']['ok']:
            return False
    return observed == case['model_obs']


def match_d11c(case, observed, finding):
    """relative piece indexes of a non-empty file that does not start on a piece boundary and
    therefore spans one piece more than its size alone suggests"""
    q = case['query']
    if q['m'] != 'rel' or q['j'] >= len(case['sizes']):
        return False
    L, sizes = case['L'], case['sizes']
    p, s = _pos(sizes)[q['j']], sizes[q['j']]
    if s == 0 or p % L == 0 or (p % L + s - 1) // L == (s - 1) // L:
        return False
    return observed == case['model_obs']


MATCHERS = {'c11_zero_length_entry': match_d11a, 'c11_relative_unaligned': match_d11c}


# ----------------------------------------------------------------------------- evaluation

def _driver_requests(cases):
    reqs = []
    for c in cases:
        st = SETTING[c['setting']]
        n = len(c['sizes'])
        hp = any(st[k] == 'top' for k in ('cls', 'tpath', 'arg'))
        qs = []
        for q in c['queries']:
            q2 = dict(q)
            if q['m'] == 'piece_hash':
                q2['m'] = 'get_piece'
            if q2['m'] in ('get_piece', 'verify'):
                q2['hasPath'] = hp
            if q2['m'] in ('rel',) and q['j'] >= n:
                continue
            qs.append(q2)
        # which object is returned for file j under the setting of the file-returning methods
        for j in range(n):
            r = {'m': 'returned', 'j': j, 'single': bool(c.get('single'))}
            if st['arg'] is not None:
                r['arg'] = 'TOP' if st['arg'] == 'top' else ''
            if st['cls'] is not None:
                r['cls'] = 'TOP'
            if st['tpath'] is not None:
                r['tpath'] = 'TOP' if st['tpath'] == 'top' else 'OTHER'
            qs.append(r)
        req = {'op': 'c11.layout', 'L': c['L'], 'sizes': c['sizes'], 'queries': qs, 'nstored': c['nstored']}
        if c.get('bad') is not None:
            req['bad'] = c['bad']
        reqs.append(req)
    return reqs


def _conv_piece(v, contents, hashed=False):
    """driver reply for a piece (runs) → bytes (or its sha1)"""
    if 'ok' in v:
        b = content.pieces_from_runs([v['ok']], contents)[0]
        return {'ok': common.sha1(b) if hashed else b}
    return v


def evaluate(ctx, drv, cases):
    if not cases:
        return
    replies = drv.run(_driver_requests(cases))
    for c, r in zip(cases, replies):
        n = len(c['sizes'])
        c['returned'] = [x['model'] for x in r['res'][len(r['res']) - n:]]
    results = common.pmap(_run_chunk, common.split(cases, common.NPROC * 4))
    flat = [x for chunk in results for x in chunk]
    for c, r, (obs, seq, contents) in zip(cases, replies, flat):
        L, sizes = c['L'], c['sizes']
        nt = layouts.nontrivial_key(L, sizes) is not None
        res = r['res']
        assert len(obs) == len(c['queries']) == len(res) - len(sizes), (len(obs), len(c['queries']), len(res))
        base = {'L': L, 'sizes': sizes, 'paths': c['paths'], 'setting': c['setting'], 'cseed': c['cseed'],
                'single': bool(c.get('single')), 'nstored': c['nstored'], 'bad': c.get('bad')}
        if len(ctx.samples) < 3:
            ctx.sample({'layout': base, 'queries': c['queries'][:4] + c['queries'][-3:], 'n_queries': len(c['queries'])})
        for q, o, d in zip(c['queries'], obs, res):
            m = q['m']
            model, spec, hyp = d['model'], d['spec'], d['hyp']
            if m in ('get_piece', 'piece_hash'):
                model = _conv_piece(model, contents, hashed=(m == 'piece_hash'))
                spec = _conv_piece(spec, contents, hashed=(m == 'piece_hash'))
            ctx.case(key=(L, tuple(sizes), c['setting'], bool(c.get('single')), m,
                          tuple(sorted((k, str(v)) for k, v in q.items() if k != 'm'))),
                     nontrivial=nt, kind=m + ('' if hyp else '/outside-hyp'))
            case = dict(base, query=q, spec=spec, model_obs=model, hyp=hyp)
            if hyp and model != spec:
                ctx.machinery_error(f'{m}: model != spec inside the hypothesis of a proved theorem', case)
                continue
            if o != spec:
                fid = ctx.violation(f'{m}{_fmt(q)} on L={L} sizes={sizes} ({c["setting"]}) answers {_short(o)}, '
                                    f'arithmetic definition: {_short(spec)}', case, spec, o,
                                    finding_matchers=MATCHERS)
                continue
            if hyp and o != model:
                ctx.corr_break('c11.' + m, case, model, o)
            elif not hyp and o != model:
                ctx.dist['outside-hyp:impl-meets-spec-model-does-not'] += 1
        # sequential iteration = indexed reading = chunks of the stream (model: C01's iterPieces)
        if seq is not None:
            want = content.pieces_from_runs(r['iter'], contents)
            ctx.case(key=(L, tuple(sizes), c['setting'], 'iter'), nontrivial=nt, kind='iter_pieces')
            if seq != want:
                ctx.violation(f'iter_pieces() on L={L} sizes={sizes} differs from the consecutive slices of the stream',
                              dict(base, query={'m': 'iter'}), [w.hex() for w in want[:6]],
                              seq if isinstance(seq, str) else [(s.hex() if s is not None else None) for s in seq[:6]],
                              finding_matchers=MATCHERS)


def _fmt(q):
    return '(' + ', '.join(f'{k}={v}' for k, v in q.items() if k != 'm') + ')'


def _short(x):
    s = repr(common.jsonable(x))
    return s if len(s) < 160 else s[:157] + '...'


# ----------------------------------------------------------------------------- generators

def _mk_case(L, sizes, setting, rng, single=False, full=True, nested=False, hashes='all'):
    npc = _npieces(L, sizes)
    qseed = rng.randrange(1 << 30)
    bad = rng.randrange(npc + 2) if npc else None
    if bad is not None and bad >= npc:
        bad = None
    nstored = npc if hashes == 'all' else rng.choice([0, max(0, npc - 1)])
    return {'L': L, 'sizes': list(sizes), 'paths': layouts.paths_for(len(sizes), rng, nested),
            'setting': setting, 'cseed': rng.randrange(1 << 30), 'single': single,
            'queries': build_queries(L, list(sizes), qseed, full=full), 'qseed': qseed,
            'nstored': nstored, 'bad': bad}


def gen_cases(ctx, scale=1.0):
    rng = ctx.rng
    cases = []
    with_path = ['cls', 'tpath', 'arg', 'arg-empty', 'cls-over-tpath']
    # 1. exhaustive small scopes, each layout without a content path and with one
    if ctx.thorough:
        ex = list(layouts.exhaustive([1, 2, 3, 4], 3))
        ex += list(layouts.exhaustive([1, 2], 4, min_files=4))
        scope = 'L<=4 with <=3 files, L<=2 with 4 files; sizes 0..2L+1'
    else:
        ex = list(layouts.exhaustive([1, 2, 3], 3)) + list(layouts.exhaustive([4], 2))
        l4 = list(layouts.exhaustive([4], 3, min_files=3))
        ex += rng.sample(l4, int(min(len(l4), 250 * scale)))
        scope = 'L<=3 with <=3 files, L=4 with <=2 files (all), L=4 with 3 files (sample of 250); sizes 0..2L+1'
    ctx.notes['exhaustive_scope'] = scope
    for k, (L, sizes) in enumerate(ex):
        cases.append(_mk_case(L, sizes, 'none', rng))
        cases.append(_mk_case(L, sizes, with_path[k % len(with_path)], rng))
    # 2. boundary-directed random larger layouts
    for _ in range(int(ctx.n(250, 6000) * scale)):
        L = rng.choice([1, 2, 3, 4, 5, 7, 8, 16, 31, 64])
        shape, sizes = layouts.random_sizes(rng, L, nmax=24)
        if rng.random() < 0.5:
            sizes = [s for s in sizes if s > 0] or [L + 1]
        cases.append(_mk_case(L, sizes, rng.choice(SETTINGS)['name'], rng, full=False, nested=True,
                              hashes=rng.choice(['all', 'all', 'all', 'some'])))
    # 3. real piece lengths (16 KiB multiples)
    for _ in range(int(ctx.n(12, 300) * scale)):
        L = 16384 * rng.choice([1, 2, 4])
        sizes = [rng.choice([0, 1, L - 1, L, L + 1, 2 * L, rng.randint(0, 3 * L)]) for _ in range(rng.randint(1, 6))]
        if sum(sizes) == 0:
            sizes[0] = L + 1
        c = _mk_case(L, sizes, rng.choice(with_path), rng, full=False)
        # keep the argument space small: positions around boundaries only
        c['queries'] = [q for q in c['queries'] if q['m'] not in ('file_at_position', 'byte_range')]
        T = sum(sizes)
        for p in sorted({-1, 0, T - 1, T} | {x + d for x in _pos(sizes) for d in (-1, 0, 1)}
                        | {i * L + d for i in range(_npieces(L, sizes) + 1) for d in (-1, 0)}):
            c['queries'].append({'m': 'file_at_position', 'p': p})
            c['queries'].append({'m': 'byte_range', 'a': p, 'b': p + rng.choice([0, 1, L - 1, L, 2 * L])})
        cases.append(c)
    # 4. single-file torrents
    for _ in range(int(ctx.n(30, 400) * scale)):
        L = rng.choice([1, 2, 3, 8])
        sizes = [max(1, layouts.boundary_sizes(rng, L))]
        cases.append(_mk_case(L, sizes, rng.choice(SETTINGS)['name'], rng, single=True))
    return cases


def _witness_case(w):
    import random
    rng = random.Random(0)
    c = _mk_case(w['L'], w['sizes'], w.get('setting', 'cls'), rng)
    c['queries'] = [w['query']]
    c['bad'] = None
    return c


def replay_findings(ctx, drv):
    """each open finding's witness is replayed first; a witness that no longer fails is reported
    as not reproduced (and no KNOWN-FINDING line is printed for it)"""
    for f in ctx.open_findings():
        before = dict(ctx.known)
        evaluate(ctx, drv, [_witness_case(f['witness'])])
        if f['id'] not in ctx.known and f['id'] not in before:
            ctx.not_reproduced.append(f['id'])


def run_corpus(ctx, drv):
    import glob
    import json
    cs = []
    for p in sorted(glob.glob(os.path.join(common.CORPUS_DIR, 'C11', '*.json'))):
        cs.append(_witness_case(json.load(open(p))))
    evaluate(ctx, drv, cs)


def run(ctx, drv):
    ctx.notes['rule'] = RULE
    ctx.notes['assumptions'] = [
        'math.floor(a / b) (float division) is modelled by integer floor division: exact for operands < 2^53',
        'files of a layout have pairwise distinct paths (Torrent.files de-duplicates), so a File is its index',
        'SHA-1 is a parameter H of the model (injective stand-in in the driver); the harness applies real hashlib.sha1',
        'content is intact (every file present with the recorded size); missing / mis-sized files are C02/C10',
        'get_files_at_byte_range is only called with first <= last (its assert is a precondition)',
        'get_relative_piece_indexes is only called with files of the torrent (it never checks membership)',
    ]
    replay_findings(ctx, drv)
    run_corpus(ctx, drv)
    cases = gen_cases(ctx)
    B = 600
    for k in range(0, len(cases), B):
        evaluate(ctx, drv, cases[k:k + B])
    ctx.exhaustive = False


def search(ctx, drv):
    cases = gen_cases(ctx, scale=3.0)
    for k in range(0, len(cases), 600):
        evaluate(ctx, drv, cases[k:k + 600])


def replay(ctx, drv, rp):
    c0 = rp['case']
    import random
    c = _mk_case(c0['L'], c0['sizes'], c0.get('setting', 'cls'), random.Random(0), single=c0.get('single', False))
    c.update({k: c0[k] for k in ('paths', 'cseed', 'nstored', 'bad') if k in c0})
    if c0.get('query', {}).get('m') not in (None, 'iter'):
        c['queries'] = [c0['query']]
    evaluate(ctx, drv, [c])
    return {'fails': bool(ctx.violations) or bool(ctx.known), 'violations': ctx.violations,
            'known': list(ctx.known)}
