"""
C11 — stream geometry and random access agree with the byte stream.

For every layout (piece length, file sizes in metainfo order) every public geometry method of
`TorrentFileStream` is called with every interesting argument (incl. out-of-range, negative,
foreign files) under several content-path settings; the same queries go to the Lean driver,
which answers with the code-shaped model (`Torf.Geometry.*`), the arithmetic specification
(`Torf.GeomSpec.*`) and whether the query lies inside the hypothesis of the proved theorem.

  impl ≠ spec                      → ctx.violation (KNOWN-FINDING only through a narrow matcher)
  hyp, impl = spec, impl ≠ model   → ctx.corr_break
  hyp, model ≠ spec                → ctx.machinery_error

Round 4 added two dimensions:
  * history — every random-access query (get_piece / get_piece_hash / verify_piece) is also asked on
    stream objects that were used before (complete / partial / abandoned iter_pieces passes, other
    indexed reads incl. the piece with the most files, close() and re-use, two passes); the expected
    answer is the fresh-object answer (`Torf.C19.C19_independent`, `C19_history` for the model side);
  * content-path spellings — worlds with up to three copies of the content (every byte different),
    symbolic links, and content paths the OS resolves differently from their text (`link/..`, `.`,
    doubled / trailing slashes, relative to a working directory reached through a link); the driver
    (`c11.fs`) resolves the spelling over the inode table read off the disk and says which bytes /
    which error / which returned path strings are right (`C11_content_path_verbatim`, `_dangling`).
"""
import os
import pathlib
import random

from harness import common
from harness.gen import layouts
from harness.impl import c11fs, content

RULE = ('case = (layout, content-path setting, method, arguments); layouts: exhaustive small scopes '
        '(L<=4, <=3 files, sizes 0..2L+1, quick tier samples the largest scope) + boundary-directed random '
        'larger layouts + single-file torrents; arguments: every position -1..T+1, every piece index '
        '-2..n+1, every file incl. two foreign File objects, every relative index -c-2..c+2 plus lists, '
        'byte ranges exhaustively for T<=7 else singletons, piece-aligned and random pairs; settings: no '
        'content path / class argument / Torrent.path / method argument / method argument "" / class '
        'argument shadowing Torrent.path; history: random-access queries repeated on used stream objects '
        '(iter_pieces full / partial+close / abandoned / twice, indexed reads incl. the widest piece, close() '
        'and re-use, a hash check of every piece), followed by one more iter_pieces pass; content-path '
        'spellings: worlds with 1-3 copies of the content (every byte different) + symbolic links, spellings '
        'with link/.., ., doubled and trailing slashes, absolute or relative to a cwd reached through a link, '
        'as str or pathlib.Path, per call / class argument / Torrent.path, multi- and single-file. '
        'non-trivial = layout with >= 2 files and a file boundary strictly '
        'inside a piece; distinct = distinct (L, sizes, setting, method, arguments[, history | world, spelling])')

SETTINGS = [
    {'name': 'none', 'cls': None, 'tpath': None, 'arg': None},
    {'name': 'cls', 'cls': 'top', 'tpath': None, 'arg': None},
    {'name': 'tpath', 'cls': None, 'tpath': 'top', 'arg': None},
    {'name': 'arg', 'cls': None, 'tpath': None, 'arg': 'top'},
    {'name': 'arg-empty', 'cls': 'top', 'tpath': None, 'arg': ''},
    {'name': 'cls-over-tpath', 'cls': 'top', 'tpath': 'other', 'arg': None},
]
SETTING = {s['name']: s for s in SETTINGS}
AFFECTED_BY_EMPTY = {'byte_range', 'files_at_piece', 'piece_indexes', 'abs', 'rel', 'get_piece',
                     'piece_hash', 'verify'}


# ----------------------------------------------------------------------------- arithmetic helpers

def _pos(sizes):
    out, p = [], 0
    for s in sizes:
        out.append(p)
        p += s
    return out


def _npieces(L, sizes):
    return -(-sum(sizes) // L)


def build_queries(L, sizes, rng_seed, full=True):
    """the argument space of one layout (deterministic in rng_seed)"""
    import random
    rng = random.Random(rng_seed)
    n, T, npc = len(sizes), sum(sizes), _npieces(L, sizes)
    pos = _pos(sizes)
    qs = [{'m': 'max_piece_index'}]
    for p in range(-2, T + 2):
        qs.append({'m': 'file_at_position', 'p': p})
    for i in range(-2, npc + 2):
        qs.append({'m': 'files_at_piece', 'i': i})
        qs.append({'m': 'get_piece', 'i': i})
        qs.append({'m': 'piece_hash', 'i': i})
        qs.append({'m': 'verify', 'i': i})
    for j in range(n + 2):            # n, n+1 : foreign files (unknown path / known path, other size)
        qs.append({'m': 'file_position', 'j': j})
        qs.append({'m': 'byte_range_of_file', 'j': j})
        qs.append({'m': 'piece_indexes', 'j': j, 'excl': False})
        qs.append({'m': 'piece_indexes', 'j': j, 'excl': True})
        if j < n:
            c = ((pos[j] + sizes[j] - 1) // L - pos[j] // L + 1) if sizes[j] else 1
            rl = [[r] for r in range(-c - 2, c + 3)] + [[], [0, -1], [-c, c, 1, -2, 0]]
            rl.append([rng.randint(-c - 3, c + 3) for _ in range(rng.randint(2, 6))])
        else:
            rl = [[0], [-1, 1]]
        for rels in rl:
            qs.append({'m': 'abs', 'j': j, 'rels': rels})
            if j < n:
                qs.append({'m': 'rel', 'j': j, 'rels': rels})
    if T <= 7 and full:
        pairs = [(a, b) for a in range(-1, T + 2) for b in range(a, T + 2)]
    else:
        pairs = [(a, a) for a in range(-1, T + 2)]
        pairs += [(i * L, (i + 1) * L - 1) for i in range(0, npc + 1)]
        pairs += [(-1, T + 1), (0, T - 1 if T else 0)]
        for _ in range(12):
            a = rng.randint(-1, T + 1)
            pairs.append((a, rng.randint(a, T + 1)))
    for a, b in pairs:
        qs.append({'m': 'byte_range', 'a': a, 'b': b})
    return qs


# ----------------------------------------------------------------------------- the real code

def _err(e, torf):
    if isinstance(e, ValueError):
        return {'err': 'value'}
    if isinstance(e, torf.ReadError):
        return {'err': 'internal:OSError'}
    return {'err': 'internal:' + type(e).__name__}


_SAMPLED = __import__('collections').Counter()
HISTORIES = ['iter-full', 'iter-partial-close', 'iter-abandon', 'iter-twice', 'pieces', 'widest-piece',
             'close-reuse', 'iter-then-close', 'verify-all']
RANDOM_ACCESS = ('get_piece', 'piece_hash', 'verify')


def _widest_piece(L, sizes):
    """index of the piece that holds bytes of the most files"""
    best, besti, pos = -1, 0, _pos(sizes)
    for i in range(_npieces(L, sizes)):
        k = sum(1 for p, s in zip(pos, sizes) if s and p < (i + 1) * L and p + s > i * L)
        if k > best:
            best, besti = k, i
    return besti


def _apply_history(tfs, h, L, sizes, kw2):
    """use the stream object the way earlier callers may have; whatever these calls answer (or raise) is
    judged elsewhere — here they only leave their traces in the object.  Returns objects to keep alive."""
    npc = _npieces(L, sizes)
    rng = random.Random(h['hseed'])
    keep = []

    def quiet(f, *a, **k):
        try:
            return f(*a, **k)
        except Exception:  # noqa
            return None
    name = h['h']
    if name in ('iter-full', 'iter-twice', 'iter-then-close'):
        for _ in range(2 if name == 'iter-twice' else 1):
            quiet(lambda: [None for _x in tfs.iter_pieces(**kw2)])
        if name == 'iter-then-close':
            tfs.close()
    elif name in ('iter-partial-close', 'iter-abandon'):
        it = tfs.iter_pieces(**kw2)
        for _ in range(rng.randint(1, max(1, npc))):
            if quiet(lambda: next(it, None)) is None:
                break
        if name == 'iter-partial-close':
            it.close()
        else:
            keep.append(it)            # suspended at a yield for the rest of the object's life
    elif name == 'pieces':
        for _ in range(rng.randint(1, 6)):
            quiet(tfs.get_piece, rng.randrange(npc), **kw2)
    elif name == 'widest-piece':
        quiet(tfs.get_piece, _widest_piece(L, sizes), **kw2)
        quiet(tfs.get_piece, rng.randrange(npc), **kw2)
    elif name == 'close-reuse':
        quiet(tfs.get_piece, rng.randrange(npc), **kw2)
        tfs.close()
        if rng.random() < 0.5:
            quiet(tfs.get_piece, rng.randrange(npc), **kw2)
    elif name == 'verify-all':
        for i in range(npc):
            quiet(tfs.verify_piece, i, **kw2)
    else:
        raise RuntimeError(name)
    return keep


def _random_access(tfs, torf, q, kw2):
    m = q['m']
    try:
        if m == 'get_piece':
            return {'ok': tfs.get_piece(q['i'], **kw2)}
        if m == 'piece_hash':
            return {'ok': tfs.get_piece_hash(q['i'], **kw2)}
        return {'ok': tfs.verify_piece(q['i'], **kw2)}
    except BaseException as e:  # noqa
        if isinstance(e, (KeyboardInterrupt, RuntimeError)):
            raise
        return _err(e, torf)


def _run_layout(torf, _stream, wd, c):
    """all queries of one layout on the real code → list of observables (driver JSON shape)"""
    L, sizes, st = c['L'], c['sizes'], SETTING[c['setting']]
    single = c.get('single', False)
    n = len(sizes)
    files = [{'path': p, 'size': s} for p, s in zip(c['paths'], sizes)]
    name = 'T'
    top = os.path.join(wd, name)
    has_path = any(st[k] == 'top' for k in ('cls', 'tpath', 'arg'))
    contents = None
    if has_path:
        contents = content.make_tree(wd, name, files, seed=c['cseed'], single=single)
    else:
        contents = [content.file_bytes(c['cseed'], i, s) for i, s in enumerate(sizes)]
    t = content.make_torrent(torf, wd, name, files, L, single=single, with_path=False)
    if st['tpath'] == 'top':
        t._path = pathlib.Path(top)
    elif st['tpath'] == 'other':
        t._path = pathlib.Path(os.path.join(wd, 'elsewhere'))
    stream = b''.join(contents)
    npc = _npieces(L, sizes)
    hashes = [common.sha1(stream[i * L:(i + 1) * L]) for i in range(npc)][:c['nstored']]
    if c.get('bad') is not None and c['bad'] < len(hashes):
        hashes[c['bad']] = common.sha1(b'wrong' + hashes[c['bad']])
    if hashes:
        t.metainfo['info']['pieces'] = b''.join(hashes)
    tfiles = list(t.files)
    foreign = [torf.File(os.path.join(name, 'no-such-file'), size=1),
               torf.File(str(tfiles[0]), size=tfiles[0].size + 1)]
    kw = {} if st['arg'] is None else {'content_path': top if st['arg'] == 'top' else ''}
    # what a returned object must look like for file j (kind decided by the Lean model)
    ret = c['returned']

    def ident(o):
        for j in range(n):
            r = ret[j]
            if r['kind'] == 'torrentFile':
                if isinstance(o, torf.File) and o == tfiles[j] and str(o) == str(tfiles[j]) and o.size == sizes[j]:
                    return j
            elif r['kind'] == 'joined':
                exp = os.path.join(top, *c['paths'][j])
                if isinstance(o, torf.File) and str(o) == exp and o.size == sizes[j]:
                    return j
            elif r['kind'] == 'contentPath':
                if not isinstance(o, torf.File) and str(o) == top:
                    return j
        return 'unrecognised:' + repr(o)

    def farg(j):
        return tfiles[j] if j < n else foreign[min(j - n, 1)]

    out = []
    with _stream.TorrentFileStream(t, content_path=(top if st['cls'] == 'top' else None)) as tfs:
        for q in c['queries']:
            m = q['m']
            try:
                if m == 'max_piece_index':
                    r = tfs.max_piece_index
                    r = int(r) if r == int(r) else repr(r)
                elif m == 'file_position':
                    r = {'ok': tfs.get_file_position(farg(q['j']))}
                elif m == 'file_at_position':
                    r = {'ok': ident(tfs.get_file_at_position(q['p'], **kw))}
                elif m == 'byte_range':
                    r = {'ok': [ident(o) for o in tfs.get_files_at_byte_range(q['a'], q['b'], **kw)]}
                elif m == 'byte_range_of_file':
                    r = {'ok': list(tfs.get_byte_range_of_file(farg(q['j'])))}
                elif m == 'files_at_piece':
                    r = {'ok': [ident(o) for o in tfs.get_files_at_piece_index(q['i'], **kw)]}
                elif m == 'piece_indexes':
                    r = {'ok': list(tfs.get_piece_indexes_of_file(farg(q['j']), exclusive=q['excl']))}
                elif m == 'abs':
                    r = {'ok': list(tfs.get_absolute_piece_indexes(farg(q['j']), q['rels']))}
                elif m == 'rel':
                    r = {'ok': list(tfs.get_relative_piece_indexes(farg(q['j']), q['rels']))}
                elif m == 'get_piece':
                    kw2 = {'content_path': top} if st['arg'] == 'top' else {}
                    r = {'ok': tfs.get_piece(q['i'], **kw2)}
                elif m == 'piece_hash':
                    kw2 = {'content_path': top} if st['arg'] == 'top' else {}
                    r = {'ok': tfs.get_piece_hash(q['i'], **kw2)}
                elif m == 'verify':
                    kw2 = {'content_path': top} if st['arg'] == 'top' else {}
                    r = {'ok': tfs.verify_piece(q['i'], **kw2)}
                else:
                    raise RuntimeError(m)
            except BaseException as e:  # noqa
                if isinstance(e, (KeyboardInterrupt, RuntimeError)):
                    raise
                r = _err(e, torf)
            out.append(r)
        seq = None
        if has_path and sum(sizes) > 0:
            try:
                kw2 = {'content_path': top} if st['arg'] == 'top' else {}
                seq = [p for (p, _fp, _ex) in tfs.iter_pieces(**kw2)]
            except BaseException as e:  # noqa
                seq = 'exc:' + type(e).__name__
    # the same random-access questions to stream objects with a past
    hist = []
    if has_path and sum(sizes) > 0:
        kw2 = {'content_path': top} if st['arg'] == 'top' else {}
        for h in c.get('hist', []):
            with _stream.TorrentFileStream(t, content_path=(top if st['cls'] == 'top' else None)) as tfs:
                keep = _apply_history(tfs, h, L, sizes, kw2)
                obs = [(k, _random_access(tfs, torf, q, kw2)) for k, q in enumerate(c['queries'])
                       if q['m'] in RANDOM_ACCESS]
                try:
                    seq2 = [p for (p, _fp, _ex) in tfs.iter_pieces(**kw2)]
                except BaseException as e:  # noqa
                    seq2 = 'exc:' + type(e).__name__
                del keep
            hist.append({'h': h, 'obs': obs, 'seq': seq2})
    return out, seq, contents, hist


def _run_chunk(cases):
    torf = common.import_torf()
    from torf import _stream
    wd = common.worker_dir()
    return [_run_layout(torf, _stream, wd, c) for c in cases]


# ----------------------------------------------------------------------------- known findings

def _has_empty(case):
    return any(s == 0 for s in case['sizes'])


def match_d11a(case, observed, finding):
    """zero-length entries: the layout has one, the method is one of those that look at file
    ends, and the implementation does exactly what the recorded defect does (the code-shaped
    model of the unrepaired code predicts the observed answer)."""
    q = case['query']
    if not _has_empty(case) or q['m'] not in AFFECTED_BY_EMPTY:
        return False
    if q['m'] in ('piece_indexes', 'abs', 'rel') and not q.get('excl'):
        # only the zero-length file itself is answered wrongly by these
        if not (q['j'] < len(case['sizes']) and case['sizes'][q['j']] == 0):
            return False
    if q['m'] in ('byte_range', 'files_at_piece') and 'ok' in observed and 'ok' in case['spec']:
        # surplus entries are zero-length files, nothing else differs
        obs = observed['ok']
        if not all(isinstance(j, int) for j in obs):
            return False
        if [j for j in obs if case['sizes'][j] != 0] != case['spec']['ok']:
            return False
    return observed == case['model_obs']


def match_d11c(case, observed, finding):
    """relative piece indexes of a non-empty file that does not start on a piece boundary and
    therefore spans one piece more than its size alone suggests"""
    q = case['query']
    if q['m'] != 'rel' or q['j'] >= len(case['sizes']):
        return False
    L, sizes = case['L'], case['sizes']
    p, s = _pos(sizes)[q['j']], sizes[q['j']]
    if s == 0 or p % L == 0 or (p % L + s - 1) // L == (s - 1) // L:
        return False
    return observed == case['model_obs']


MATCHERS = {'c11_zero_length_entry': match_d11a, 'c11_relative_unaligned': match_d11c}


# ----------------------------------------------------------------------------- evaluation

def _driver_requests(cases):
    reqs = []
    for c in cases:
        st = SETTING[c['setting']]
        n = len(c['sizes'])
        hp = any(st[k] == 'top' for k in ('cls', 'tpath', 'arg'))
        qs = []
        for q in c['queries']:
            q2 = dict(q)
            if q['m'] == 'piece_hash':
                q2['m'] = 'get_piece'
            if q2['m'] in ('get_piece', 'verify'):
                q2['hasPath'] = hp
            if q2['m'] in ('rel',) and q['j'] >= n:
                continue
            qs.append(q2)
        # which object is returned for file j under the setting of the file-returning methods
        for j in range(n):
            r = {'m': 'returned', 'j': j, 'single': bool(c.get('single'))}
            if st['arg'] is not None:
                r['arg'] = 'TOP' if st['arg'] == 'top' else ''
            if st['cls'] is not None:
                r['cls'] = 'TOP'
            if st['tpath'] is not None:
                r['tpath'] = 'TOP' if st['tpath'] == 'top' else 'OTHER'
            qs.append(r)
        req = {'op': 'c11.layout', 'L': c['L'], 'sizes': c['sizes'], 'queries': qs, 'nstored': c['nstored']}
        if c.get('bad') is not None:
            req['bad'] = c['bad']
        reqs.append(req)
    return reqs


def _conv_piece(v, contents, hashed=False):
    """driver reply for a piece (runs) → bytes (or its sha1); `None` (no such file) stays"""
    if 'ok' in v and v['ok'] is not None:
        b = content.pieces_from_runs([v['ok']], contents)[0]
        return {'ok': common.sha1(b) if hashed else b}
    return v


def _judge(ctx, base, q, o, d, contents, nt, extra=None):
    """one query: implementation `o` against the driver's {model, spec, hyp}.  `extra` = the further
    coordinates of the case (history of the stream object / world and spelling): {'key', 'kind', 'text', 'case'}"""
    L, sizes = base['L'], base['sizes']
    m = q['m']
    model, spec, hyp = d['model'], d['spec'], d['hyp']
    if m in ('get_piece', 'piece_hash'):
        model = _conv_piece(model, contents, hashed=(m == 'piece_hash'))
        spec = _conv_piece(spec, contents, hashed=(m == 'piece_hash'))
    ex = extra or {'key': (), 'kind': '', 'text': '', 'case': {}}
    ctx.case(key=(L, tuple(sizes), base['setting'], bool(base.get('single')), m,
                  tuple(sorted((k, str(v)) for k, v in q.items() if k != 'm'))) + tuple(ex['key']),
             nontrivial=nt, kind=m + ex['kind'] + ('' if hyp else '/outside-hyp'))
    case = dict(base, query=q, spec=spec, model_obs=model, hyp=hyp, **ex['case'])
    if hyp and model != spec:
        ctx.machinery_error(f'{m}: model != spec inside the hypothesis of a proved theorem', case)
        return
    if o != spec:
        ctx.violation(f'{m}{_fmt(q)} on L={L} sizes={sizes} ({base["setting"]}){ex["text"]} answers {_short(o)}, '
                      f'arithmetic definition: {_short(spec)}', case, spec, o, finding_matchers=MATCHERS)
        return
    if hyp and o != model:
        ctx.corr_break('c11.' + m, case, model, o)
    elif not hyp and o != model:
        ctx.dist['outside-hyp:impl-meets-spec-model-does-not'] += 1


def _judge_iter(ctx, base, seq, want, nt, extra=None):
    L, sizes = base['L'], base['sizes']
    ex = extra or {'key': (), 'kind': '', 'text': '', 'case': {}}
    ctx.case(key=(L, tuple(sizes), base['setting'], 'iter') + tuple(ex['key']), nontrivial=nt,
             kind='iter_pieces' + ex['kind'])
    if seq != want:
        ctx.violation(f'iter_pieces() on L={L} sizes={sizes} ({base["setting"]}){ex["text"]} differs from the '
                      f'consecutive slices of the stream',
                      dict(base, query={'m': 'iter'}, **ex['case']), [w.hex() for w in want[:6]],
                      seq if isinstance(seq, str) else [(x.hex() if x is not None else None) for x in seq[:6]],
                      finding_matchers=MATCHERS)


def evaluate(ctx, drv, cases):
    if not cases:
        return
    replies = drv.run(_driver_requests(cases))
    for c, r in zip(cases, replies):
        n = len(c['sizes'])
        c['returned'] = [x['model'] for x in r['res'][len(r['res']) - n:]]
    results = common.pmap(_run_chunk, common.split(cases, common.NPROC * 4))
    flat = [x for chunk in results for x in chunk]
    for c, r, (obs, seq, contents, hist) in zip(cases, replies, flat):
        L, sizes = c['L'], c['sizes']
        nt = layouts.nontrivial_key(L, sizes) is not None
        res = r['res']
        assert len(obs) == len(c['queries']) == len(res) - len(sizes), (len(obs), len(c['queries']), len(res))
        base = {'L': L, 'sizes': sizes, 'paths': c['paths'], 'setting': c['setting'], 'cseed': c['cseed'],
                'single': bool(c.get('single')), 'nstored': c['nstored'], 'bad': c.get('bad')}
        if len(ctx.samples) < 3:
            ctx.sample({'layout': base, 'queries': c['queries'][:4] + c['queries'][-3:], 'n_queries': len(c['queries'])})
        for q, o, d in zip(c['queries'], obs, res):
            _judge(ctx, base, q, o, d, contents, nt)
        # sequential iteration = indexed reading = chunks of the stream (model: C01's iterPieces)
        want = content.pieces_from_runs(r['iter'], contents)
        if seq is not None:
            _judge_iter(ctx, base, seq, want, nt)
        # stream objects with a past: the fresh-object answers again (C19_independent / C19_history)
        for hrec in hist:
            h = hrec['h']
            ex = {'key': ('after', h['h'], h['hseed']), 'kind': '/after:' + h['h'],
                  'text': f' on a stream object used before ({h["h"]})', 'case': {'history': h}}
            if _SAMPLED['history'] < 2:
                _SAMPLED['history'] += 1
                ctx.sample({'layout': base, 'history': h, 'n_queries': len(hrec['obs'])}, limit=12)
            for k, o in hrec['obs']:
                _judge(ctx, base, c['queries'][k], o, res[k], contents, nt, extra=ex)
            _judge_iter(ctx, base, hrec['seq'], want, nt, extra=ex)


def _fmt(q):
    return '(' + ', '.join(f'{k}={v}' for k, v in q.items() if k != 'm') + ')'


def _short(x):
    s = repr(common.jsonable(x))
    return s if len(s) < 160 else s[:157] + '...'


# ----------------------------------------------------------------------------- content-path spellings

FS_SETTINGS = ['arg', 'cls', 'tpath']


def _err_fs(e, torf):
    """error kinds of the file-system cases: ReadError carries its errno name"""
    import errno as _errno
    if isinstance(e, ValueError):
        return {'err': 'value'}
    if isinstance(e, torf.ReadError):
        return {'err': 'internal:ReadError:' + _errno.errorcode.get(e.errno, str(e.errno))}
    return {'err': 'internal:' + type(e).__name__}


def _show(torf, o):
    """a returned path object as data: kind, text, size"""
    return ['File' if isinstance(o, torf.File) else type(o).__name__, os.fspath(o) if hasattr(o, '__fspath__') else str(o),
            getattr(o, 'size', None)]


def fs_queries(L, sizes):
    T, npc, pos = sum(sizes), _npieces(L, sizes), _pos(sizes)
    qs = []
    for i in range(-1, npc + 1):
        qs += [{'m': 'get_piece', 'i': i}, {'m': 'piece_hash', 'i': i}, {'m': 'verify', 'i': i},
               {'m': 'files_at_piece', 'i': i}]
    for p in sorted({0, T - 1} | set(pos) | {x - 1 for x in pos if x > 0}):
        qs.append({'m': 'file_at_position', 'p': p})
    qs.append({'m': 'byte_range', 'a': 0, 'b': T - 1})
    return qs


def _run_world(torf, _stream, wd, c):
    """build the world of one case, read it off the disk, and ask every run's queries"""
    import shutil
    L, sizes, single = c['L'], c['sizes'], c['single']
    n = len(sizes)
    files = [{'path': p, 'size': s} for p, s in zip(c['paths'], sizes)]
    R = os.path.realpath(os.path.join(wd, 'fsworld'))
    shutil.rmtree(R, ignore_errors=True)
    os.makedirs(R)
    base_contents = [content.file_bytes(c['cseed'], i, s) for i, s in enumerate(sizes)]
    cid_of = c11fs.build(R, files, single, base_contents, c['places'])
    nodes = c11fs.scan(R, cid_of)
    t = content.make_torrent(torf, wd, 'T', files, L, single=single, with_path=False)
    stream = b''.join(base_contents)
    npc = _npieces(L, sizes)
    hashes = [common.sha1(stream[i * L:(i + 1) * L]) for i in range(npc)][:c['nstored']]
    if c.get('bad') is not None and c['bad'] < len(hashes):
        hashes[c['bad']] = common.sha1(b'wrong' + hashes[c['bad']])
    if hashes:
        t.metainfo['info']['pieces'] = b''.join(hashes)
    runs = []
    home = os.getcwd()
    for run in c['runs']:
        text = run['cp'].replace('{R}', R)
        cwd = run['cwd'].replace('{R}', R)
        obj = pathlib.Path(text) if (run['as_path'] or run['setting'] == 'tpath') else text
        eff = os.fspath(obj)                    # the content path the stream is given, as text
        t._path = obj if run['setting'] == 'tpath' else None
        kw = {'content_path': obj} if run['setting'] == 'arg' else {}
        obs, seq = [], None
        try:
            os.chdir(cwd)
            with _stream.TorrentFileStream(t, content_path=(obj if run['setting'] == 'cls' else None)) as tfs:
                for q in run['queries']:
                    m = q['m']
                    try:
                        if m == 'get_piece':
                            r = {'ok': tfs.get_piece(q['i'], **kw)}
                        elif m == 'piece_hash':
                            r = {'ok': tfs.get_piece_hash(q['i'], **kw)}
                        elif m == 'verify':
                            r = {'ok': tfs.verify_piece(q['i'], **kw)}
                        elif m == 'files_at_piece':
                            r = {'ok': [_show(torf, o) for o in tfs.get_files_at_piece_index(q['i'], **kw)]}
                        elif m == 'file_at_position':
                            r = {'ok': _show(torf, tfs.get_file_at_position(q['p'], **kw))}
                        elif m == 'byte_range':
                            r = {'ok': [_show(torf, o) for o in tfs.get_files_at_byte_range(q['a'], q['b'], **kw)]}
                        else:
                            raise RuntimeError(m)
                    except BaseException as e:  # noqa
                        if isinstance(e, (KeyboardInterrupt, RuntimeError)):
                            raise
                        r = _err_fs(e, torf)
                    obs.append(r)
            with _stream.TorrentFileStream(t, content_path=(obj if run['setting'] == 'cls' else None)) as tfs:
                try:
                    seq = [(p, _show(torf, fp)) for (p, fp, _ex) in tfs.iter_pieces(**kw)]
                except BaseException as e:  # noqa
                    seq = 'exc:' + type(e).__name__
        finally:
            os.chdir(home)
        runs.append({'eff': eff, 'cwd': cwd, 'obs': obs, 'seq': seq})
    contents = [c11fs.variant(base_contents[j], v) for v in range(3) for j in range(n)]
    shutil.rmtree(R, ignore_errors=True)
    return {'R': R, 'nodes': nodes, 'runs': runs, 'contents': contents}


def _run_fs_chunk(cases):
    torf = common.import_torf()
    from torf import _stream
    wd = common.worker_dir()
    return [_run_world(torf, _stream, wd, c) for c in cases]


def _ident_fs(o, paths, sizes, single, eff):
    """a returned path object → index of the file it must stand for (text compared character for character)"""
    kind, text, size = o
    if single:
        return 0 if (kind != 'File' and text == eff) else 'unrecognised:' + repr(o)
    for j, p in enumerate(paths):
        if kind == 'File' and text == p and size == sizes[j]:
            return j
    return 'unrecognised:' + repr(o)


def evaluate_fs(ctx, drv, cases):
    if not cases:
        return
    results = common.pmap(_run_fs_chunk, common.split(cases, common.NPROC * 4))
    flat = [x for chunk in results for x in chunk]
    reqs = []
    for c, w in zip(cases, flat):
        n = len(c['sizes'])
        names = [([] if c['single'] else list(p)) for p in c['paths']]
        req = {'op': 'c11.fs', 'L': c['L'], 'sizes': c['sizes'], 'names': names, 'single': c['single'],
               'fs': w['nodes'], 'cidSizes': c['sizes'] * 3, 'storedCids': list(range(n)), 'nstored': c['nstored'],
               'runs': [{'cwd': rw['cwd'], 'cp': rw['eff'],
                         'queries': [dict(q, hasPath=True) if q['m'] in RANDOM_ACCESS else q for q in run['queries']]}
                        for run, rw in zip(c['runs'], w['runs'])]}
        if c.get('bad') is not None:
            req['bad'] = c['bad']
        reqs.append(req)
    replies = drv.run(reqs)
    for c, w, rep in zip(cases, flat, replies):
        L, sizes, single = c['L'], c['sizes'], c['single']
        nt = layouts.nontrivial_key(L, sizes) is not None
        R = w['R']
        for run, rw, d in zip(c['runs'], w['runs'], rep['runs']):
            fsrec = {'places': c['places'], 'cwd': run['cwd'], 'cp': run['cp'], 'as_path': run['as_path'],
                     'setting': run['setting']}
            base = {'L': L, 'sizes': sizes, 'paths': c['paths'], 'setting': run['setting'], 'cseed': c['cseed'],
                    'single': single, 'nstored': c['nstored'], 'bad': c.get('bad')}
            where = ('every file found' if d['allSeen'] else 'no file found' if d['noneSeen'] else 'some files found')
            ex = {'key': ('fs', tuple(c['places']), run['cwd'], run['cp'], run['as_path']),
                  'kind': '/spelling:' + ('all' if d['allSeen'] else 'none' if d['noneSeen'] else 'some')
                          + ('' if d['lexSame'] else ',os!=text'),
                  'text': f' with content path {run["cp"]!r} (cwd {run["cwd"]}, copies at {c["places"]}; the OS: {where})',
                  'case': {'fs': fsrec}}
            if _SAMPLED['fs'] < 4 and not d['lexSame']:
                _SAMPLED['fs'] += 1
                ctx.sample({'layout': base, 'fs': fsrec, 'os': where, 'opened': [p.replace(R, '{R}') for p in d['paths']]},
                           limit=12)
            if d['hyp'] and not d['lookAgree']:
                ctx.machinery_error('the pathlib form of a spelling does not lead where the spelling leads '
                                    '(C11_pathlib_form_harmless)', dict(base, fs=fsrec))
                continue
            for q, o, a in zip(run['queries'], rw['obs'], d['res']):
                if q['m'] in ('files_at_piece', 'file_at_position', 'byte_range') and 'ok' in o:
                    v = o['ok']
                    if q['m'] == 'file_at_position':
                        o = {'ok': _ident_fs(v, d['paths'], sizes, single, rw['eff'])}
                    else:
                        o = {'ok': [_ident_fs(x, d['paths'], sizes, single, rw['eff']) for x in v]}
                _judge(ctx, base, q, o, a, w['contents'], nt, extra=ex)
            # sequential reading of what the OS finds there
            if d['allSeen'] and rw['seq'] is not None:
                want = content.pieces_from_runs(d['iter'], w['contents'])
                seq = rw['seq'] if isinstance(rw['seq'], str) else [p for p, _fp in rw['seq']]
                _judge_iter(ctx, base, seq, want, nt, extra=ex)
                if not isinstance(rw['seq'], str):
                    bad = [fp for _p, fp in rw['seq']
                           if isinstance(_ident_fs(fp, d['paths'], sizes, single, rw['eff']), str)]
                    if bad:
                        ctx.violation(f'iter_pieces() on L={L} sizes={sizes}{ex["text"]} reports a file path that is not '
                                      f'content path / listed name: {bad[0]}', dict(base, query={'m': 'iter'}, fs=fsrec),
                                      [p.replace(R, '{R}') for p in d['paths']], bad[0], finding_matchers=MATCHERS)


def _fs_layout(rng, ctx, single):
    if single:
        L = rng.choice([1, 2, 3, 8, 16])
        return L, [max(1, layouts.boundary_sizes(rng, L))]
    if rng.random() < 0.12:
        L = 16384
        sizes = [rng.choice([1, L - 1, L, L + 1, rng.randint(1, 2 * L)]) for _ in range(rng.randint(2, 4))]
        return L, sizes
    L = rng.choice([1, 2, 3, 4, 5, 8, 16])
    _shape, sizes = layouts.random_sizes(rng, L, nmax=14)
    sizes = [s for s in sizes if s > 0][:14] or [L + 1]
    return L, sizes


def _fs_paths(n, rng):
    out = []
    for i in range(n):
        depth = rng.choice([0, 0, 1, 2])
        out.append([f'd{rng.randint(0, 2)}' for _ in range(depth)] + [f'f{i:03d}'])
    return out


def gen_fs_cases(ctx, scale=1.0):
    rng = ctx.rng
    cases = []
    place_sets = [['store', 'work'], ['store', 'work', 'root'], ['store'], ['work'], ['store', 'root'], ['work', 'root']]
    for k in range(int(ctx.n(160, 2500) * scale)):
        single = rng.random() < 0.15
        L, sizes = _fs_layout(rng, ctx, single)
        npc = _npieces(L, sizes)
        places = place_sets[k % len(place_sets)] if k % 3 else ['store', 'work', 'root']
        bad = rng.randrange(npc + 2)
        c = {'L': L, 'sizes': sizes, 'paths': _fs_paths(len(sizes), rng), 'single': single,
             'cseed': rng.randrange(1 << 30), 'places': places, 'nstored': npc if rng.random() < 0.85 else max(0, npc - 1),
             'bad': bad if bad < npc else None, 'runs': []}
        # R is only known to the worker: spellings are made against a throw-away skeleton of the same shape
        c['runs'] = _fs_runs(rng, c, ctx.n(5, 8))
        cases.append(c)
    return cases


_SKELETON = {}


def _skeleton(places, single):
    """a world of the given shape (empty files) for the guided random walks of the spelling generator"""
    key = (tuple(places), single)
    if key not in _SKELETON:
        R = os.path.realpath(os.path.join(common.worker_dir(), 'skel-' + '-'.join(places) + ('-s' if single else '')))
        if not os.path.isdir(R):
            os.makedirs(R)
            c11fs.build(R, [{'path': ['f000'], 'size': 0}], single, [b''], places)
        _SKELETON[key] = R
    return _SKELETON[key]


def _fs_runs(rng, c, k):
    R = _skeleton(c['places'], c['single'])
    runs = []
    qs = fs_queries(c['L'], c['sizes'])
    for r in range(k):
        cwd, cp = c11fs.spelling(rng, R, plain=(r == 0))
        runs.append({'cwd': cwd, 'cp': cp, 'setting': rng.choice(FS_SETTINGS), 'as_path': rng.random() < 0.25,
                     'queries': qs})
    return runs


def _fs_witness_case(c0):
    f = c0['fs']
    c = {'L': c0['L'], 'sizes': c0['sizes'], 'paths': c0['paths'], 'single': c0.get('single', False),
         'cseed': c0['cseed'], 'places': f['places'], 'nstored': c0['nstored'], 'bad': c0.get('bad')}
    qs = fs_queries(c['L'], c['sizes']) if c0.get('query', {}).get('m') in (None, 'iter') else [c0['query']]
    c['runs'] = [{'cwd': f['cwd'], 'cp': f['cp'], 'setting': f['setting'], 'as_path': f['as_path'], 'queries': qs}]
    return c


def replay_fs(ctx, drv, c0):
    evaluate_fs(ctx, drv, [_fs_witness_case(c0)])
    return {'fails': bool(ctx.violations) or bool(ctx.known), 'violations': ctx.violations, 'known': list(ctx.known)}


# ----------------------------------------------------------------------------- generators

def _mk_case(L, sizes, setting, rng, single=False, full=True, nested=False, hashes='all', nhist=0):
    npc = _npieces(L, sizes)
    st = SETTING[setting]
    hist = []
    if nhist and sum(sizes) > 0 and any(st[k] == 'top' for k in ('cls', 'tpath', 'arg')):
        hist = [{'h': h, 'hseed': rng.randrange(1 << 30)} for h in rng.sample(HISTORIES, min(nhist, len(HISTORIES)))]
    qseed = rng.randrange(1 << 30)
    bad = rng.randrange(npc + 2) if npc else None
    if bad is not None and bad >= npc:
        bad = None
    nstored = npc if hashes == 'all' else rng.choice([0, max(0, npc - 1)])
    return {'L': L, 'sizes': list(sizes), 'paths': layouts.paths_for(len(sizes), rng, nested),
            'setting': setting, 'cseed': rng.randrange(1 << 30), 'single': single,
            'queries': build_queries(L, list(sizes), qseed, full=full), 'qseed': qseed,
            'nstored': nstored, 'bad': bad, 'hist': hist}


def gen_cases(ctx, scale=1.0):
    rng = ctx.rng
    cases = []
    with_path = ['cls', 'tpath', 'arg', 'arg-empty', 'cls-over-tpath']
    # 1. exhaustive small scopes, each layout without a content path and with one
    if ctx.thorough:
        ex = list(layouts.exhaustive([1, 2, 3, 4], 3))
        ex += list(layouts.exhaustive([1, 2], 4, min_files=4))
        scope = 'L<=4 with <=3 files, L<=2 with 4 files; sizes 0..2L+1'
    else:
        ex = list(layouts.exhaustive([1, 2, 3], 3)) + list(layouts.exhaustive([4], 2))
        l4 = list(layouts.exhaustive([4], 3, min_files=3))
        ex += rng.sample(l4, int(min(len(l4), 250 * scale)))
        scope = 'L<=3 with <=3 files, L=4 with <=2 files (all), L=4 with 3 files (sample of 250); sizes 0..2L+1'
    ctx.notes['exhaustive_scope'] = scope
    for k, (L, sizes) in enumerate(ex):
        cases.append(_mk_case(L, sizes, 'none', rng))
        cases.append(_mk_case(L, sizes, with_path[k % len(with_path)], rng, nhist=1))
    # 2. boundary-directed random larger layouts
    for _ in range(int(ctx.n(250, 6000) * scale)):
        L = rng.choice([1, 2, 3, 4, 5, 7, 8, 16, 31, 64])
        shape, sizes = layouts.random_sizes(rng, L, nmax=24)
        if rng.random() < 0.5:
            sizes = [s for s in sizes if s > 0] or [L + 1]
        cases.append(_mk_case(L, sizes, rng.choice(SETTINGS)['name'], rng, full=False, nested=True,
                              hashes=rng.choice(['all', 'all', 'all', 'some']), nhist=ctx.n(3, len(HISTORIES))))
    # 3. real piece lengths (16 KiB multiples)
    for _ in range(int(ctx.n(12, 300) * scale)):
        L = 16384 * rng.choice([1, 2, 4])
        sizes = [rng.choice([0, 1, L - 1, L, L + 1, 2 * L, rng.randint(0, 3 * L)]) for _ in range(rng.randint(1, 6))]
        if sum(sizes) == 0:
            sizes[0] = L + 1
        c = _mk_case(L, sizes, rng.choice(with_path), rng, full=False, nhist=2)
        # keep the argument space small: positions around boundaries only
        c['queries'] = [q for q in c['queries'] if q['m'] not in ('file_at_position', 'byte_range')]
        T = sum(sizes)
        for p in sorted({-1, 0, T - 1, T} | {x + d for x in _pos(sizes) for d in (-1, 0, 1)}
                        | {i * L + d for i in range(_npieces(L, sizes) + 1) for d in (-1, 0)}):
            c['queries'].append({'m': 'file_at_position', 'p': p})
            c['queries'].append({'m': 'byte_range', 'a': p, 'b': p + rng.choice([0, 1, L - 1, L, 2 * L])})
        cases.append(c)
    # 4. single-file torrents
    for _ in range(int(ctx.n(30, 400) * scale)):
        L = rng.choice([1, 2, 3, 8])
        sizes = [max(1, layouts.boundary_sizes(rng, L))]
        cases.append(_mk_case(L, sizes, rng.choice(SETTINGS)['name'], rng, single=True, nhist=2))
    return cases


def _witness_case(w):
    import random
    rng = random.Random(0)
    c = _mk_case(w['L'], w['sizes'], w.get('setting', 'cls'), rng)
    # sequential iteration is observed for every case anyway
    c['queries'] = [w['query']] if w['query']['m'] != 'iter' else [{'m': 'get_piece', 'i': 0}]
    c['bad'] = None
    if w.get('history'):
        c['hist'] = [w['history']]
    return c


def replay_findings(ctx, drv):
    """each open finding's witness is replayed first; a witness that no longer fails is reported
    as not reproduced (and no KNOWN-FINDING line is printed for it)"""
    for f in ctx.open_findings():
        before = dict(ctx.known)
        evaluate(ctx, drv, [_witness_case(f['witness'])])
        if f['id'] not in ctx.known and f['id'] not in before:
            ctx.not_reproduced.append(f['id'])


def run_corpus(ctx, drv):
    import glob
    import json
    cs, fcs = [], []
    for p in sorted(glob.glob(os.path.join(common.CORPUS_DIR, 'C11', '*.json'))):
        w = json.load(open(p))
        if w.get('fs'):
            fcs.append(_fs_witness_case(w))
        else:
            cs.append(_witness_case(w))
    evaluate(ctx, drv, cs)
    evaluate_fs(ctx, drv, fcs)


def run(ctx, drv):
    ctx.notes['rule'] = RULE
    ctx.notes['assumptions'] = [
        'math.floor(a / b) (float division) is modelled by integer floor division: exact for operands < 2^53',
        'files of a layout have pairwise distinct paths (Torrent.files de-duplicates), so a File is its index',
        'SHA-1 is a parameter H of the model (injective stand-in in the driver); the harness applies real hashlib.sha1',
        'content is intact (every file present with the recorded size); missing / mis-sized files are C02/C10',
        'get_files_at_byte_range is only called with first <= last (its assert is a precondition)',
        'get_relative_piece_indexes is only called with files of the torrent (it never checks membership)',
        'path resolution of the operating system = Torf.Reuse.resolve over the inode table read off the disk with '
        'lstat/readlink/listdir (path_resolution(7): links followed when met, physical `..`, at most 40 links); '
        'pathlib drops empty and `.` components and keeps `..`; everything in the worlds is readable and searchable',
        'history of a stream object: the model side is C19 (C19_independent, C19_history); C11 only re-asks',
    ]
    replay_findings(ctx, drv)
    run_corpus(ctx, drv)
    cases = gen_cases(ctx)
    B = 600
    for k in range(0, len(cases), B):
        evaluate(ctx, drv, cases[k:k + B])
    fcs = gen_fs_cases(ctx)
    for k in range(0, len(fcs), B):
        evaluate_fs(ctx, drv, fcs[k:k + B])
    ctx.exhaustive = False


def search(ctx, drv):
    cases = gen_cases(ctx, scale=3.0)
    for k in range(0, len(cases), 600):
        evaluate(ctx, drv, cases[k:k + 600])
    fcs = gen_fs_cases(ctx, scale=3.0)
    for k in range(0, len(fcs), 600):
        evaluate_fs(ctx, drv, fcs[k:k + 600])


def replay(ctx, drv, rp):
    c0 = rp['case']
    import random
    c = _mk_case(c0['L'], c0['sizes'], c0.get('setting', 'cls'), random.Random(0), single=c0.get('single', False))
    c.update({k: c0[k] for k in ('paths', 'cseed', 'nstored', 'bad') if k in c0})
    if c0.get('fs'):
        return replay_fs(ctx, drv, c0)
    if c0.get('query', {}).get('m') not in (None, 'iter'):
        c['queries'] = [c0['query']]
    c['hist'] = [c0['history']] if c0.get('history') else []
    evaluate(ctx, drv, [c])
    return {'fails': bool(ctx.violations) or bool(ctx.known), 'violations': ctx.violations,
            'known': list(ctx.known)}
