"""
C09 — piece hashes never outlive the content layout they were computed for; derived attributes
stay coherent under any history of attribute operations.

Three-way comparison per step of a history of attribute operations on a fresh `Torrent`:
  I  the real object (projection of metainfo/attributes + outcome kind), with property C09
     evaluated on it directly (`attrs_world.spec_check`: bounds, 16 KiB rule, size/mode, piece
     count, stored hashes == fresh SHA-1 of the current layout at the current piece length,
     `is_ready` ⇒ real `verify(path)` is True),
  M  the Lean model `Attrs.apply` (state left behind by raising setters included; the four filter
     lists with slice / index assignment, append, extend, +=, del, clear as `MonitoredList` does
     them, regular expressions as the shapes of `Attrs.Rx`),
  S  the decidable invariant `Attrs.Inv` evaluated by the driver on the model state,
under the hypothesis `AllOkC` of the theorem `C09_inv_history_corrected` (`hypC`: every operation
satisfies `OpOk`, or is a bound assignment directly followed by a corrective assignment of the same
bound), plus a direct comparison of
`Torrent.calculate_piece_size` with the integer model.
"""
import json
import os

from harness import common
from harness.impl import attrs_world as W

K = W.K
R = W.ROOT

RULE = ('histories of attribute operations (path/files/filepaths setters and list mutations, '
        'edits of the four filter lists: assignment (also of the value the list already has, of values with duplicates, x = x, x += [...]), slice and index assignment, append, insert, extend, del (item and slice), pop, remove, clear, reverse, batch updates with an invalid regular expression, through the attribute or a held list object; name, piece_size, piece_size_min/max, generate, comment) on a fresh '
        'Torrent over five content trees with the real default bounds: corpus + enumerated '
        '(hash-then-every-pair-of-operations, also from a piece length of 32 MiB under an explicit '
        'maximum followed by a bound reset, and bound-assignment-across-the-other-bound followed by '
        'a re-assignment of that bound; a filter list assigned, hashed, then assigned / edited again in every way) + random (length <= 8 quick, <= 14 thorough; filter-heavy histories concentrate on one or two lists so that the same list is assigned repeatedly); '
        'round 6: histories in which an operation FAILS HALF-WAY and the object is used again - the class of the objects is part of the case (rules of an overriding calculate_piece_size: raises / returns a rejected value for a range of sizes; the stock class with File sizes beyond the range of a float): 8 classes x hashed prefixes x 34 operations that recalculate the piece length (content assignments, in-place edits of the file, filepath and filter lists, piece_size = None) x follow-ups, the region of D09b continued after the bounds crossed, random classes; '
        'non-trivial = piece hashes were present before at least one operation other than '
        'generate/comment; distinct = distinct operation sequence.  calculate_piece_size: '
        'boundary sizes of every power of two and threshold, distinct = (size, min, max)')

COMPARE = ['name', 'mode', 'length', 'files', 'path', 'pl', 'pieces', 'pmin', 'pmax', 'exGlobs',
           'inGlobs', 'exRegexs', 'inRegexs', 'size', 'numPieces', 'listed', 'filepaths', 'ready', 'comment']

# ---------------------------------------------------------------------------------------------
# known findings: matchers as narrow as the defects


def _eff(v, default):
    return default if v is None else v


def _crossing(op, pre):
    """the bound assignment `op` puts the bound across the other bound of the pre-state"""
    if pre is None:
        return False
    if op['k'] == 'setMin':
        v = _eff(op['v'], W.DEFAULT_MIN)
        return W.mult16(v) and v > pre['pmax']
    if op['k'] == 'setMax':
        v = _eff(op['v'], W.DEFAULT_MAX)
        return W.mult16(v) and v < pre['pmin']
    return False


def match_bound_across(case, observed, finding):
    """D09b: the first deviation of the history is min > max (possibly with the piece length now
    outside the crossed bounds) directly after a bound assignment whose new value lies across
    the other bound of the state before it."""
    codes = set(observed.get('codes', []))
    return ('min>max' in codes and codes <= {'min>max', 'pl<min', 'pl>max'}
            and _crossing(observed['op'], observed.get('pre'))
            and observed['pre']['pmin'] <= observed['pre']['pmax'])


def match_copy_outside_default_bounds(case, observed, finding):
    """(was listed as D09f, now a region outside the property - see evaluate2) the first deviation is directly after `other = this.copy()`, it is the copied piece
    length lying outside the class-default bounds the copy starts with, and the original's piece
    length was within the original's own bounds"""
    codes = set(observed.get('codes', []))
    pre = observed.get('pre') or {}
    pl = pre.get('pl')
    return (observed['op']['k'] == 'copy' and bool(codes) and codes <= {'pl>max', 'pl<min'} and pl is not None
            and pre['pmin'] <= pl <= pre['pmax'] and not (W.DEFAULT_MIN <= pl <= W.DEFAULT_MAX))


DOTDOT_SPELLINGS = ('rel', 'reldot', 'dotdot')


def dotdot_spelled(op):
    sp = op.get('sp')
    return any(x in DOTDOT_SPELLINGS for x in (sp if isinstance(sp, list) else [sp]))


def mixed_spelling(op, before=False):
    """region of D09g: a `filepaths` operation that combines paths in DIFFERENT spellings of which
    one contains '..'.  `filepaths.append` always combines (the list holds the paths as the getter
    spells them, i.e. as an earlier operation left `path`): it is in the region if its own
    spelling contains '..' or (`before`) an earlier `path`/`filepaths` operation of the history on
    that object did.  An assignment of several paths is outside the region only if every path is
    absolute without '..' or all are relative to the cwd in the same way."""
    if op['k'] == 'fpAppend':
        return before or dotdot_spelled(op)
    if op['k'] == 'setFilepaths' and len(op['ps']) > 1:
        sps = [x or 'abs' for x in (op.get('sp') or [])]
        return dotdot_spelled(op) and not (len(set(sps)) == 1 and sps[0] in ('rel', 'reldot'))
    return False


def match_mixed_spelling(case, observed, finding):
    """D09g: the first deviation is directly after such an operation and it is the same file being
    listed twice (size != sum of the listed files) - nothing else"""
    return mixed_spelling(observed['op'], observed.get('dotdot_before', False)) and set(observed.get('codes', [])) == {'size!=sum'}


MATCHERS = {
    'bound_assigned_across_other_bound': match_bound_across,
    'filepaths_in_mixed_spellings': match_mixed_spelling,
}
# in the continued region of D09b (the bounds crossed earlier in the history) that finding cannot excuse anything
# further; the other open findings are what they are there too
WEAK_MATCHERS = {k: v for k, v in MATCHERS.items() if k != 'bound_assigned_across_other_bound'}

# ---------------------------------------------------------------------------------------------
# generators

GLOBS = [['suffix', '.tmp'], ['infix', '/sub/'], ['suffix', 'a'], ['suffix', 'x'],
         ['suffix', '.TMP'], ['infix', 'B']]
PATHS = [R + ['A'], R + ['A'], R + ['B'], R + ['F5'], R + ['F5'], R + ['S'], R + ['E'],
         R + ['A', 'sub'], R + ['A', 'a'], R + ['A', '.hid'], R + ['Z'], None]
FAKE_SIZES = [0, 0, 1, K, 3 * K, 5 * K + 1, 2 ** 23 + 1, 2 ** 30, 2 ** 30 + 1, 8 * 2 ** 30 + 1,
              16 * 2 ** 30 + 1, 2 ** 36 + 5]


RX_VALID = [r'\.tmp$', r'/sub/', r'a$', r'(?i)\.TMP$', r'[bd]$', r'x$', r'^A/sub', r'f$', r'e\.']
RX_INVALID = ['(', '[a', '*x', 'a{2,1}']

# ---------------------------------------------------------------------------------------------
# operations on the four filter lists.  The generator keeps a copy `cur[(kind, inc)]` of each list
# (attrs_world.ref_list: Python's list semantics, every item once) ONLY to choose interesting
# arguments: the value the list already has, items that are present, indexes at and beyond the
# ends.  It is not an oracle.


def new_cur():
    return {(kind, inc): [] for kind in ('glob', 'rx') for inc in (False, True)}


def _fl(kind, suffix, inc=False, held=False, vs=None, v=None, **kw):
    op = dict(k=kind + suffix, inc=inc, held=held, **kw)
    if vs is not None:
        op['gs' if kind == 'glob' else 'ps'] = [x for x in vs]
    if v is not None:
        op['g' if kind == 'glob' else 'p'] = v
    return op


FL_KINDS = ['Append'] * 3 + ['Extend'] * 2 + ['Iadd'] * 2 + ['Set'] * 4 + ['SetSelf', 'SliceSelf'] + ['IaddAttr'] * 2 + \
           ['SetSlice'] * 3 + ['SetIndex'] * 3 + ['Del', 'Clear'] + \
           ['Reverse'] * 3 + ['Insert'] * 2 + ['Pop'] * 2 + ['Remove'] * 2 + ['DelSlice'] * 2


def g_flist_op(rng, cur, kind, inc, held):
    pool = GLOBS if kind == 'glob' else RX_VALID
    l = cur[(kind, inc)]

    def val(p_present=0.45):
        return rng.choice(l) if l and rng.random() < p_present else rng.choice(pool)

    def batch(lo, hi, p_bad):
        vs = [val() for _ in range(rng.randint(lo, hi))]
        if vs and rng.random() < 0.25:
            vs.insert(rng.randint(0, len(vs)), rng.choice(vs))          # a duplicate inside the new value
        if kind == 'rx' and rng.random() < p_bad:
            vs.insert(rng.randint(0, len(vs)), rng.choice(RX_INVALID))
        return vs

    suffix = rng.choice(FL_KINDS)
    if suffix == 'Append':
        v = rng.choice(RX_INVALID) if kind == 'rx' and rng.random() < 0.2 else val()
        op = _fl(kind, suffix, inc, held, v=v)
    elif suffix in ('Extend', 'Iadd'):
        op = _fl(kind, suffix, inc, held, vs=batch(0, 3, 0.4))
    elif suffix == 'Set':
        r = rng.random()
        if r < 0.3:
            vs = list(l)                                               # the value the list already has
        elif r < 0.4:
            vs = list(reversed(l))                                     # the same items in another order
        elif r < 0.55:
            vs = list(l) + [val(0.2)]                                  # the old value and one more
        elif r < 0.65:
            vs = [v for v in l if rng.random() < 0.6] + batch(0, 1, 0.0)
        else:
            vs = batch(0, 3, 0.3)
        op = _fl(kind, suffix, inc, False, vs=vs)
    elif suffix in ('SetSelf', 'SliceSelf'):
        op = _fl(kind, suffix, inc, held)
    elif suffix == 'IaddAttr':
        op = _fl(kind, suffix, inc, False, vs=batch(0, 2, 0.25))
    elif suffix == 'SetSlice':
        n = len(l)
        a = rng.randint(0, n + 1)
        b = rng.choice([None, a, a, a + 1, n, rng.randint(0, n + 1)])
        op = _fl(kind, suffix, inc, held, vs=batch(0, 3, 0.3), a=a, b=b)
    elif suffix == 'SetIndex':
        n = len(l)
        v = rng.choice(RX_INVALID) if kind == 'rx' and rng.random() < 0.15 else val(0.6)
        op = _fl(kind, suffix, inc, held, v=v, i=rng.randint(-n - 1, n))
    elif suffix == 'Del':
        op = _fl(kind, suffix, inc, held, i=rng.randrange(4))
    elif suffix == 'Insert':
        n = len(l)
        v = rng.choice(RX_INVALID) if kind == 'rx' and rng.random() < 0.15 else val(0.3)
        op = _fl(kind, suffix, inc, held, v=v, i=rng.randint(-n - 2, n + 2))
    elif suffix == 'Pop':
        n = len(l)
        op = _fl(kind, suffix, inc, held, i=None if rng.random() < 0.4 else rng.randint(-n - 1, n))
    elif suffix == 'Remove':
        v = rng.choice(RX_INVALID) if kind == 'rx' and rng.random() < 0.1 else val(0.75)
        op = _fl(kind, suffix, inc, held, v=v)
    elif suffix == 'DelSlice':
        n = len(l)
        a = rng.randint(0, n + 1)
        op = _fl(kind, suffix, inc, held, a=a, b=rng.choice([None, a, a + 1, a + 1, n, rng.randint(0, n + 1)]))
    else:                                                              # Clear, Reverse
        op = _fl(kind, suffix, inc, held)
    valid = W.rx_valid if kind == 'rx' else (lambda v: True)
    cur[(kind, inc)] = W.ref_list(l, W.flist(op), valid)[0]
    return op


def g_filter_history(rng, maxlen):
    """content, (hashing), then mostly edits of one or two of the four filter lists (so that the
    same list is assigned again and again), hashing in between"""
    cur = new_cur()
    ops = [{'k': 'setPath', 'p': rng.choice([R + ['A'], R + ['A'], R + ['A'], R + ['B'], R + ['S'], R + ['F5']])}]
    if rng.random() < 0.5:
        ops.append({'k': 'generate'})
    focus = [(rng.choice(['glob', 'rx', 'rx']), rng.random() < 0.3) for _ in range(rng.choice([1, 1, 2]))]
    n = rng.randint(3, maxlen)
    while len(ops) < n:
        r = rng.random()
        if r < 0.62:
            kind, inc = rng.choice(focus) if rng.random() < 0.9 else (rng.choice(['glob', 'rx']), rng.random() < 0.5)
            ops.append(g_flist_op(rng, cur, kind, inc, rng.random() < 0.5))
        elif r < 0.82:
            ops.append({'k': 'generate'})
        elif r < 0.88:
            ops.append({'k': 'setPath', 'p': rng.choice([R + ['A'], R + ['A'], R + ['S'], R + ['B'], None])})
        elif r < 0.93:
            ops.append({'k': 'setPieceSize', 'v': K * rng.choice([1, 2, 3, 4])})
        elif r < 0.97:
            ops.append({'k': 'setFiles', 'fs': [[['N', 'a'], K], [['N', 'b.tmp'], 5], [['N', 'sub', 'c'], K]]})
        else:
            ops.append({'k': 'setComment', 'c': 'x'})
    return ops


def _spelled(rng, op, p=0.4):
    """with probability p the path(s) of a `path` / `filepaths` operation are handed to torf in
    another SPELLING (relative to the worker's cwd - which starts with '..' -, './rel', an 'x/..'
    detour, a '.' segment, a doubled or trailing separator); the model gets the same abstract path:
    the spelling must not matter"""
    if rng.random() >= p:
        return op
    if op['k'] == 'setFilepaths':
        op['sp'] = [rng.choice(W.SPELLINGS) for _ in op['ps']]
    elif op.get('p') is not None:
        op['sp'] = rng.choice(W.SPELLINGS)
    return op


def enumerated_spelling(ctx):
    """every spelling of: one file (the single-file case of `_set_files`: `files[0] == basepath`), one
    file inside a directory, two files, a directory - through `filepaths = [...]`, `filepaths.append`
    on an empty and on a filled list, and `path = ...`; then hashing, so that a wrong mode shows"""
    out = []
    gen = {'k': 'generate'}
    for sp in W.SPELLINGS:
        for ps in ([R + ['S']], [R + ['F5', 'f']], [R + ['A', 'a'], R + ['A', 'b']], [R + ['B']], [R + ['A', 'sub', 'c']],
                   [R + ['S'], R + ['B', 'x']]):
            out.append([{'k': 'setFilepaths', 'ps': ps, 'sp': [sp] * len(ps)}, gen])
            out.append([{'k': 'setFilepaths', 'ps': ps, 'sp': [sp] + ['abs'] * (len(ps) - 1)}, gen, {'k': 'setName', 'n': 'Foo'}])
        for p1 in (R + ['S'], R + ['F5', 'f'], R + ['B'], R + ['A', 'sub']):
            out.append([{'k': 'fpAppend', 'p': p1, 'sp': sp}, gen])
            out.append([{'k': 'setPath', 'p': R + ['F5']}, {'k': 'fpAppend', 'p': p1, 'sp': sp}, gen])
            out.append([{'k': 'setPath', 'p': p1, 'sp': sp}, gen, {'k': 'fpDel', 'i': 0}])
            out.append([{'k': 'setFilepaths', 'ps': [p1], 'sp': [sp]}, {'k': 'globAppend', 'inc': False, 'g': ['suffix', 'x']}, gen])
    return out


# ---------------------------------------------------------------------------------------------
# two objects: `cp = t.copy()`, then work on BOTH objects


def _on(i, op):
    return dict(op, on=i)


COPY_FOLLOW = None


def copy_follow():
    """operations tried on either object after a copy (the whole alphabet + edits of each filter list)"""
    fl = []
    for kind, v, w in (('glob', ['suffix', '.tmp'], ['suffix', 'a']), ('rx', r'a$', r'\.tmp$')):
        for inc in (False, True):
            fl += [_fl(kind, 'Append', inc, v=v), _fl(kind, 'Set', inc, vs=[v, w]), _fl(kind, 'Extend', inc, True, vs=[v]),
                   _fl(kind, 'IaddAttr', inc, vs=[w])]
        fl += [_fl(kind, 'Remove', False, True, v=v), _fl(kind, 'Clear', False), _fl(kind, 'Reverse', False, True),
               _fl(kind, 'SetIndex', False, True, v=w, i=0), _fl(kind, 'Pop', False, i=None)]
    return ALPHABET + fl


def enumerated_copy(ctx):
    out = []
    cp = {'k': 'copy', 'on': 0}
    pres = [
        [{'k': 'setPath', 'p': R + ['A']}, {'k': 'generate'}],
        [{'k': 'setPath', 'p': R + ['A']}, {'k': 'globSet', 'inc': False, 'gs': [['suffix', '.tmp']]}, {'k': 'generate'}],
        [{'k': 'setPath', 'p': R + ['S']}, {'k': 'setPieceSize', 'v': 2 * K}, {'k': 'generate'}],
        [{'k': 'setPath', 'p': R + ['F5']}],
        [],
    ]
    follow = copy_follow()
    for pre in (pres if ctx.thorough else pres[:3]):
        out.append(pre + [cp])
        for a in follow:
            for i in (0, 1):
                out.append(pre + [cp, _on(i, a)])
            # the copy gets content of its own, is hashed, then the ORIGINAL is edited (and vice versa)
            out.append(pre + [cp, _on(1, {'k': 'setPath', 'p': R + ['A']}), _on(1, {'k': 'generate'}), _on(0, a)])
            out.append(pre + [cp, _on(1, {'k': 'setPath', 'p': R + ['A']}), _on(1, {'k': 'generate'}), _on(1, a)])
    for pre in pres[3:]:
        for a in follow[:12]:
            out.append(pre + [cp, _on(1, a), _on(0, a)])
    # region of D09f: the copied piece length lies outside the class-default bounds
    out.append(BIG_PREFIX + [cp])
    out.append(BIG_PREFIX[:3] + [cp])
    # copy of a copy, copy back
    out.append(pres[0] + [cp, {'k': 'copy', 'on': 1}, _on(0, _fl('glob', 'Append', False, v=['suffix', 'a'])), _on(1, {'k': 'setPath', 'p': R + ['A']})])
    return out


def g_copy_history(rng, maxlen):
    """content (hashed in most cases), `cp = t.copy()`, then random operations on both objects -
    mostly filter edits (also through held list objects of either object), content, piece size and
    bounds, hashing -, sometimes a second copy in either direction"""
    cur = [new_cur(), new_cur()]
    ops = [{'k': 'setPath', 'p': rng.choice([R + ['A'], R + ['A'], R + ['B'], R + ['S'], R + ['F5']])}]
    if rng.random() < 0.4:
        ops.append(g_flist_op(rng, cur[0], rng.choice(['glob', 'rx']), rng.random() < 0.3, False))
    if rng.random() < 0.4:
        ops.append({'k': 'setPieceSize', 'v': K * rng.choice([1, 2, 3, 4])})
    if rng.random() < 0.75:
        ops.append({'k': 'generate'})
    ops.append({'k': 'copy', 'on': 0})
    cur[1] = new_cur()
    n = len(ops) + rng.randint(1, maxlen)
    while len(ops) < n:
        i = 1 if rng.random() < 0.6 else 0
        r = rng.random()
        if r < 0.45:
            op = g_flist_op(rng, cur[i], rng.choice(['glob', 'rx']), rng.random() < 0.3, rng.random() < 0.5)
        elif r < 0.6:
            op = {'k': 'generate'}
        elif r < 0.7:
            op = _spelled(rng, {'k': 'setPath', 'p': rng.choice([R + ['A'], R + ['A'], R + ['S'], R + ['B'], None])}, 0.2)
        elif r < 0.96:
            op = g_op(rng, cur[i], False)
        else:
            ops.append({'k': 'copy', 'on': i})
            cur[1 - i] = new_cur()
            continue
        ops.append(_on(i, op))
    return ops


def gen_cases2(ctx, scale=1.0):
    cases = []
    d = os.path.join(common.CORPUS_DIR, 'C09')
    for fn in sorted(os.listdir(d)) if os.path.isdir(d) else []:
        if fn.endswith('.json'):
            j = json.load(open(os.path.join(d, fn)))
            if _is2(j['ops']):
                cases.append({'ops': j['ops'], 'src': 'corpus:' + fn})
    for f in ctx.open_findings():
        w = f.get('witness', {})
        if 'ops' in w and _is2(w['ops']):
            cases.append({'ops': w['ops'], 'src': 'witness:' + f['id'], 'witness': f['id']})
    for ops in enumerated_copy(ctx):
        cases.append({'ops': ops, 'src': 'enumerated-copy'})
    for _ in range(int(ctx.n(900, 30000) * scale)):
        cases.append({'ops': g_copy_history(ctx.rng, 10 if ctx.thorough else 6), 'src': 'random-copy'})
    return cases


def _is2(ops):
    return any(o['k'] == 'copy' or o.get('on') for o in ops)


def g_files(rng):
    c = rng.random()
    s = lambda: W.HUGE if rng.random() < 0.04 else rng.choice(FAKE_SIZES)   # noqa  (HUGE: the stock calculate_piece_size() raises)
    if c < 0.08:
        return []
    if c < 0.45:
        return [[['N', 'a'], s()], [['N', 'b'], s()]]
    if c < 0.6:
        return [[['N', 'a'], s()]]
    if c < 0.75:
        return [[['N', 'x', 'a'], s()], [['N', 'x', 'b'], s()], [['N', 'y'], s()]]
    if c < 0.85:
        return [[['N', 'x', 'a'], s()], [['N', 'x', 'b'], s()]]
    if c < 0.9:
        return [[['N', '.h'], s()], [['N', 'b.tmp'], s()], [['N', 'c'], s()]]
    if c < 0.95:
        return [[['N', 'a'], s()], [['M', 'b'], s()]]        # CommonPathError
    return [[['/', 'abs', 'a'], s()], [['N', 'b'], s()]]     # PathError


def g_op(rng, cur, wide=True):
    """one random operation; `cur` = generator-side copy of the four filter lists"""
    c = rng.choice(['setPath', 'setPath', 'setPath', 'setFiles', 'filesDel', 'filesAppend',
                    'filesClear', 'setFilepaths', 'fpDel', 'fpAppend', 'fpClear',
                    'flist', 'flist', 'flist', 'setName', 'setPieceSize', 'setPieceSize', 'setPieceSize',
                    'setMin', 'setMax', 'generate', 'generate', 'generate', 'setComment'])
    if c == 'setPath':
        p = rng.choice(PATHS if rng.random() < 0.97 else [R + ['big']])
        return _spelled(rng, {'k': 'setPath', 'p': p})
    if c == 'setFiles':
        return {'k': 'setFiles', 'fs': g_files(rng)}
    if c == 'filesDel':
        return {'k': 'filesDel', 'i': rng.randrange(6)}
    if c == 'filesAppend':
        return {'k': 'filesAppend', 'f': [rng.choice([['N', 'c'], ['A', 'zz'], ['Foo', 'q'], ['N', 'a'], ['F5', 'g']]),
                                          rng.choice([0, 5, K, K] if rng.random() < 0.93 else [W.HUGE, W.FLOAT_LIMIT])]}
    if c == 'filesClear':
        return {'k': 'filesClear'}
    if c == 'setFilepaths':
        return _spelled(rng, {'k': 'setFilepaths', 'ps': rng.choice([
            [R + ['A', 'a'], R + ['A', 'b']], [R + ['A']], [R + ['B', 'x'], R + ['A', 'a']],
            [R + ['A', 'sub']], [R + ['S']], [R + ['S']], [R + ['Z']], [], [R + ['A', 'sub', 'c']], [R + ['F5', 'f']],
            [R + ['A', 'a'], R + ['A', 'a']], [R + ['E']], [R + ['F5'], R + ['B']]])})
    if c == 'fpDel':
        return {'k': 'fpDel', 'i': rng.randrange(6)}
    if c == 'fpAppend':
        return _spelled(rng, {'k': 'fpAppend', 'p': rng.choice([R + ['B', 'x'], R + ['B'], R + ['A', 'sub', 'c'], R + ['S'],
                                                                 R + ['Z'], R + ['A', 'a'], R + ['A', '.hid']])})
    if c == 'fpClear':
        return {'k': 'fpClear'}
    if c == 'flist':
        return g_flist_op(rng, cur, 'glob' if rng.random() < 0.6 else 'rx', rng.random() < 0.35, rng.random() < 0.3)
    if c == 'setName':
        return {'k': 'setName', 'n': rng.choice([None, 'Foo', 'N', 'A'])}
    if c == 'setPieceSize':
        r = rng.random()
        if r < 0.2:
            v = None
        elif r < 0.88:
            v = K * rng.choice([1, 2, 3, 4, 5, 8, 8, 1024])
        elif r < 0.93:
            v = K * 2048
        else:
            v = rng.choice([0, -K, 1000, K + 1, K // 2, 3 * K // 2])
        return {'k': 'setPieceSize', 'v': v}
    if c == 'setMin':
        r = rng.random()
        if r < 0.2:
            v = None
        elif r < 0.85:
            v = K * rng.choice([1, 2, 3, 4])
        elif r < 0.93:
            v = K * rng.choice([8, 2048]) if wide else K * 4
        else:
            v = rng.choice([0, -K, 1000, K // 2, 3 * K // 2])
        return {'k': 'setMin', 'v': v}
    if c == 'setMax':
        r = rng.random()
        if r < 0.2:
            v = None
        elif r < 0.85:
            v = K * rng.choice([4, 8, 1024, 2048, 2048])
        elif r < 0.93:
            v = K * rng.choice([1, 2]) if wide else K * 8
        else:
            v = rng.choice([0, -K, 1000, K // 2, 5 * K // 2])
        return {'k': 'setMax', 'v': v}
    if c == 'generate':
        return {'k': 'generate'}
    return {'k': 'setComment', 'c': rng.choice([None, 'x'])}


def g_history(rng, maxlen):
    n = rng.randint(1, maxlen)
    cur = new_cur()
    wide = rng.random() < 0.5
    ops = []
    # most histories start by pointing at content so that hashing happens early
    if rng.random() < 0.6:
        ops.append({'k': 'setPath', 'p': rng.choice([R + ['A'], R + ['B'], R + ['F5'], R + ['F5'], R + ['S']])})
        if rng.random() < 0.5:
            ops.append({'k': 'setPieceSize', 'v': K * rng.choice([1, 2, 3, 4])})
        if rng.random() < 0.7:
            ops.append({'k': 'generate'})
    while len(ops) < n:
        ops.append(g_op(rng, cur, wide))
    return ops[:max(n, 1)]


# alphabet of the enumerated part: every operation kind, values chosen to change / keep the piece count
ALPHABET = [
    {'k': 'setPath', 'p': None}, {'k': 'setPath', 'p': R + ['F5']}, {'k': 'setPath', 'p': R + ['B']},
    {'k': 'setPath', 'p': R + ['Z']},
    {'k': 'setFiles', 'fs': [[['N', 'a'], K], [['N', 'b'], 5]]}, {'k': 'setFiles', 'fs': []},
    {'k': 'filesDel', 'i': 0}, {'k': 'filesAppend', 'f': [['F5', 'g'], 5]}, {'k': 'filesClear'},
    {'k': 'setFilepaths', 'ps': [R + ['F5']]}, {'k': 'fpDel', 'i': 0}, {'k': 'fpAppend', 'p': R + ['B', 'x']},
    {'k': 'fpAppend', 'p': R + ['F5', 'f']}, {'k': 'fpClear'},
    {'k': 'globAppend', 'inc': False, 'g': ['suffix', '.tmp']}, {'k': 'globAppend', 'inc': False, 'g': ['suffix', 'f']},
    {'k': 'globAppend', 'inc': True, 'g': ['suffix', 'f']}, {'k': 'globClear', 'inc': False},
    {'k': 'globDel', 'inc': False, 'i': 0},
    {'k': 'setName', 'n': 'Foo'}, {'k': 'setName', 'n': None},
    {'k': 'setPieceSize', 'v': 3 * K}, {'k': 'setPieceSize', 'v': 4 * K}, {'k': 'setPieceSize', 'v': None},
    {'k': 'setPieceSize', 'v': 1000}, {'k': 'setPieceSize', 'v': 2048 * K}, {'k': 'setPieceSize', 'v': 5 * K // 2},
    {'k': 'setMin', 'v': 4 * K}, {'k': 'setMin', 'v': 3 * K}, {'k': 'setMin', 'v': None}, {'k': 'setMin', 'v': 1000}, {'k': 'setMin', 'v': 3 * K // 2},
    {'k': 'setMax', 'v': 2 * K}, {'k': 'setMax', 'v': 3 * K}, {'k': 'setMax', 'v': None}, {'k': 'setMax', 'v': 2048 * K}, {'k': 'setMax', 'v': 7 * K // 2},
    {'k': 'generate'}, {'k': 'setComment', 'c': 'x'},
]
PREFIXES = [
    [{'k': 'setPath', 'p': R + ['F5']}, {'k': 'setPieceSize', 'v': 3 * K}, {'k': 'generate'}],
    [{'k': 'setPath', 'p': R + ['A']}, {'k': 'generate'}],
    [{'k': 'setPath', 'p': R + ['S']}, {'k': 'setPieceSize', 'v': 2 * K}, {'k': 'generate'}],
]


# region of the repaired D09c: a piece length above the class default maximum (32 MiB under an
# explicit maximum of 32 MiB), hashed; every operation, and every operation after a bound reset
BIG_PREFIX = [{'k': 'setMax', 'v': 2048 * K}, {'k': 'setPath', 'p': R + ['F5']},
              {'k': 'setPieceSize', 'v': 2048 * K}, {'k': 'generate'}]
RESETS = [{'k': 'setMax', 'v': None}, {'k': 'setMin', 'v': None}]


def enumerated_big(ctx):
    out = []
    for a in ALPHABET:
        out.append(BIG_PREFIX + [a])
        out.append(BIG_PREFIX[:3] + [a])
        for b in (ALPHABET if ctx.thorough else RESETS):
            out.append(BIG_PREFIX + [a, b])
    for r in RESETS:
        for b in ALPHABET:
            out.append(BIG_PREFIX + [r, b])
            out.append(BIG_PREFIX + [r, {'k': 'generate'}, b])
    return out


def enumerated_corrected(ctx):
    """D09b narrowed: a bound assignment across the other bound, then an assignment of the same
    bound (corrective: None / legal and not crossing; or not: still crossing / illegal value), then
    one more operation - with and without content, piece size and hashes, in both orders"""
    sp = lambda k, v: {'k': k, 'v': v}   # noqa
    setups = [[], [{'k': 'setPath', 'p': R + ['F5']}],
              [{'k': 'setPath', 'p': R + ['F5']}, sp('setPieceSize', 3 * K), {'k': 'generate'}],
              [{'k': 'setPath', 'p': R + ['A']}, {'k': 'generate'}]]
    cross = [
        ([sp('setMax', 2 * K)], sp('setMin', 4 * K),
         [sp('setMin', None), sp('setMin', K), sp('setMin', 2 * K), sp('setMin', 3 * K), sp('setMin', 1000)]),
        ([sp('setMin', 4 * K)], sp('setMax', 2 * K),
         [sp('setMax', None), sp('setMax', 4 * K), sp('setMax', 8 * K), sp('setMax', 3 * K), sp('setMax', 5 * K // 2)]),
        ([sp('setMax', 2048 * K), sp('setMin', 2048 * K)], sp('setMax', None),
         [sp('setMax', 2048 * K), sp('setMax', 4096 * K), sp('setMax', None), sp('setMax', 1024 * K)]),
    ]
    follow = ALPHABET if ctx.thorough else [{'k': 'generate'}, {'k': 'setPath', 'p': R + ['F5']},
                                            sp('setPieceSize', None), {'k': 'setComment', 'c': 'x'}]
    out = []
    for su in setups:
        for pre, x, fixes in cross:
            for f in fixes:
                for a in follow:
                    out.append(su + pre + [x, f, a])
                    if su:
                        out.append(pre + su + [x, f, a])
    return out


def enumerated(ctx):
    out = enumerated_big(ctx) + enumerated_corrected(ctx)
    for a in ALPHABET:
        out.append([a])
        for b in ALPHABET:
            out.append([a, b])
    pre = PREFIXES if ctx.thorough else PREFIXES[:1]
    for p in pre:
        for a in ALPHABET:
            out.append(p + [a])
            for b in ALPHABET:
                out.append(p + [a, b])
                if ctx.thorough and p is PREFIXES[0]:
                    out.append(p + [a, b, {'k': 'generate'}])
    return out


# ---------------------------------------------------------------------------------------------
# enumerated histories on the filter lists


def _rx(k, inc=False, held=False, **kw):
    return dict(k=k, inc=inc, held=held, **kw)


def enumerated_rx(ctx):
    """content, (hashing), one batch update of a regex list — successful, or failing at the start /
    in the middle / at the end —, (hashing), then one or two more edits of the same list (through the
    attribute again or through the list object held since the first edit)"""
    out = []
    V1, V2, V3, V4 = r'\.tmp$', r'a$', r'/sub/', r'[bd]$'
    BADP = '('
    for inc in (False, True):
        for held in (False, True):
            first = [
                _rx('rxExtend', inc, held, ps=[V1, BADP]), _rx('rxExtend', inc, held, ps=[BADP, V1]),
                _rx('rxExtend', inc, held, ps=[V1, V2, BADP, V3]), _rx('rxExtend', inc, held, ps=[V1, V2]),
                _rx('rxIadd', inc, held, ps=[V1, BADP]), _rx('rxIadd', inc, held, ps=[BADP]),
                _rx('rxSet', inc, False, ps=[V1, BADP]), _rx('rxSet', inc, False, ps=[V1, V2]),
                _rx('rxSetSlice', inc, held, a=0, b=0, ps=[V1, '[a']), _rx('rxSetSlice', inc, held, a=0, b=0, ps=[V1]),
                _rx('rxAppend', inc, held, p='*x'), _rx('rxAppend', inc, held, p=V1),
            ]
            then = [
                _rx('rxAppend', inc, held, p=V2), _rx('rxAppend', inc, held, p=BADP),
                _rx('rxExtend', inc, held, ps=[V4, V3]), _rx('rxExtend', inc, held, ps=[V4, 'a{2,1}']),
                _rx('rxSet', inc, False, ps=[r'e\.']), _rx('rxSet', inc, False, ps=[]),
                _rx('rxDel', inc, held, i=0), _rx('rxClear', inc, held),
                _rx('rxAppend', not inc, held, p=V2),
                {'k': 'globAppend', 'inc': inc, 'g': ['suffix', 'a']},
            ]
            for pre in ([{'k': 'setPath', 'p': R + ['A']}], [{'k': 'setPath', 'p': R + ['A']}, {'k': 'generate'}]):
                for f in first:
                    for mid in ([], [{'k': 'generate'}]):
                        for a in then:
                            out.append(pre + [f] + mid + [a])
                            if ctx.thorough or (held and a is then[0]):
                                for b in then[:8:2]:
                                    out.append(pre + [f] + mid + [a, {'k': 'generate'}, b])
    # attribute-level `+=` (getter, extend, then the setter with the list itself): former finding D09d
    for pre in ([{'k': 'setPath', 'p': R + ['A']}], [{'k': 'setPath', 'p': R + ['A']}, {'k': 'generate'}]):
        for inc in (False, True):
            for a in ({'k': 'globIaddAttr', 'inc': inc, 'gs': [['suffix', '.tmp']]}, {'k': 'globIaddAttr', 'inc': inc, 'gs': []},
                      _rx('rxIaddAttr', inc, False, ps=[V1]), _rx('rxIaddAttr', inc, False, ps=[]),
                      _rx('rxIaddAttr', inc, False, ps=[V1, BADP]), _rx('rxIaddAttr', inc, False, ps=[BADP])):
                out.append(pre + [a])
                out.append(pre + [a, {'k': 'generate'}, _rx('rxAppend', inc, False, p=V2)])
                out.append(pre + [_rx('rxAppend', inc, False, p=V2), {'k': 'globAppend', 'inc': inc, 'g': ['suffix', 'a']}, a])
    return out


def enumerated_reassign(ctx):
    """A filter list gets a value, (hashing), then the same list is assigned / edited again in
    every way that goes through `MonitoredList.__setitem__` or the property setter: the value it
    already has, `x = x`, `l[:] = l`, `x += […]` (nothing / a present / a new item), index
    assignment of the same / another present / a new item at valid, negative and out-of-range
    positions, slice assignment that repeats a kept item, a value with duplicates, a rejected
    value — on each of the four lists, through the attribute and through a held list object."""
    out = []
    vals = {'glob': (['suffix', '.tmp'], ['suffix', 'a'], ['infix', '/sub/']), 'rx': (r'e\.', r'a$', r'/sub/')}
    for kind in ('glob', 'rx'):
        v1, v2, v3 = vals[kind]
        for inc in (False, True):
            firsts = [[_fl(kind, 'Set', inc, vs=[v1])], [_fl(kind, 'Set', inc, vs=[v1, v2])],
                      [_fl(kind, 'Append', inc, v=v1)], [_fl(kind, 'IaddAttr', inc, vs=[v1, v2])],
                      [_fl(kind, 'Set', inc, vs=[v1, v2, v3])]]
            for held in (False, True):
                second = [
                    _fl(kind, 'Set', inc, vs=[v1]), _fl(kind, 'Set', inc, vs=[v1, v2]), _fl(kind, 'Set', inc, vs=[v2, v1]),
                    _fl(kind, 'SetSelf', inc), _fl(kind, 'SliceSelf', inc, held),
                    _fl(kind, 'IaddAttr', inc, vs=[]), _fl(kind, 'IaddAttr', inc, vs=[v1]), _fl(kind, 'IaddAttr', inc, vs=[v3]),
                    _fl(kind, 'SetIndex', inc, held, v=v1, i=0), _fl(kind, 'SetIndex', inc, held, v=v2, i=0),
                    _fl(kind, 'SetIndex', inc, held, v=v3, i=-1), _fl(kind, 'SetIndex', inc, held, v=v1, i=-1),
                    _fl(kind, 'SetIndex', inc, held, v=v1, i=2), _fl(kind, 'SetIndex', inc, held, v=v3, i=-3),
                    _fl(kind, 'SetSlice', inc, held, vs=[v1], a=1, b=None), _fl(kind, 'SetSlice', inc, held, vs=[v2, v2], a=0, b=1),
                    _fl(kind, 'SetSlice', inc, held, vs=[v3, v1, v3], a=1, b=1), _fl(kind, 'Set', inc, vs=[v2, v1, v2, v3, v1]),
                ]
                # the remaining in-place edits (reverse as repaired by 3d3793a, pop, remove, insert, del slice)
                second += [
                    _fl(kind, 'Reverse', inc, held), _fl(kind, 'Pop', inc, held, i=None), _fl(kind, 'Pop', inc, held, i=0),
                    _fl(kind, 'Pop', inc, held, i=3), _fl(kind, 'Pop', inc, held, i=-2),
                    _fl(kind, 'Remove', inc, held, v=v1), _fl(kind, 'Remove', inc, held, v=v3),
                    _fl(kind, 'Insert', inc, held, v=v3, i=0), _fl(kind, 'Insert', inc, held, v=v1, i=1),
                    _fl(kind, 'Insert', inc, held, v=v3, i=-1), _fl(kind, 'Insert', inc, held, v=v3, i=9),
                    _fl(kind, 'DelSlice', inc, held, a=0, b=1), _fl(kind, 'DelSlice', inc, held, a=1, b=None),
                    _fl(kind, 'DelSlice', inc, held, a=2, b=1),
                ]
                if kind == 'rx':
                    second += [_fl(kind, 'Insert', inc, held, v='(', i=0), _fl(kind, 'Remove', inc, held, v='[a')]
                if kind == 'rx':
                    second += [_fl(kind, 'Set', inc, vs=[v1, '(']), _fl(kind, 'SetIndex', inc, held, v='[a', i=0),
                               _fl(kind, 'SetIndex', inc, held, v='(', i=7), _fl(kind, 'SetSlice', inc, held, vs=[v1, '*x'], a=0, b=None)]
                if held and not ctx.thorough:
                    second = [o for o in second if o.get('held')]        # the attribute route was enumerated with held=False
                for pre in ([{'k': 'setPath', 'p': R + ['A']}], [{'k': 'setPath', 'p': R + ['A']}, {'k': 'generate'}]):
                    for f in firsts:
                        for mid in ([], [{'k': 'generate'}]):
                            if not ctx.thorough and inc and not mid:
                                continue
                            for a in second:
                                out.append(pre + f + mid + [a])
                                if ctx.thorough:
                                    out.append(pre + f + mid + [a, {'k': 'generate'}, _fl(kind, 'Set', inc, vs=[v1])])
                                if a['k'].endswith('Reverse'):
                                    # a reversed list is edited / reversed again, and hashed in between
                                    out.append(pre + f + mid + [a, {'k': 'generate'}, _fl(kind, 'Reverse', inc, not held)])
                                    out.append(pre + f + mid + [a, _fl(kind, 'Pop', inc, held, i=None), {'k': 'generate'}, _fl(kind, 'Append', inc, v=v1)])
    return out


# ---------------------------------------------------------------------------------------------
# operations that FAIL HALF-WAY and the object is used again: `_set_files` (behind path / files /
# filepaths, their list edits and the callback of the filter lists) stores the new file list and
# recalculates the piece length last; the recalculation fails when the class's
# calculate_piece_size() raises (stock: a listed size beyond the range of a float; an override: any
# exception) or returns a value the piece_size setter rejects (an override; crossed bounds = D09b).
# `rules` describes the class (attrs_world.make_class) and is sent to the model as Env.rules.

RULESETS = [
    [],                                                                    # stock class: failures come from huge sizes
    [{'lo': 100000, 'hi': None, 'raise': 'CalcFault'}],                     # tree A (147460), two trees combined, big files
    [{'lo': 100000, 'hi': None, 'value': 1000}],                            # … returns a non-multiple of 16 KiB: PieceSizeError
    [{'lo': 40000, 'hi': 60000, 'value': 4096 * K}],                        # S (49153): a value above the maximum
    [{'lo': 1, 'hi': 40000, 'value': 0}],                                   # B (32773), A/sub (32771), small file lists
    [{'lo': 131000, 'hi': 132000, 'raise': 'ZeroDivisionError'}],           # tree A without e.tmp (131076): a FILTER edit fails
    [{'lo': 1, 'hi': None, 'value': 4 * K}],                                # a legitimate override - until the bounds exclude 64 KiB
    [{'lo': 60000, 'hi': 100000, 'raise': 'PieceSizeError'}, {'lo': 100000, 'hi': None, 'value': -K}],   # F5 (81920) / larger
]
FAULT_OPS = [
    {'k': 'setPath', 'p': R + ['A']}, {'k': 'setPath', 'p': R + ['S']}, {'k': 'setPath', 'p': R + ['B']},
    {'k': 'setPath', 'p': R + ['F5']},
    {'k': 'setFiles', 'fs': [[['N', 'a'], 120000], [['N', 'b'], 5]]}, {'k': 'setFiles', 'fs': [[['N', 'a'], 50000]]},
    {'k': 'setFiles', 'fs': [[['N', 'a'], W.HUGE], [['N', 'b'], 5]]}, {'k': 'setFiles', 'fs': [[['N', 'huge'], W.FLOAT_LIMIT]]},
    {'k': 'filesAppend', 'f': [['F5', 'g'], 120000]}, {'k': 'filesAppend', 'f': [['F5', 'huge'], W.HUGE]},
    {'k': 'filesAppend', 'f': [['A', 'zz'], 20000]}, {'k': 'filesAppend', 'f': [['A', 'huge'], W.HUGE]},
    {'k': 'filesAppend', 'f': [['S', 'huge'], W.HUGE]},
    {'k': 'filesDel', 'i': 0}, {'k': 'filesDel', 'i': 1},
    {'k': 'setFilepaths', 'ps': [R + ['A']]}, {'k': 'setFilepaths', 'ps': [R + ['S']]},
    {'k': 'setFilepaths', 'ps': [R + ['A', 'a'], R + ['A', 'b'], R + ['A', 'sub', 'd']]},
    {'k': 'fpAppend', 'p': R + ['B', 'x']}, {'k': 'fpAppend', 'p': R + ['A', 'a']}, {'k': 'fpAppend', 'p': R + ['S']},
    {'k': 'fpDel', 'i': 0}, {'k': 'fpDel', 'i': 4},
    {'k': 'globAppend', 'inc': False, 'g': ['suffix', '.tmp']}, {'k': 'globSet', 'inc': False, 'gs': [['suffix', '.tmp']]},
    {'k': 'globIaddAttr', 'inc': False, 'gs': [['suffix', '.tmp']]},
    {'k': 'globExtend', 'inc': False, 'held': True, 'gs': [['suffix', '.tmp'], ['suffix', 'a']]},
    {'k': 'rxAppend', 'inc': False, 'held': False, 'p': r'\.tmp$'}, {'k': 'rxSet', 'inc': False, 'held': False, 'ps': [r'\.tmp$', r'a$']},
    {'k': 'globAppend', 'inc': False, 'g': ['suffix', 'a']}, {'k': 'globAppend', 'inc': True, 'g': ['suffix', 'f']},
    {'k': 'setPieceSize', 'v': None}, {'k': 'setMax', 'v': 2 * K}, {'k': 'setMin', 'v': 8 * K},
]
FAULT_FOLLOW = [
    {'k': 'generate'}, {'k': 'setPath', 'p': R + ['F5']}, {'k': 'setPath', 'p': R + ['A']}, {'k': 'setPath', 'p': None},
    {'k': 'setPieceSize', 'v': None}, {'k': 'setPieceSize', 'v': 4 * K}, {'k': 'filesClear'}, {'k': 'filesDel', 'i': 0},
    {'k': 'filesDel', 'i': 1}, {'k': 'fpDel', 'i': 0}, {'k': 'globClear', 'inc': False},
    {'k': 'globAppend', 'inc': False, 'g': ['suffix', 'a']}, {'k': 'globAppend', 'inc': False, 'g': ['suffix', 'huge']},
    {'k': 'setName', 'n': 'Foo'}, {'k': 'setMax', 'v': None}, {'k': 'setMax', 'v': 2 * K},
]
FAULT_PREFIXES = [
    [{'k': 'setPath', 'p': R + ['F5']}, {'k': 'setPieceSize', 'v': 3 * K}, {'k': 'generate'}],
    [{'k': 'setPath', 'p': R + ['A']}, {'k': 'generate'}],
    [{'k': 'setPath', 'p': R + ['S']}, {'k': 'setPieceSize', 'v': 2 * K}, {'k': 'generate'}],
    [],
]


def enumerated_faults(ctx):
    """every class of RULESETS x a hashed prefix x every operation that recalculates the piece length
    (content assignment, in-place edit of the file / filepath / filter lists, piece_size = None, a
    bound assignment that makes a later recalculation fail) x what the caller may do next with the
    object that raised: hash it, assign other content, ask for a new piece size, edit the lists"""
    out = []
    pres = FAULT_PREFIXES if ctx.thorough else FAULT_PREFIXES[:2]
    for ri, rules in enumerate(RULESETS):
        for pi, pre in enumerate(pres):
            for oi, a in enumerate(FAULT_OPS):
                out.append((pre + [a], rules))
                # the object is used again after the (possibly failed) operation
                follow = FAULT_FOLLOW if ctx.thorough else [FAULT_FOLLOW[(ri + pi + oi + j * 5) % len(FAULT_FOLLOW)] for j in range(2)]
                for b in follow:
                    out.append((pre + [a, b], rules))
                    if ctx.thorough or (oi + ri) % 6 == 0:
                        out.append((pre + [a, b, {'k': 'generate'}, FAULT_OPS[(oi + 7) % len(FAULT_OPS)]], rules))
            # two failing operations in a row, then a recovery
            for a in FAULT_OPS[:8]:
                out.append((pre + [a, FAULT_OPS[(FAULT_OPS.index(a) + 3) % 8], {'k': 'setPath', 'p': R + ['F5']}, {'k': 'generate'}], rules))
    # region of D09b, continued: the bounds cross on a hashed torrent, then content changes fail
    sp = lambda k, v: {'k': k, 'v': v}   # noqa
    for pre in FAULT_PREFIXES[:3]:
        for cross in ([sp('setMax', 2 * K), sp('setMin', 4 * K)], [sp('setMin', 4 * K), sp('setMax', 2 * K)],
                      [sp('setMin', 2048 * K)], [sp('setMax', K // 2 * 2)]):
            for a in (FAULT_OPS[:24:2] if ctx.thorough else FAULT_OPS[:24:3]) + [{'k': 'setPieceSize', 'v': None}]:
                out.append((pre + cross + [a], []))
                out.append((pre + cross + [a, {'k': 'generate'}], []))
                out.append((cross + pre + [a], []))
    return out


def g_rules(rng):
    r = rng.random()
    if r < 0.2:
        return []
    if r < 0.45:
        return rng.choice(RULESETS[1:])
    outs = [{'raise': n} for n in ('CalcFault', 'ZeroDivisionError', 'KeyError', 'PieceSizeError', 'OverflowError')] + \
           [{'value': v} for v in (1000, 0, -K, 4096 * K, K // 2, 4 * K, 2 * K, 3 * K, 5 * K // 2)]
    rules = []
    for _ in range(rng.choice([1, 1, 2])):
        lo = rng.choice([1, 30000, 40000, 60000, 65000, 100000, 131000, 140000, 2 ** 30])
        hi = rng.choice([None, None, lo + rng.choice([2000, 20000, 60000])])
        rules.append(dict(lo=lo, hi=hi, **rng.choice(outs)))
    return rules


def g_fault_history(rng, maxlen):
    """a class, content (hashed in most cases), then operations among which those that recalculate
    the piece length are frequent - the object is used on after every failure"""
    rules = g_rules(rng)
    cur = new_cur()
    ops = []
    if rng.random() < 0.85:
        ops.append({'k': 'setPath', 'p': rng.choice([R + ['A'], R + ['A'], R + ['F5'], R + ['S'], R + ['B']])})
        if rng.random() < 0.3:
            ops.append({'k': 'setPieceSize', 'v': K * rng.choice([1, 2, 3, 4])})
        if rng.random() < 0.8:
            ops.append({'k': 'generate'})
    n = len(ops) + rng.randint(2, maxlen)
    while len(ops) < n:
        r = rng.random()
        if r < 0.45:
            ops.append(dict(rng.choice(FAULT_OPS)))
        elif r < 0.6:
            ops.append(dict(rng.choice(FAULT_FOLLOW)))
        elif r < 0.7:
            ops.append({'k': 'generate'})
        elif r < 0.8:
            ops.append(g_flist_op(rng, cur, rng.choice(['glob', 'rx']), rng.random() < 0.3, rng.random() < 0.5))
        else:
            ops.append(g_op(rng, cur, rng.random() < 0.3))
    return ops, rules


def corpus_cases(ctx):
    out = []
    d = os.path.join(common.CORPUS_DIR, 'C09')
    if os.path.isdir(d):
        for fn in sorted(os.listdir(d)):
            if fn.endswith('.json'):
                j = json.load(open(os.path.join(d, fn)))
                if not _is2(j['ops']):            # two-object histories: gen_cases2
                    out.append({'ops': j['ops'], 'src': 'corpus:' + fn, 'rules': j.get('rules') or []})
    for f in ctx.open_findings():
        w = f.get('witness', {})
        if 'ops' in w and not _is2(w['ops']):
            out.append({'ops': w['ops'], 'src': 'witness:' + f['id'], 'witness': f['id']})
    return out


def gen_cases(ctx, scale=1.0):
    cases = corpus_cases(ctx)
    for ops in enumerated(ctx):
        cases.append({'ops': ops, 'src': 'enumerated'})
    for ops in enumerated_rx(ctx):
        cases.append({'ops': ops, 'src': 'enumerated-rx'})
    for ops in enumerated_reassign(ctx):
        cases.append({'ops': ops, 'src': 'enumerated-reassign'})
    for ops in enumerated_spelling(ctx):
        cases.append({'ops': ops, 'src': 'enumerated-spelling'})
    for ops, rules in enumerated_faults(ctx):
        cases.append({'ops': ops, 'src': 'enumerated-faults', 'rules': rules})
    maxlen = 14 if ctx.thorough else 8
    for _ in range(int(ctx.n(2600, 110000) * scale)):
        cases.append({'ops': g_history(ctx.rng, maxlen), 'src': 'random'})
    maxlen = 12 if ctx.thorough else 8
    for _ in range(int(ctx.n(1200, 40000) * scale)):
        cases.append({'ops': g_filter_history(ctx.rng, maxlen), 'src': 'random-filters'})
    for _ in range(int(ctx.n(700, 20000) * scale)):
        ops, rules = g_fault_history(ctx.rng, 9 if ctx.thorough else 6)
        cases.append({'ops': ops, 'src': 'random-faults', 'rules': rules})
    return cases


# ---------------------------------------------------------------------------------------------
# running


def _run_chunk(cases):
    torf = common.import_torf()
    root = W.world_root()
    return [W.run_history(torf, c['ops'], root, rules=c.get('rules')) for c in cases]


def _diff(model, obs):
    d = {}
    for k in COMPARE:
        if k == 'numPieces' and obs.get(k) is None:
            continue        # `Torrent.pieces` itself overflowed (a listed size beyond the range of a float)
        if model.get(k) != obs.get(k):
            d[k] = {'model': model.get(k), 'impl': obs.get(k)}
    if W.model_keys(model) != obs['keys']:
        d['info-keys'] = {'model': W.model_keys(model), 'impl': obs['keys']}
    return d


BATCH = 12000     # histories per round trip (driver replies and projections of a whole tier do not fit into memory)


def evaluate(ctx, drv, cases):
    for i in range(0, len(cases), BATCH):
        _evaluate(ctx, drv, cases[i:i + BATCH])
    # report the shortest failing history
    ctx.violations.sort(key=lambda v: len(v['case'].get('ops', ())) if isinstance(v['case'], dict) else 0)
    ctx.corr_breaks.sort(key=lambda v: len(v['case'].get('ops', ())) if isinstance(v['case'], dict) else 0)


def _evaluate(ctx, drv, cases):
    replies = drv.run([{'op': 'c09.run', 'env': W.env_json(c.get('rules')), 'ops': [W.to_driver(o) for o in c['ops']]} for c in cases])
    for rep in replies:
        rep['init'] = W.model_state(rep['init'])
        for ms in rep['steps']:
            ms['state'] = W.model_state(ms['state'])
    results = common.pmap(_run_chunk, common.split(cases, common.NPROC * 4))
    flat = [r for chunk in results for r in chunk]
    assert len(flat) == len(cases)
    for c, rep, impl in zip(cases, replies, flat):
        ops = c['ops']
        case = {'ops': ops, 'src': c['src']}
        if c.get('rules'):
            case['rules'] = c['rules']
        msteps = rep['steps']
        had_pieces = False
        nontrivial = False
        for k, ms in enumerate(msteps):
            pre_pieces = (msteps[k - 1]['state']['pieces'] is not None) if k else False
            if pre_pieces and ops[k]['k'] not in ('generate', 'setComment'):
                nontrivial = True
            had_pieces = had_pieces or pre_pieces
        ctx.case(key=json.dumps([ops, c.get('rules') or []], sort_keys=True), nontrivial=nontrivial, kind='history/' + c['src'].split(':')[0])
        ctx.dist['len-%02d' % len(ops)] += 1
        if not rep['initInv']:
            ctx.machinery_error('Inv fails on the initial model state although C09_inv_init is proved', case)
        if impl['init'] is not None and _diff(rep['init'], impl['init']):
            ctx.corr_break('c09.init', case, rep['init'], impl['init'])
            continue
        ctx.sample({'case': case, 'model_last': msteps[-1]['state'] if msteps else None,
                    'impl_last': impl['steps'][-1] if impl['steps'] else None}, limit=4)
        reproduced = False
        failed_batch = False
        sp_out = False
        dd_before = False
        weak = False        # region of D09b (the bounds crossed and were not corrected at once): only the clauses
        #                     that hold without hypothesis are judged from here on (C09_stamp_history)
        faulted_before = False
        for k, st in enumerate(impl['steps']):
            ms = msteps[k]
            op = ops[k]
            ctx.dist['op/' + op['k']] += 1
            if op.get('sp'):
                ctx.dist['spelled/' + op['k']] += 1
            sp_out = sp_out or mixed_spelling(op, dd_before)
            dd_now, dd_before = dd_before, dd_before or dotdot_spelled(op)
            if sp_out and ms['hypC']:
                # D09g region: the model (which knows no spellings) is not compared from here on;
                # the implementation-side clauses still are
                ms = dict(ms, hypC=False)
                ctx.dist['outside-hyp:mixed-spelling(D09g)'] += 1
            if not ms['fok']:
                ctx.machinery_error('model state violates FiltersOk although C09_filters_ok_history is proved',
                                    {'case': case, 'step': k})
                break
            if not ms['invS']:
                ctx.machinery_error('model state violates InvS although C09_stamp_history is proved (no hypothesis)',
                                    {'case': case, 'step': k})
                break
            if ms['hypW'] and not ms['invW']:
                ctx.machinery_error('model state violates InvW under AllOpOk although C09_weak_history is proved',
                                    {'case': case, 'step': k})
                break
            if ms['hypW'] and ms['full'] and not ms['inv']:
                ctx.machinery_error('model state violates Inv although the tracker of C09_inv_tracked_history claims it',
                                    {'case': case, 'step': k})
                break
            if ms['hypC'] and not ms['inv']:
                ctx.machinery_error('model state violates Inv under AllOkC although C09_inv_history_corrected is proved',
                                    {'case': case, 'step': k})
                break
            dev = [x for x in st['dev'] if x not in W.WEAK_IGNORED] if weak else st['dev']
            if weak:
                ctx.dist['bounds-crossed(D09b)/step-judged-by-the-unconditional-clauses'] += 1
            if dev:
                pre = impl['steps'][k - 1]['obs'] if k else impl['init']
                observed = {'step': k, 'op': op, 'codes': dev, 'res': st['res'], 'pre': pre,
                            'post': st['obs'], 'hyp': ms['hypC'], 'dotdot_before': dd_now}
                fid = ctx.violation('after operation %d (%s) the torrent violates C09: %s'
                                    % (k, op['k'], ', '.join(dev)),
                                    case, {'no deviation; model state': ms['state'], 'model res': ms['res']},
                                    observed, finding_matchers=WEAK_MATCHERS if weak else MATCHERS)
                reproduced = reproduced or (fid is not None and fid == c.get('witness'))
                # D09b narrowed (C09_inv_corrected_step): if the deviation is the known finding and
                # the next operation re-assigns the same bound correctively (the driver's hypC holds
                # again), the history goes on; the state left by the crossing assignment itself must
                # be the model's (the model mirrors raising setters)
                if (fid is not None and k + 1 < len(impl['steps']) and msteps[k + 1]['hypC']):
                    ctx.dist['crossing-then-corrected'] += 1
                    d = _diff(ms['state'], st['obs'])
                    if ms['res'] != st['res']:
                        d['outcome'] = {'model': ms['res'], 'impl': st['res']}
                    if d:
                        ctx.corr_break('c09.run', dict(case, ops=ops[:k + 1]),
                                       {'step': k, 'diff': d, 'state': ms['state'], 'res': ms['res']},
                                       {'step': k, 'state': st['obs'], 'res': st['res']})
                        break
                    continue
                if fid == 'D09b' and not weak:
                    # the bounds stay crossed: the history goes on (the object is used again), judged by
                    # what holds without hypothesis - in particular hashes must not survive a content
                    # change whose recalculation now fails with PieceSizeError
                    weak = True
                    ctx.dist['bounds-crossed(D09b)/history-continued'] += 1
                else:
                    break
            if sp_out:
                # outside the model's alphabet (spellings) the implementation met the specification
                ctx.dist['outside-hyp-but-in-spec'] += 1
                continue
            d = _diff(ms['state'], st['obs'])
            if ms['res'] != st['res']:
                d['outcome'] = {'model': ms['res'], 'impl': st['res']}
            if d:
                ctx.corr_break('c09.run', dict(case, ops=ops[:k + 1]), {'step': k, 'diff': d, 'state': ms['state'], 'res': ms['res']},
                               {'step': k, 'state': st['obs'], 'res': st['res']})
                _later_deviation(ctx, case, ops, impl['steps'], k, weak)
                break
            pre = impl['steps'][k - 1]['obs'] if k else impl['init']
            if ms['fault']:
                # the operation failed inside the recalculation of the piece length
                ctx.dist['failed-recalculation/%s/%s' % (st['res'], op['k'])] += 1
                if pre['pieces'] is not None:
                    ctx.dist['failed-recalculation/hashes-were-present'] += 1
                if W._content(pre)[:3] != W._content(st['obs'])[:3]:
                    ctx.dist['failed-recalculation/file-list-changed-by-the-failed-operation'] += 1
                if st['obs']['pl'] is None and st['obs']['size'] > 0:
                    ctx.dist['failed-recalculation/content-left-without-piece-length(candidate-D09h)' if not c.get('rules') and not weak
                             else 'failed-recalculation/content-left-without-piece-length'] += 1
                if k + 1 < len(impl['steps']):
                    ctx.dist['failed-recalculation/object-used-again'] += 1
            elif faulted_before:
                ctx.dist['after-a-failed-recalculation/%s' % ('full-invariant-claimed' if ms['full'] else 'weak-invariant-only')] += 1
                if st['lenient'] != (not ms['full']) and ms['hypW']:
                    ctx.dist['after-a-failed-recalculation/implementation-side-and-model-tracker-differ'] += 1
            faulted_before = faulted_before or ms['fault']
            if st['obs']['ready']:
                ctx.dist['ready-and-verified'] += 1
            f = W.flist(op)
            if f is not None:
                failed_batch = _count_flist(ctx, f, op, st, pre, failed_batch)
            if op['k'] in ('setMin', 'setMax') and op['v'] is None:
                # region of the repaired D09c: a bound reset with a piece length present (clamp runs)
                if pre and pre.get('pl'):
                    ctx.dist['bound-reset-with-piece-length'] += 1
                    if op['k'] == 'setMax' and pre['pl'] > W.DEFAULT_MAX:
                        ctx.dist['max-reset-clamped-piece-length'] += 1
        if c.get('witness') and not reproduced:
            if c['witness'] not in ctx.not_reproduced:
                ctx.not_reproduced.append(c['witness'])
    # report the shortest failing history
    ctx.violations.sort(key=lambda v: len(v['case'].get('ops', ())) if isinstance(v['case'], dict) else 0)
    ctx.corr_breaks.sort(key=lambda v: len(v['case'].get('ops', ())) if isinstance(v['case'], dict) else 0)


def _count_flist(ctx, f, op, st, pre, failed_batch):
    """how often the interesting regions of the filter-list operations are reached (evidence)"""
    key = W.flist_key(f)
    hashed = '/hashed' if pre['pieces'] is not None else ''
    if st['res'] in ('re.error', 'IndexError', 'ValueError'):
        ctx.dist['flist-rejected/%s/%s' % (st['res'], f['o'])] += 1
        if st['res'] == 're.error' and f['o'] in ('extend', 'iaddAttr', 'setSlice'):
            failed_batch = True
        return failed_batch
    if st['res'] != 'ok':
        return failed_batch
    if failed_batch and f['kind'] == 'rx':
        ctx.dist['rx-edit-after-failed-batch' + ('/held' if f['held'] else '')] += 1
    if f['o'] in ('setSlice', 'setIndex'):
        vs = f['vs'] if 'vs' in f else [f['v']]
        if f['held']:
            ctx.dist['flist/item-or-slice-assignment-through-held-list' + hashed] += 1
        if vs and st['obs'][key] == pre[key]:
            ctx.dist['flist/assigned-value-leaves-list-equal' + hashed] += 1        # e.g. the same value twice
        if f['suffix'] == 'Set' and vs and vs == pre[key]:
            ctx.dist['flist/attribute-assigned-the-value-it-has' + hashed] += 1
        spliced = list(pre[key])
        if f['o'] == 'setSlice':
            spliced[f['a']:f['b']] = vs
        else:
            spliced[f['i']] = vs[0]
        if len(W.dedup_first(spliced)) < len(spliced):
            ctx.dist['flist/assignment-drops-duplicates' + hashed] += 1
    elif f['o'] == 'reverse':
        ctx.dist['flist/reverse-of-%s-items%s' % (len(pre[key]) if len(pre[key]) < 3 else '3+', hashed)] += 1
    elif f['o'] == 'assignSelf':
        ctx.dist['flist/assign-self(%s)%s' % ('x=x' if f['route'] == 'attr' else 'l[:]=l', hashed)] += 1
        if pre[key]:
            ctx.dist['flist/assign-self-nonempty' + hashed] += 1
    elif f['o'] == 'iaddAttr':
        ctx.dist['flist/attribute-iadd' + hashed] += 1
        if pre[key] or f['vs']:
            ctx.dist['flist/attribute-iadd-nonempty' + hashed] += 1
    return failed_batch


def _later_deviation(ctx, case, ops, steps, k, weak=False):
    """The implementation ran the whole history whatever the model says: a deviation from the
    specification AFTER a correspondence break is still a violation with a concrete input."""
    for m in range(k + 1, len(steps)):
        st = steps[m]
        if weak:
            st = dict(st, dev=[x for x in st['dev'] if x not in W.WEAK_IGNORED])
        if st['dev']:
            obs = st['obs']
            ctx.violation('after operation %d (%s) the torrent violates C09: %s (the model already disagreed at operation %d)'
                          % (m, ops[m]['k'], ', '.join(st['dev']), k), case, 'no deviation',
                          {'step': m, 'op': ops[m], 'codes': st['dev'], 'res': st['res'],
                           'pre': None, 'post': obs, 'hyp': False}, finding_matchers={})
            break


def _run_chunk2(cases):
    torf = common.import_torf()
    root = W.world_root()
    return [W.run_history2(torf, c['ops'], root, rules=c.get('rules')) for c in cases]


def evaluate2(ctx, drv, cases):
    for i in range(0, len(cases), BATCH):
        _evaluate2(ctx, drv, cases[i:i + BATCH])
    ctx.violations.sort(key=lambda v: len(v['case'].get('ops', ())) if isinstance(v['case'], dict) else 0)
    ctx.corr_breaks.sort(key=lambda v: len(v['case'].get('ops', ())) if isinstance(v['case'], dict) else 0)


def _evaluate2(ctx, drv, cases):
    """two-object histories: I (both real objects, C09 clauses + independence), M (`apply2`), S (`Inv`
    on both model states under `AllOk2`, `FiltersOk` on both without hypothesis)"""
    replies = drv.run([{'op': 'c09.run2', 'env': W.env_json(c.get('rules')), 'ops': [dict(W.to_driver(o), on=int(o.get('on', 0))) if o['k'] != 'copy' else o for o in c['ops']]}
                       for c in cases])
    results = common.pmap(_run_chunk2, common.split(cases, common.NPROC * 4))
    flat = [r for chunk in results for r in chunk]
    assert len(flat) == len(cases)
    for c, rep, impl in zip(cases, replies, flat):
        ops = c['ops']
        case = {'ops': ops, 'src': c['src']}
        if c.get('rules'):
            case['rules'] = c['rules']
        msteps = rep['steps']
        steps = impl['steps']
        nontrivial = any(k and steps[k - 1]['obs'] and any(o['pieces'] is not None for o in steps[k - 1]['obs'])
                         and ops[k]['k'] not in ('generate', 'setComment') for k in range(len(steps)))
        ctx.case(key=json.dumps(ops, sort_keys=True), nontrivial=nontrivial, kind='history2/' + c['src'].split(':')[0])
        reproduced = False
        sp_out = False
        dd_before = [False, False]
        for k, st in enumerate(steps):
            ms = msteps[k]
            op = ops[k]
            i = int(op.get('on', 0))
            ctx.dist['op2/%s/on%d' % (op['k'], i)] += 1
            sp_out = sp_out or mixed_spelling(op, dd_before[i])
            dd_now, dd_before[i] = dd_before[i], dd_before[i] or dotdot_spelled(op)
            m = [W.model_state(ms['state0']), W.model_state(ms['state1'])]
            if not ms['fok']:
                ctx.machinery_error('model state violates FiltersOk although C09_filters_ok2_history is proved', {'case': case, 'step': k})
                break
            if ms['hyp'] and not (ms['inv0'] and ms['inv1']):
                ctx.machinery_error('model states violate Inv under AllOk2 although C09_inv2_history is proved', {'case': case, 'step': k})
                break
            if st['dev']:
                t = (1 - i) if op['k'] == 'copy' else i
                pre = (steps[k - 1]['obs'][i] if k else impl['init'])
                observed = {'step': k, 'op': op, 'codes': st['dev'], 'res': st['res'], 'pre': pre,
                            'post': st['obs'][t] if st['obs'] else None, 'other': st['obs'][1 - t] if st['obs'] else None,
                            'hyp': ms['hyp'], 'dotdot_before': dd_now}
                if match_copy_outside_default_bounds(case, observed, None):
                    # not a violation of C09: copy() is no change "through the object's attributes" but the making of a
                    # new object that starts - like one made by Torrent.read() - with the class-default bounds, whatever
                    # piece length its metainfo carries.  The clauses about the bounds presuppose a piece length that
                    # was set through the attributes of the object itself: counted, the history is not judged further.
                    ctx.dist['outside-hyp:copy carries a piece length outside the default bounds (as read() would)'] += 1
                    break
                fid = ctx.violation('after operation %d (%s on object %d) the torrents violate C09: %s'
                                    % (k, op['k'], i, ', '.join(st['dev'])), case,
                                    {'no deviation; model states': m, 'model res': ms['res']}, observed,
                                    finding_matchers=MATCHERS)
                reproduced = reproduced or (fid is not None and fid == c.get('witness'))
                break
            if sp_out or not ms['hypM']:
                ctx.dist['outside-hyp-but-in-spec'] += 1
                continue
            if not ms['hyp']:
                ctx.dist['copy/detached-object-compared-with-the-model(Inv not claimed)'] += 1
            d = {}
            for o in (0, 1):
                dd = _diff(m[o], st['obs'][o])
                if dd:
                    d['object%d' % o] = dd
            if ms['res'] != st['res']:
                d['outcome'] = {'model': ms['res'], 'impl': st['res']}
            if d:
                ctx.corr_break('c09.run2', dict(case, ops=ops[:k + 1]), {'step': k, 'diff': d, 'res': ms['res']},
                               {'step': k, 'states': st['obs'], 'res': st['res']})
                _later_deviation(ctx, case, ops, steps, k)
                break
            if op['k'] == 'copy':
                ctx.dist['copy/' + ('of-hashed' if st['obs'][i]['pieces'] is not None else 'of-unhashed')] += 1
            elif k and any(o['k'] == 'copy' for o in ops[:k]):
                f = W.flist(op)
                if f is not None and st['res'] == 'ok':
                    pre = steps[k - 1]['obs']
                    ctx.dist['copy/filter-edit-after-copy/on%d%s' % (i, '/hashed' if pre[i]['pieces'] is not None else '')] += 1
                    if pre[1 - i]['pieces'] is not None:
                        ctx.dist['copy/filter-edit-while-the-other-object-holds-hashes'] += 1
            if any(o['ready'] for o in st['obs']):
                ctx.dist['ready-and-verified'] += 1
        if c.get('witness') and not reproduced and c['witness'] not in ctx.not_reproduced:
            ctx.not_reproduced.append(c['witness'])
    ctx.violations.sort(key=lambda v: len(v['case'].get('ops', ())) if isinstance(v['case'], dict) else 0)
    ctx.corr_breaks.sort(key=lambda v: len(v['case'].get('ops', ())) if isinstance(v['case'], dict) else 0)


def calc_cases(ctx):
    rng = ctx.rng
    sizes = set()
    for mp in (512, 1024, 1536, 2048):
        for e in range(0, 30):
            for d in (-1, 0, 1):
                s = mp * 2 ** e + d
                if 0 < s < 2 ** 40:
                    sizes.add(s)
    for t in (2 ** 30, 8 * 2 ** 30, 16 * 2 ** 30):
        for d in (-1, 0, 1, 2):
            sizes.add(t + d)
    for s in range(1, 600):
        sizes.add(s)
    for _ in range(ctx.n(1500, 40000)):
        sizes.add(rng.randrange(1, 2 ** rng.randint(1, 40)))
    bounds = [(W.DEFAULT_MIN, W.DEFAULT_MAX), (K, K), (4 * K, 8 * K), (K, 2048 * K), (3 * K, 5 * K),
              (1024 * K, 2048 * K), (8 * K, 2 * K)]
    out = []
    for s in sorted(sizes):
        for b in (bounds if s % 3 == 0 or s < 600 else bounds[:3]):
            out.append((s, b[0], b[1]))
    return out


def evaluate_calc(ctx, drv, cases):
    torf = common.import_torf()
    replies = drv.run([{'op': 'c09.calc', 'size': s, 'min': a, 'max': b} for s, a, b in cases])
    for (s, a, b), r in zip(cases, replies):
        nontriv = a < r['model'] < b
        ctx.case(key=('calc', s, a, b), nontrivial=nontriv, kind='calc')
        case = {'calc': {'size': s, 'min': a, 'max': b}}
        if not r['spec']:
            ctx.machinery_error('calcPieceSize violates its specification although C09_calc_piece_size_spec is proved', case)
            continue
        try:
            got = torf.Torrent.calculate_piece_size(s, min_size=a, max_size=b)
        except Exception as e:  # noqa
            ctx.violation('calculate_piece_size raised ' + type(e).__name__, case, r['model'], repr(e))
            continue
        p2 = got > 0 and got & (got - 1) == 0
        ok = (p2 or got in (a, b)) and (a > b or a <= got <= b) and (a > b or (got % K == 0 and got > 0))
        if not ok or type(got) is not int:
            ctx.violation('calculate_piece_size() is not a power of two / bound within the bounds and a multiple of 16 KiB',
                          case, r['model'], got)
        elif got != r['model']:
            ctx.corr_break('c09.calc', case, r['model'], got)


def run(ctx, drv):
    ctx.notes['rule'] = RULE
    ctx.notes['assumptions'] = [
        'file system = the fixed content world (no concurrent change of the content between operations)',
        'File sizes are non-negative; paths are ASCII without separators inside components; listed paths are pairwise distinct',
        'relative File paths do not exist below the current directory (the empty-file filter of filter_files looks there); content trees contain no empty files',
        'glob patterns of the forms *s and *s* (fnmatch translated by hand) and regular expressions of five shapes (escaped literal, literal$, (?i)literal$, ^literal, [class]$) in the model; an invalid regular expression is any text re.compile rejects',
        're.error is the documented exception of the regex filter lists, IndexError that of lst[i] = v; the independent files-follow-filters clause uses patterns that are insensitive to the basepath.parent/filepath prefix quirk of filter_files (the model mirrors the quirk)',
        'slice assignment / deletion on a filter list with non-negative bounds or an open end and step 1; index assignment, pop and insert with any integer; remove() is given an item of the stored type (a compiled pattern for the regex lists)',
        'calculate_piece_size: float log2/pow modelled on integers; compared for sizes < 2^40; the stock method raises OverflowError from 2^1036 bytes (model: floatLimit); listed sizes in [2^40, 2^1036) are not generated',
        'an overriding calculate_piece_size is described by size ranges (a value or an exception per range), independent of the bounds and of history; the error kind of a failing recalculation is compared with the model, it is not judged as an undocumented exception',
        'after an operation that failed inside the recalculation "content has a piece length" is demanded again from the next completed content / piece_size assignment on (C09_inv_recovers); generate() on content without a piece length (ValueError from the hashing loop) is the consequence of that state, not a second deviation; Torrent.pieces (float division) is not compared for sizes >= 2^53',
        'generate() stores the SHA-1 chunks of the current layout (C01) - checked here by an independent re-hash of the files',
        'is_ready ⇒ verify: C02 for the verification itself; here the real verify(path) is run',
    ]
    ctx.notes['trusted_base'] = ['harness/impl/attrs_world.py: projection of the real Torrent and the implementation-side evaluation of C09']
    evaluate_calc(ctx, drv, calc_cases(ctx))
    evaluate(ctx, drv, gen_cases(ctx))
    evaluate2(ctx, drv, gen_cases2(ctx))
    ctx.exhaustive = False


def search(ctx, drv):
    # shrink the first correspondence break to its shortest failing prefix neighbourhood, then
    # spend a larger budget on random histories against the implementation-side specification
    seeds = []
    for b in ctx.corr_breaks[:3]:
        ops = b['case'].get('ops') if isinstance(b['case'], dict) else None
        rules = b['case'].get('rules') if isinstance(b['case'], dict) else None
        if ops:
            for a in ALPHABET:
                seeds.append({'ops': ops + [a], 'src': 'search', 'rules': rules})
                seeds.append({'ops': ops + [{'k': 'generate'}, a], 'src': 'search', 'rules': rules})
                for p in PREFIXES[:2]:
                    seeds.append({'ops': p + ops[-1:] + [a], 'src': 'search', 'rules': rules})
    evaluate2(ctx, drv, [c for c in seeds if _is2(c['ops'])])
    evaluate(ctx, drv, [c for c in seeds if not _is2(c['ops']) and not any(o.get('on') for o in c['ops'])])
    if not ctx.violations:
        evaluate(ctx, drv, [c for c in gen_cases(ctx, scale=2.0) if c['src'] in ('random', 'random-filters', 'random-faults')])


def replay(ctx, drv, rp):
    c = rp['case']
    if 'calc' in c:
        cc = c['calc']
        evaluate_calc(ctx, drv, [(cc['size'], cc['min'], cc['max'])])
    else:
        ctx.findings = []      # a replay reports the raw verdict, known findings do not mask it
        (evaluate2 if _is2(c['ops']) else evaluate)(ctx, drv, [{'ops': c['ops'], 'src': c.get('src', 'replay'), 'rules': c.get('rules')}])
    return {'fails': bool(ctx.violations or ctx.corr_breaks), 'violations': ctx.violations,
            'correspondence_breaks': ctx.corr_breaks}
