"""
C09 — piece hashes never outlive the content layout they were computed for; derived attributes
stay coherent under any history of attribute operations.

Three-way comparison per step of a history of attribute operations on a fresh `Torrent`:
  I  the real object (projection of metainfo/attributes + outcome kind), with property C09
     evaluated on it directly (`attrs_world.spec_check`: bounds, 16 KiB rule, size/mode, piece
     count, stored hashes == fresh SHA-1 of the current layout at the current piece length,
     `is_ready` ⇒ real `verify(path)` is True),
  M  the Lean model `Attrs.apply` (state left behind by raising setters included),
  S  the decidable invariant `Attrs.Inv` evaluated by the driver on the model state,
under the hypothesis `AllOkC` of the theorem `C09_inv_history_corrected` (`hypC`: every operation
satisfies `OpOk`, or is a bound assignment directly followed by a corrective assignment of the same
bound), plus a direct comparison of
`Torrent.calculate_piece_size` with the integer model.
"""
import json
import os

from harness import common
from harness.impl import attrs_world as W

K = W.K
R = W.ROOT

RULE = ('histories of attribute operations (path/files/filepaths setters and list mutations, '
        'glob filter edits, name, piece_size, piece_size_min/max, generate, comment) on a fresh '
        'Torrent over five content trees with the real default bounds: corpus + enumerated '
        '(hash-then-every-pair-of-operations, also from a piece length of 32 MiB under an explicit '
        'maximum followed by a bound reset, and bound-assignment-across-the-other-bound followed by '
        'a re-assignment of that bound) + random (length <= 8 quick, <= 14 thorough); '
        'non-trivial = piece hashes were present before at least one operation other than '
        'generate/comment; distinct = distinct operation sequence.  calculate_piece_size: '
        'boundary sizes of every power of two and threshold, distinct = (size, min, max)')

COMPARE = ['name', 'mode', 'length', 'files', 'path', 'pl', 'pieces', 'pmin', 'pmax', 'exGlobs',
           'inGlobs', 'size', 'numPieces', 'listed', 'filepaths', 'ready', 'comment']

# ---------------------------------------------------------------------------------------------
# known findings: matchers as narrow as the defects


def _eff(v, default):
    return default if v is None else v


def _crossing(op, pre):
    """the bound assignment `op` puts the bound across the other bound of the pre-state"""
    if pre is None:
        return False
    if op['k'] == 'setMin':
        v = _eff(op['v'], W.DEFAULT_MIN)
        return W.mult16(v) and v > pre['pmax']
    if op['k'] == 'setMax':
        v = _eff(op['v'], W.DEFAULT_MAX)
        return W.mult16(v) and v < pre['pmin']
    return False


def match_bound_across(case, observed, finding):
    """D09b: the first deviation of the history is min > max (possibly with the piece length now
    outside the crossed bounds) directly after a bound assignment whose new value lies across
    the other bound of the state before it."""
    codes = set(observed.get('codes', []))
    return ('min>max' in codes and codes <= {'min>max', 'pl<min', 'pl>max'}
            and _crossing(observed['op'], observed.get('pre'))
            and observed['pre']['pmin'] <= observed['pre']['pmax'])


MATCHERS = {
    'bound_assigned_across_other_bound': match_bound_across,
}

# ---------------------------------------------------------------------------------------------
# generators

GLOBS = [['suffix', '.tmp'], ['infix', '/sub/'], ['suffix', 'a'], ['suffix', 'x'],
         ['suffix', '.TMP'], ['infix', 'B']]
PATHS = [R + ['A'], R + ['A'], R + ['B'], R + ['F5'], R + ['F5'], R + ['S'], R + ['E'],
         R + ['A', 'sub'], R + ['A', 'a'], R + ['A', '.hid'], R + ['Z'], None]
FAKE_SIZES = [0, 0, 1, K, 3 * K, 5 * K + 1, 2 ** 23 + 1, 2 ** 30, 2 ** 30 + 1, 8 * 2 ** 30 + 1,
              16 * 2 ** 30 + 1, 2 ** 36 + 5]


def g_files(rng):
    c = rng.random()
    s = lambda: rng.choice(FAKE_SIZES)   # noqa
    if c < 0.08:
        return []
    if c < 0.45:
        return [[['N', 'a'], s()], [['N', 'b'], s()]]
    if c < 0.6:
        return [[['N', 'a'], s()]]
    if c < 0.75:
        return [[['N', 'x', 'a'], s()], [['N', 'x', 'b'], s()], [['N', 'y'], s()]]
    if c < 0.85:
        return [[['N', 'x', 'a'], s()], [['N', 'x', 'b'], s()]]
    if c < 0.9:
        return [[['N', '.h'], s()], [['N', 'b.tmp'], s()], [['N', 'c'], s()]]
    if c < 0.95:
        return [[['N', 'a'], s()], [['M', 'b'], s()]]        # CommonPathError
    return [[['/', 'abs', 'a'], s()], [['N', 'b'], s()]]     # PathError


def g_op(rng, globs, wide=True):
    """one random operation; `globs` = generator-side copy of the two filter lists"""
    c = rng.choice(['setPath', 'setPath', 'setPath', 'setFiles', 'filesDel', 'filesAppend',
                    'filesClear', 'setFilepaths', 'fpDel', 'fpAppend', 'fpClear',
                    'glob', 'glob', 'setName', 'setPieceSize', 'setPieceSize', 'setPieceSize',
                    'setMin', 'setMax', 'generate', 'generate', 'generate', 'setComment'])
    if c == 'setPath':
        p = rng.choice(PATHS if rng.random() < 0.97 else [R + ['big']])
        return {'k': 'setPath', 'p': p}
    if c == 'setFiles':
        return {'k': 'setFiles', 'fs': g_files(rng)}
    if c == 'filesDel':
        return {'k': 'filesDel', 'i': rng.randrange(6)}
    if c == 'filesAppend':
        return {'k': 'filesAppend', 'f': [rng.choice([['N', 'c'], ['A', 'zz'], ['Foo', 'q'], ['N', 'a'], ['F5', 'g']]),
                                          rng.choice([0, 5, K, K])]}
    if c == 'filesClear':
        return {'k': 'filesClear'}
    if c == 'setFilepaths':
        return {'k': 'setFilepaths', 'ps': rng.choice([
            [R + ['A', 'a'], R + ['A', 'b']], [R + ['A']], [R + ['B', 'x'], R + ['A', 'a']],
            [R + ['A', 'sub']], [R + ['S']], [R + ['Z']], [], [R + ['A', 'sub', 'c']],
            [R + ['A', 'a'], R + ['A', 'a']], [R + ['E']], [R + ['F5'], R + ['B']]])}
    if c == 'fpDel':
        return {'k': 'fpDel', 'i': rng.randrange(6)}
    if c == 'fpAppend':
        return {'k': 'fpAppend', 'p': rng.choice([R + ['B', 'x'], R + ['B'], R + ['A', 'sub', 'c'], R + ['S'],
                                                  R + ['Z'], R + ['A', 'a'], R + ['A', '.hid']])}
    if c == 'fpClear':
        return {'k': 'fpClear'}
    if c == 'glob':
        inc = rng.random() < 0.35
        cur = globs[inc]
        kind = rng.choice(['globAppend', 'globAppend', 'globDel', 'globClear', 'globSet'])
        if kind == 'globAppend':
            g = rng.choice(GLOBS)
            if g not in cur:
                cur.append(g)
            return {'k': 'globAppend', 'inc': inc, 'g': g}
        if kind == 'globDel':
            i = rng.randrange(4)
            if cur:
                del cur[i % len(cur)]
            return {'k': 'globDel', 'inc': inc, 'i': i}
        if kind == 'globClear':
            cur.clear()
            return {'k': 'globClear', 'inc': inc}
        # `lst[:] = value` is only modelled for duplicate-free values disjoint from the current list
        cand = [g for g in GLOBS if g not in cur]
        rng.shuffle(cand)
        gs = cand[:rng.randint(0, min(2, len(cand)))]
        cur[:] = gs
        return {'k': 'globSet', 'inc': inc, 'gs': gs}
    if c == 'setName':
        return {'k': 'setName', 'n': rng.choice([None, 'Foo', 'N', 'A'])}
    if c == 'setPieceSize':
        r = rng.random()
        if r < 0.2:
            v = None
        elif r < 0.88:
            v = K * rng.choice([1, 2, 3, 4, 5, 8, 8, 1024])
        elif r < 0.93:
            v = K * 2048
        else:
            v = rng.choice([0, -K, 1000, K + 1, K // 2, 3 * K // 2])
        return {'k': 'setPieceSize', 'v': v}
    if c == 'setMin':
        r = rng.random()
        if r < 0.2:
            v = None
        elif r < 0.85:
            v = K * rng.choice([1, 2, 3, 4])
        elif r < 0.93:
            v = K * rng.choice([8, 2048]) if wide else K * 4
        else:
            v = rng.choice([0, -K, 1000, K // 2, 3 * K // 2])
        return {'k': 'setMin', 'v': v}
    if c == 'setMax':
        r = rng.random()
        if r < 0.2:
            v = None
        elif r < 0.85:
            v = K * rng.choice([4, 8, 1024, 2048, 2048])
        elif r < 0.93:
            v = K * rng.choice([1, 2]) if wide else K * 8
        else:
            v = rng.choice([0, -K, 1000, K // 2, 5 * K // 2])
        return {'k': 'setMax', 'v': v}
    if c == 'generate':
        return {'k': 'generate'}
    return {'k': 'setComment', 'c': rng.choice([None, 'x'])}


def g_history(rng, maxlen):
    n = rng.randint(1, maxlen)
    globs = {False: [], True: []}
    wide = rng.random() < 0.5
    ops = []
    # most histories start by pointing at content so that hashing happens early
    if rng.random() < 0.6:
        ops.append({'k': 'setPath', 'p': rng.choice([R + ['A'], R + ['B'], R + ['F5'], R + ['F5'], R + ['S']])})
        if rng.random() < 0.5:
            ops.append({'k': 'setPieceSize', 'v': K * rng.choice([1, 2, 3, 4])})
        if rng.random() < 0.7:
            ops.append({'k': 'generate'})
    while len(ops) < n:
        ops.append(g_op(rng, globs, wide))
    return ops[:max(n, 1)]


# alphabet of the enumerated part: every operation kind, values chosen to change / keep the piece count
ALPHABET = [
    {'k': 'setPath', 'p': None}, {'k': 'setPath', 'p': R + ['F5']}, {'k': 'setPath', 'p': R + ['B']},
    {'k': 'setPath', 'p': R + ['Z']},
    {'k': 'setFiles', 'fs': [[['N', 'a'], K], [['N', 'b'], 5]]}, {'k': 'setFiles', 'fs': []},
    {'k': 'filesDel', 'i': 0}, {'k': 'filesAppend', 'f': [['F5', 'g'], 5]}, {'k': 'filesClear'},
    {'k': 'setFilepaths', 'ps': [R + ['F5']]}, {'k': 'fpDel', 'i': 0}, {'k': 'fpAppend', 'p': R + ['B', 'x']},
    {'k': 'fpAppend', 'p': R + ['F5', 'f']}, {'k': 'fpClear'},
    {'k': 'globAppend', 'inc': False, 'g': ['suffix', '.tmp']}, {'k': 'globAppend', 'inc': False, 'g': ['suffix', 'f']},
    {'k': 'globAppend', 'inc': True, 'g': ['suffix', 'f']}, {'k': 'globClear', 'inc': False},
    {'k': 'globDel', 'inc': False, 'i': 0},
    {'k': 'setName', 'n': 'Foo'}, {'k': 'setName', 'n': None},
    {'k': 'setPieceSize', 'v': 3 * K}, {'k': 'setPieceSize', 'v': 4 * K}, {'k': 'setPieceSize', 'v': None},
    {'k': 'setPieceSize', 'v': 1000}, {'k': 'setPieceSize', 'v': 2048 * K}, {'k': 'setPieceSize', 'v': 5 * K // 2},
    {'k': 'setMin', 'v': 4 * K}, {'k': 'setMin', 'v': 3 * K}, {'k': 'setMin', 'v': None}, {'k': 'setMin', 'v': 1000}, {'k': 'setMin', 'v': 3 * K // 2},
    {'k': 'setMax', 'v': 2 * K}, {'k': 'setMax', 'v': 3 * K}, {'k': 'setMax', 'v': None}, {'k': 'setMax', 'v': 2048 * K}, {'k': 'setMax', 'v': 7 * K // 2},
    {'k': 'generate'}, {'k': 'setComment', 'c': 'x'},
]
PREFIXES = [
    [{'k': 'setPath', 'p': R + ['F5']}, {'k': 'setPieceSize', 'v': 3 * K}, {'k': 'generate'}],
    [{'k': 'setPath', 'p': R + ['A']}, {'k': 'generate'}],
    [{'k': 'setPath', 'p': R + ['S']}, {'k': 'setPieceSize', 'v': 2 * K}, {'k': 'generate'}],
]


# region of the repaired D09c: a piece length above the class default maximum (32 MiB under an
# explicit maximum of 32 MiB), hashed; every operation, and every operation after a bound reset
BIG_PREFIX = [{'k': 'setMax', 'v': 2048 * K}, {'k': 'setPath', 'p': R + ['F5']},
              {'k': 'setPieceSize', 'v': 2048 * K}, {'k': 'generate'}]
RESETS = [{'k': 'setMax', 'v': None}, {'k': 'setMin', 'v': None}]


def enumerated_big(ctx):
    out = []
    for a in ALPHABET:
        out.append(BIG_PREFIX + [a])
        out.append(BIG_PREFIX[:3] + [a])
        for b in (ALPHABET if ctx.thorough else RESETS):
            out.append(BIG_PREFIX + [a, b])
    for r in RESETS:
        for b in ALPHABET:
            out.append(BIG_PREFIX + [r, b])
            out.append(BIG_PREFIX + [r, {'k': 'generate'}, b])
    return out


def enumerated_corrected(ctx):
    """D09b narrowed: a bound assignment across the other bound, then an assignment of the same
    bound (corrective: None / legal and not crossing; or not: still crossing / illegal value), then
    one more operation - with and without content, piece size and hashes, in both orders"""
    sp = lambda k, v: {'k': k, 'v': v}   # noqa
    setups = [[], [{'k': 'setPath', 'p': R + ['F5']}],
              [{'k': 'setPath', 'p': R + ['F5']}, sp('setPieceSize', 3 * K), {'k': 'generate'}],
              [{'k': 'setPath', 'p': R + ['A']}, {'k': 'generate'}]]
    cross = [
        ([sp('setMax', 2 * K)], sp('setMin', 4 * K),
         [sp('setMin', None), sp('setMin', K), sp('setMin', 2 * K), sp('setMin', 3 * K), sp('setMin', 1000)]),
        ([sp('setMin', 4 * K)], sp('setMax', 2 * K),
         [sp('setMax', None), sp('setMax', 4 * K), sp('setMax', 8 * K), sp('setMax', 3 * K), sp('setMax', 5 * K // 2)]),
        ([sp('setMax', 2048 * K), sp('setMin', 2048 * K)], sp('setMax', None),
         [sp('setMax', 2048 * K), sp('setMax', 4096 * K), sp('setMax', None), sp('setMax', 1024 * K)]),
    ]
    follow = ALPHABET if ctx.thorough else [{'k': 'generate'}, {'k': 'setPath', 'p': R + ['F5']},
                                            sp('setPieceSize', None), {'k': 'setComment', 'c': 'x'}]
    out = []
    for su in setups:
        for pre, x, fixes in cross:
            for f in fixes:
                for a in follow:
                    out.append(su + pre + [x, f, a])
                    if su:
                        out.append(pre + su + [x, f, a])
    return out


def enumerated(ctx):
    out = enumerated_big(ctx) + enumerated_corrected(ctx)
    for a in ALPHABET:
        out.append([a])
        for b in ALPHABET:
            out.append([a, b])
    pre = PREFIXES if ctx.thorough else PREFIXES[:1]
    for p in pre:
        for a in ALPHABET:
            out.append(p + [a])
            for b in ALPHABET:
                out.append(p + [a, b])
                if ctx.thorough and p is PREFIXES[0]:
                    out.append(p + [a, b, {'k': 'generate'}])
    return out


def corpus_cases(ctx):
    out = []
    d = os.path.join(common.CORPUS_DIR, 'C09')
    if os.path.isdir(d):
        for fn in sorted(os.listdir(d)):
            if fn.endswith('.json'):
                j = json.load(open(os.path.join(d, fn)))
                out.append({'ops': j['ops'], 'src': 'corpus:' + fn})
    for f in ctx.open_findings():
        w = f.get('witness', {})
        if 'ops' in w:
            out.append({'ops': w['ops'], 'src': 'witness:' + f['id'], 'witness': f['id']})
    return out


def gen_cases(ctx, scale=1.0):
    cases = corpus_cases(ctx)
    for ops in enumerated(ctx):
        cases.append({'ops': ops, 'src': 'enumerated'})
    maxlen = 14 if ctx.thorough else 8
    for _ in range(int(ctx.n(2600, 110000) * scale)):
        cases.append({'ops': g_history(ctx.rng, maxlen), 'src': 'random'})
    return cases


# ---------------------------------------------------------------------------------------------
# running


def _run_chunk(cases):
    torf = common.import_torf()
    root = W.world_root()
    return [W.run_history(torf, c['ops'], root) for c in cases]


def _diff(model, obs):
    d = {}
    for k in COMPARE:
        if model.get(k) != obs.get(k):
            d[k] = {'model': model.get(k), 'impl': obs.get(k)}
    if W.model_keys(model) != obs['keys']:
        d['info-keys'] = {'model': W.model_keys(model), 'impl': obs['keys']}
    return d


def evaluate(ctx, drv, cases):
    env = W.env_json()
    replies = drv.run([{'op': 'c09.run', 'env': env, 'ops': c['ops']} for c in cases])
    results = common.pmap(_run_chunk, common.split(cases, common.NPROC * 4))
    flat = [r for chunk in results for r in chunk]
    assert len(flat) == len(cases)
    for c, rep, impl in zip(cases, replies, flat):
        ops = c['ops']
        case = {'ops': ops, 'src': c['src']}
        msteps = rep['steps']
        had_pieces = False
        nontrivial = False
        for k, ms in enumerate(msteps):
            pre_pieces = (msteps[k - 1]['state']['pieces'] is not None) if k else False
            if pre_pieces and ops[k]['k'] not in ('generate', 'setComment'):
                nontrivial = True
            had_pieces = had_pieces or pre_pieces
        ctx.case(key=json.dumps(ops, sort_keys=True), nontrivial=nontrivial, kind='history/' + c['src'].split(':')[0])
        ctx.dist['len-%02d' % len(ops)] += 1
        if not rep['initInv']:
            ctx.machinery_error('Inv fails on the initial model state although C09_inv_init is proved', case)
        if impl['init'] is not None and _diff(rep['init'], impl['init']):
            ctx.corr_break('c09.init', case, rep['init'], impl['init'])
            continue
        ctx.sample({'case': case, 'model_last': msteps[-1]['state'] if msteps else None,
                    'impl_last': impl['steps'][-1] if impl['steps'] else None}, limit=4)
        reproduced = False
        for k, st in enumerate(impl['steps']):
            ms = msteps[k]
            op = ops[k]
            ctx.dist['op/' + op['k']] += 1
            if not ms['wf']:
                ctx.machinery_error('generator produced a globSet outside the modelled domain', case)
                break
            if ms['hypC'] and not ms['inv']:
                ctx.machinery_error('model state violates Inv under AllOkC although C09_inv_history_corrected is proved',
                                    {'case': case, 'step': k})
                break
            if st['dev']:
                pre = impl['steps'][k - 1]['obs'] if k else impl['init']
                observed = {'step': k, 'op': op, 'codes': st['dev'], 'res': st['res'], 'pre': pre,
                            'post': st['obs'], 'hyp': ms['hypC']}
                fid = ctx.violation('after operation %d (%s) the torrent violates C09: %s'
                                    % (k, op['k'], ', '.join(st['dev'])),
                                    case, {'no deviation; model state': ms['state'], 'model res': ms['res']},
                                    observed, finding_matchers=MATCHERS)
                reproduced = reproduced or (fid is not None and fid == c.get('witness'))
                # D09b narrowed (C09_inv_corrected_step): if the deviation is the known finding and
                # the next operation re-assigns the same bound correctively (the driver's hypC holds
                # again), the history goes on; the state left by the crossing assignment itself must
                # be the model's (the model mirrors raising setters)
                if (fid is not None and k + 1 < len(impl['steps']) and msteps[k + 1]['hypC']):
                    ctx.dist['crossing-then-corrected'] += 1
                    d = _diff(ms['state'], st['obs'])
                    if ms['res'] != st['res']:
                        d['outcome'] = {'model': ms['res'], 'impl': st['res']}
                    if d:
                        ctx.corr_break('c09.run', {'ops': ops[:k + 1], 'src': c['src']},
                                       {'step': k, 'diff': d, 'state': ms['state'], 'res': ms['res']},
                                       {'step': k, 'state': st['obs'], 'res': st['res']})
                        break
                    continue
                break
            if not ms['hypC']:
                # outside the theorem's hypothesis the implementation met the specification
                ctx.dist['outside-hyp-but-in-spec'] += 1
                continue
            d = _diff(ms['state'], st['obs'])
            if ms['res'] != st['res']:
                d['outcome'] = {'model': ms['res'], 'impl': st['res']}
            if d:
                ctx.corr_break('c09.run', {'ops': ops[:k + 1], 'src': c['src']}, {'step': k, 'diff': d, 'state': ms['state'], 'res': ms['res']},
                               {'step': k, 'state': st['obs'], 'res': st['res']})
                break
            if st['obs']['ready']:
                ctx.dist['ready-and-verified'] += 1
            if op['k'] in ('setMin', 'setMax') and op['v'] is None:
                # region of the repaired D09c: a bound reset with a piece length present (clamp runs)
                pre = impl['steps'][k - 1]['obs'] if k else impl['init']
                if pre and pre.get('pl'):
                    ctx.dist['bound-reset-with-piece-length'] += 1
                    if op['k'] == 'setMax' and pre['pl'] > W.DEFAULT_MAX:
                        ctx.dist['max-reset-clamped-piece-length'] += 1
        if c.get('witness') and not reproduced:
            if c['witness'] not in ctx.not_reproduced:
                ctx.not_reproduced.append(c['witness'])
    # report the shortest failing history
    ctx.violations.sort(key=lambda v: len(v['case'].get('ops', ())) if isinstance(v['case'], dict) else 0)
    ctx.corr_breaks.sort(key=lambda v: len(v['case'].get('ops', ())) if isinstance(v['case'], dict) else 0)


def calc_cases(ctx):
    rng = ctx.rng
    sizes = set()
    for mp in (512, 1024, 1536, 2048):
        for e in range(0, 30):
            for d in (-1, 0, 1):
                s = mp * 2 ** e + d
                if 0 < s < 2 ** 40:
                    sizes.add(s)
    for t in (2 ** 30, 8 * 2 ** 30, 16 * 2 ** 30):
        for d in (-1, 0, 1, 2):
            sizes.add(t + d)
    for s in range(1, 600):
        sizes.add(s)
    for _ in range(ctx.n(1500, 40000)):
        sizes.add(rng.randrange(1, 2 ** rng.randint(1, 40)))
    bounds = [(W.DEFAULT_MIN, W.DEFAULT_MAX), (K, K), (4 * K, 8 * K), (K, 2048 * K), (3 * K, 5 * K),
              (1024 * K, 2048 * K), (8 * K, 2 * K)]
    out = []
    for s in sorted(sizes):
        for b in (bounds if s % 3 == 0 or s < 600 else bounds[:3]):
            out.append((s, b[0], b[1]))
    return out


def evaluate_calc(ctx, drv, cases):
    torf = common.import_torf()
    replies = drv.run([{'op': 'c09.calc', 'size': s, 'min': a, 'max': b} for s, a, b in cases])
    for (s, a, b), r in zip(cases, replies):
        nontriv = a < r['model'] < b
        ctx.case(key=('calc', s, a, b), nontrivial=nontriv, kind='calc')
        case = {'calc': {'size': s, 'min': a, 'max': b}}
        if not r['spec']:
            ctx.machinery_error('calcPieceSize violates its specification although C09_calc_piece_size_spec is proved', case)
            continue
        try:
            got = torf.Torrent.calculate_piece_size(s, min_size=a, max_size=b)
        except Exception as e:  # noqa
            ctx.violation('calculate_piece_size raised ' + type(e).__name__, case, r['model'], repr(e))
            continue
        p2 = got > 0 and got & (got - 1) == 0
        ok = (p2 or got in (a, b)) and (a > b or a <= got <= b) and (a > b or (got % K == 0 and got > 0))
        if not ok or type(got) is not int:
            ctx.violation('calculate_piece_size() is not a power of two / bound within the bounds and a multiple of 16 KiB',
                          case, r['model'], got)
        elif got != r['model']:
            ctx.corr_break('c09.calc', case, r['model'], got)


def run(ctx, drv):
    ctx.notes['rule'] = RULE
    ctx.notes['assumptions'] = [
        'file system = the fixed content world (no concurrent change of the content between operations)',
        'File sizes are non-negative; paths are ASCII without separators inside components; listed paths are pairwise distinct',
        'relative File paths do not exist below the current directory (the empty-file filter of filter_files looks there); content trees contain no empty files',
        'glob patterns of the forms *s and *s* (fnmatch translated by hand); regex filters are not exercised (same code path through _filters_changed)',
        'lst[:] = value on a filter list only with duplicate-free values disjoint from the current list (MonitoredList slice assignment is C16)',
        'calculate_piece_size: float log2/pow modelled on integers; compared for sizes < 2^40',
        'generate() stores the SHA-1 chunks of the current layout (C01) - checked here by an independent re-hash of the files',
        'is_ready ⇒ verify: C02 for the verification itself; here the real verify(path) is run',
    ]
    ctx.notes['trusted_base'] = ['harness/impl/attrs_world.py: projection of the real Torrent and the implementation-side evaluation of C09']
    evaluate_calc(ctx, drv, calc_cases(ctx))
    evaluate(ctx, drv, gen_cases(ctx))
    ctx.exhaustive = False


def search(ctx, drv):
    # shrink the first correspondence break to its shortest failing prefix neighbourhood, then
    # spend a larger budget on random histories against the implementation-side specification
    seeds = []
    for b in ctx.corr_breaks[:3]:
        ops = b['case'].get('ops') if isinstance(b['case'], dict) else None
        if ops:
            for a in ALPHABET:
                seeds.append({'ops': ops + [a], 'src': 'search'})
                seeds.append({'ops': ops + [{'k': 'generate'}, a], 'src': 'search'})
                for p in PREFIXES[:2]:
                    seeds.append({'ops': p + ops[-1:] + [a], 'src': 'search'})
    evaluate(ctx, drv, seeds)
    if not ctx.violations:
        evaluate(ctx, drv, [c for c in gen_cases(ctx, scale=2.0) if c['src'] == 'random'])


def replay(ctx, drv, rp):
    c = rp['case']
    if 'calc' in c:
        cc = c['calc']
        evaluate_calc(ctx, drv, [(cc['size'], cc['min'], cc['max'])])
    else:
        ctx.findings = []      # a replay reports the raw verdict, known findings do not mask it
        evaluate(ctx, drv, [{'ops': c['ops'], 'src': c.get('src', 'replay')}])
    return {'fails': bool(ctx.violations or ctx.corr_breaks), 'violations': ctx.violations,
            'correspondence_breaks': ctx.corr_breaks}
