"""
C06 — the infohash is the SHA-1 of exactly the info bytes that are written; dumps are canonical.

SPEC (checked on the real code with an independent strict bencode parser written in Python):
  for every metainfo m the converter accepts: dump() parses strictly (keys strictly ascending as
  raw bytes, minimal numerals, nothing trailing); the byte span of the value of key `info` in
  dump()/write_stream() output hashes (SHA-1) to `infohash`; b32decode(infohash_base32) is that
  digest; `magnet().xt == 'urn:btih:' + infohash` and str(magnet()) carries it.
CORRESPONDENCE with the Lean model (`ReadStream.dump/infoBytes`, `Base32.*`, `magnetXt`):
  dump bytes / error kind, the bytes fed to SHA-1, the span the model computes, hex/base32/xt
  renderings of the digest.
"""
import base64
import collections
import collections.abc
import datetime
import enum
import hashlib
import io
import itertools
import math
import os
import types

from harness import common
from harness.gen import metainfo as gen
from harness.impl import bencode_strict as bstrict
from harness.impl import pyval

RULE = ('metainfo objects = valid torrents from the C05 grammar turned into Python values (str where UTF-8, '
        'bytes otherwise) with extra fields of every type the converter accepts (str, bytes, int, bool, '
        'float, datetime, tuple/list, nested dict with non-ASCII keys) at top level, in info and in file '
        'entries, plus values it must refuse (None, nan/inf, non-str keys, unrepresentable datetime) and '
        'documents validate() refuses; non-trivial = dump succeeded with validate=True and the document has '
        'a converter-only type (bool/float/datetime/tuple) or a multi-byte / order-sensitive key or a '
        'non-UTF-8 byte string; distinct = distinct dumped bytes. Every document is also written with write_stream() into '
        'fresh and used streams (BytesIO reused for a second export, position in the middle / at the end of longer and '
        'shorter old content, a file opened r+b and read first) and with write() (new file, overwrite of a longer file). '
        'Second stream: valid torrents with one exotic value (generator, map, filter, zip, iterator, reversed, enumerate, '
        'chain, re-iterable non-Collection, dict views, set, frozenset, range, bytearray, memoryview, deque, UserList, '
        'UserDict, mappingproxy, custom Sequence / Mapping / Collection, int / str / bytes subclasses) in info, in a file '
        'entry, nested or at top level, and 2-7 export operations in a random order on ONE Torrent object' + '. '
        'Third stream: histories on ONE Torrent object that comes from Magnet.torrent() (hash in hex / base32, upper / lower case; '
        'no get_info(), or get_info() against a loopback server that serves the matching torrent, another torrent, a torrent '
        'without pieces, garbage or 404, validating or not - so the object carries the stored magnet hash or adopted metadata) '
        'or from Torrent() / read_stream(); then 1-6 stages of edits: info completed key by key / info assigned / whole metainfo '
        'assigned from a generated document, path + generate() on real content, attribute setters (private, source, name, '
        'comment, trackers, webseeds, creation_date, randomize_infohash, piece_size), made invalid again (missing / ill-typed '
        'name, pieces, piece length, length, files; info deleted or no dict; a None / nan value or a 4400-digit int inside info '
        'or at top level; content file grows on disk; path = None), repaired, re-completed, copy(); at every stage all of '
        'infohash, infohash_base32, magnet().xt, magnet(name=False,size=False,trackers=False).xt, str(magnet()), dump(), '
        'dump(validate=False), write_stream(), write() in a random order with repeats; every state (also one that an export '
        'itself produced by changing the metainfo) is judged against the specification and compared with the model, which '
        'carries the stored hash through the history. non-trivial history = some state was written and another one was not '
        'or has a different stored-hash status; distinct = (history seed, profile of its states)' + '. '
        'Edits also happen IN PLACE at every nesting depth: one step (append / insert / item assignment / pop / del / reverse / '
        'sort / extend / clear on lists; set / del / update / setdefault / clear / reorder on dicts; str <-> bytes swap) on a '
        'container chosen among ALL lists / dicts inside the metainfo (file entries, their path lists, extra fields, outside info, '
        'inside tuples), aliasing (one object at two positions) and fork (t = t.copy(), the untouched original is watched). '
        'First stream, additionally: write() of every document in 4 of 26 worlds where the OS refuses or takes fewer bytes '
        '(real RLIMIT_FSIZE = k around the size of dump(), injected ENOSPC after k bytes / EIO at close / EACCES at open, '
        'symlink to a private full-device node (mknod 1,7), existing file without overwrite)' + '. '
        'Keys: 14 % of the first stream gets 1-2 keys that are not plain str keys - the bytes twin of an existing str key (b"info" '
        'next to "info") with another or the same value, other bytes (UTF-8 or not), "" with b"", NFC with NFD, int, bool, None, '
        'tuple, float, 1 with "1", True with "True", a str subclass - at top level, in info, in a file entry or a nested dict, as '
        'the first or the last key; histories merge a torrent decoded by a plain bencode parser (bytes keys) into the metainfo and '
        'set / delete such keys between exports. write() worlds also have prior contents derived from the new content (equal, '
        'proper prefixes, new + 1 / + 2048 bytes / twice, one byte flipped at start / middle / end, same length, the previous '
        'export of the object), with and without overwrite, under fitting and non-fitting size limits')

def _m_magnet_restores_name(case, observed, finding):
    """D06a, as narrow as the defect: a history case; the state was reached because magnet() / str(magnet()) itself added
    exactly the key `name` to info; the only report that disagrees is the one returned by that very call, and it is the
    stored hash of the magnet the object was created from; every other report in the state denotes one (other) hash."""
    if not (isinstance(case, dict) and case.get('kind') == 'history' and case.get('changed_by') in ('magnet', 'magnet_str')):
        return False
    if not isinstance(observed, dict) or observed.get('the export changed') != {'info keys added': ['name'], 'anything else': False}:
        return False
    det, stored = observed.get('detail'), observed.get('stored hash (model)')
    if not (isinstance(det, list) and det and stored and all(isinstance(x, (list, tuple)) and len(x) == 2 for x in det)):
        return False
    first, rest = det[0], det[1:]
    return (first[0] == case['changed_by'] and first[1] == stored and bool(rest)
            and len({d for _, d in rest}) == 1 and rest[0][1] != stored)


MATCHERS = {'magnet_restores_name': _m_magnet_restores_name}


def ekind(e):
    n = type(e).__name__
    return {'MetainfoError': 'metainfo', 'BdecodeError': 'bdecode', 'ReadError': 'read',
            'ValueError': 'value', 'MagnetError': 'magnet', 'WriteError': 'write'}.get(n, 'internal:' + n)


# ------------------------------------------------------------------ case encoding (replayable JSON)
class _StrKey(str):
    """a str subclass used as a dictionary key"""


def enc(v):
    if v is None:
        return {'n': 1}
    if isinstance(v, bool):
        return {'B': v}
    if isinstance(v, int):
        return {'i': pyval._int_str(v)}
    if isinstance(v, float):
        return {'f': v.hex() if math.isfinite(v) else repr(v)}
    if isinstance(v, str):
        return {'S': str(v)} if type(v) is not str else {'s': v}
    if isinstance(v, bytes):
        return {'b': v.hex()}
    if isinstance(v, datetime.datetime):
        return {'D': [v.year, v.month, v.day, v.hour, v.minute, v.second]}
    if isinstance(v, list):
        return {'l': [enc(x) for x in v]}
    if isinstance(v, tuple):
        return {'u': [enc(x) for x in v]}
    if isinstance(v, dict):
        return {'d': [[enc(k), enc(x)] for k, x in v.items()]}
    raise TypeError(type(v))


def dec(j):
    (t, v), = j.items()
    if t == 'n':
        return None
    if t == 'B':
        return bool(v)
    if t == 'i':
        return pyval._str_int(v)
    if t == 'f':
        return float.fromhex(v) if v not in ('nan', 'inf', '-inf') else float(v)
    if t == 's':
        return v
    if t == 'S':
        return _StrKey(v)
    if t == 'b':
        return bytes.fromhex(v)
    if t == 'D':
        return datetime.datetime(*v)
    if t == 'l':
        return [dec(x) for x in v]
    if t == 'u':
        return tuple(dec(x) for x in v)
    if t == 'd':
        return {dec(k): dec(x) for k, x in v}
    raise ValueError(t)


# ------------------------------------------------------------------ generator

def pyify(r, v, key=None, keep_bytes=0.1):
    """bencode value → the Python value torf would hold (str where valid UTF-8)"""
    if isinstance(v, bytes):
        if key == b'pieces':
            return v
        try:
            s = v.decode('utf8')
        except UnicodeDecodeError:
            return v
        return v if (r.random() < keep_bytes and key not in (b'announce', b'md5sum', b'url-list', b'httpseeds')) else s
    if isinstance(v, list):
        out = [pyify(r, x, None, keep_bytes if key not in (b'announce-list', b'url-list') else 0) for x in v]
        return tuple(out) if r.random() < 0.15 else out
    if isinstance(v, dict):
        out = {}
        for k, x in v.items():
            try:
                ks = k.decode('utf8')
            except UnicodeDecodeError:
                ks = k
            out[ks] = pyify(r, x, k, keep_bytes)
        return out
    return v


def rpy(r, depth=0, bad=0.0):
    k = r.random()
    if k < bad:
        return r.choice([None, float('nan'), float('inf'), float('-inf'), {b'k': 1}, {1: 2}, {'a': None},
                         [None], datetime.datetime(1, 1, 1), {('t',): 1}])
    if depth > 3 or k < 0.15:
        return gen.rint(r)
    if k < 0.25:
        return r.random() < 0.5
    if k < 0.4:
        return r.choice([0.0, -0.0, 0.5, -0.5, 1.0, 1.9999, -1.9999, 2.0 ** 53, 2.0 ** 70, 1e300, -1e300, 1e-300,
                         r.uniform(-1e6, 1e6), float(r.randint(-10, 10))])
    if k < 0.55:
        return gen.rtext(r).decode('utf8')
    if k < 0.62:
        return gen.rbytes(r)
    if k < 0.7:
        return datetime.datetime(r.randint(1971, 2100), r.randint(1, 12), r.randint(1, 28), r.randint(0, 23),
                                 r.randint(0, 59), r.randint(0, 59))
    if k < 0.85:
        xs = [rpy(r, depth + 1, bad) for _ in range(r.choice([0, 1, 2, 3]))]
        return tuple(xs) if r.random() < 0.4 else xs
    return {gen.rtext(r, 0, 3).decode('utf8'): rpy(r, depth + 1, bad) for _ in range(r.choice([0, 1, 2, 3]))}


def py_features(v, acc=None):
    if acc is None:
        acc = set()
    if isinstance(v, bool):
        acc.add('bool')
    elif isinstance(v, float):
        acc.add('float')
    elif isinstance(v, datetime.datetime):
        acc.add('datetime')
    elif isinstance(v, tuple):
        acc.add('tuple')
        for x in v:
            py_features(x, acc)
    elif isinstance(v, list):
        for x in v:
            py_features(x, acc)
    elif isinstance(v, bytes):
        try:
            v.decode('utf8')
        except UnicodeDecodeError:
            acc.add('non-utf8-bytes')
    elif isinstance(v, dict):
        ks = [k for k in v if isinstance(k, str)]
        if any(ord(c) > 127 for k in ks for c in k):
            acc.add('multibyte-key')
        u16 = sorted(ks, key=lambda s: s.encode('utf-16-be', 'surrogatepass'))
        if u16 != sorted(ks):
            acc.add('utf16-order-differs')
        for x in v.values():
            py_features(x, acc)
    return acc


BATCH = 2500

# ---- keys of every type a mapping allows.  'info' and b'info' are two keys of Torrent.metainfo and would be ONE key of the
# output; 1 and '1', True and 'True' likewise if keys were str()-ed; 'caf\xe9' and 'cafe\u0301' are two str keys (and two output
# keys) unless somebody normalises.  The converter takes str keys only and raises for everything else; whatever it does, an
# export that returns must have emitted every key of every dict exactly once (checked by _faithful against the strict parser).
KEY_KINDS = ['bytes-twin', 'bytes-twin', 'bytes-twin', 'bytes-twin-same', 'bytes-plain', 'bytes-nonutf8', 'nfc-nfd', 'int', 'bool',
             'none', 'tuple', 'float', 'int-and-str', 'bool-and-str', 'str-subclass', 'empty-bytes-and-str']


def _variant(v):
    """a value of the same shape that encodes differently"""
    import copy
    if isinstance(v, dict):
        w = copy.deepcopy(v)
        if isinstance(w.get('name'), str):
            w['name'] = w['name'] + ' (other)'
        else:
            w['x-other'] = 1
        return w
    if isinstance(v, str):
        return v + 'x'
    if isinstance(v, bytes):
        return v + b'x'
    if isinstance(v, bool):
        return not v
    if isinstance(v, int):
        return v + 1
    if isinstance(v, (list, tuple)):
        return list(v) + ['other']
    return 'other'


def _insert(d, key, value, first):
    """d[key] = value as the last key, or rebuilt so that it is the first one (which of two colliding keys is the later one
    decides who wins in an implementation that merges them)"""
    if not first:
        d[key] = value
        return
    items = [(key, value)] + [(k, v) for k, v in d.items() if not (k == key and type(k) is type(key))]
    d.clear()
    d.update(items)


def add_key_types(r, m):
    """insert 1-2 keys that are not plain str keys (or are twins of one) into the metainfo; returns the list of what was done"""
    import copy
    done = []
    for _ in range(r.choice([1, 1, 2])):
        kind = r.choice(KEY_KINDS)
        info = m.get('info')
        places = [('top', m)]
        if isinstance(info, dict):
            places += [('info', info)] * 2 + [('file', f) for f in info.get('files', []) if isinstance(f, dict)][:1]
            places += [('nested', v) for v in info.values() if isinstance(v, dict)][:1]
        where, d = r.choice(places)
        first = r.random() < 0.4
        val = rpy(r, 2)
        if kind in ('bytes-twin', 'bytes-twin-same'):
            ks = [k for k in d if type(k) is str]
            if not ks:
                continue
            k = 'info' if where == 'top' and 'info' in d and r.random() < 0.7 else r.choice(ks)
            _insert(d, k.encode('utf8', 'surrogatepass'), copy.deepcopy(d[k]) if kind.endswith('same') else _variant(d[k]), first)
        elif kind == 'bytes-plain':
            _insert(d, r.choice([b'bk', b'zz', b'\xc3\xa9']), val, first)
        elif kind == 'bytes-nonutf8':
            _insert(d, r.choice([b'\xff\xfe', b'\x80']), val, first)
        elif kind == 'nfc-nfd':
            _insert(d, 'caf\xe9', val, first)
            _insert(d, 'cafe\u0301', _variant(val), r.random() < 0.5)
        elif kind == 'int':
            _insert(d, r.choice([0, 1, 42, -1]), val, first)
        elif kind == 'bool':
            _insert(d, r.random() < 0.5, val, first)
        elif kind == 'none':
            _insert(d, None, val, first)
        elif kind == 'tuple':
            _insert(d, r.choice([('a',), (), ('info',), (1, 'b')]), val, first)
        elif kind == 'float':
            _insert(d, r.choice([1.0, 0.5]), val, first)
        elif kind == 'int-and-str':
            _insert(d, '1', val, first)
            _insert(d, 1, _variant(val), r.random() < 0.5)
        elif kind == 'bool-and-str':
            _insert(d, 'True', val, first)
            _insert(d, True, _variant(val), r.random() < 0.5)
        elif kind == 'str-subclass':
            _insert(d, _StrKey(r.choice(['sub', 'zz-sub', '\xe9'])), val, first)
        elif kind == 'empty-bytes-and-str':
            _insert(d, '', val, first)
            _insert(d, b'', _variant(val), r.random() < 0.5)
        done.append('%s/%s/%s' % (kind, where, 'first' if first else 'last'))
    return done


def _faithful(mj, pv, path='metainfo'):
    """Independent of the model: does the strictly parsed output `pv` have, for the metainfo `mj` (tagged JSON of the Python
    value), at every dict exactly one entry per key of the Python dict, under the key's bytes, and the leaf values stored under
    those keys?  Returns None or (what, detail).  Key bytes: str -> UTF-8, bytes -> themselves; a key of any other type cannot
    be in an output at all."""
    t = mj.get('t')
    if t == 'd':
        if not isinstance(pv, dict):
            return ('the output has no dictionary where the metainfo has one', path)
        kbs = []
        for k, _ in mj['v']:
            if k.get('t') == 's':
                try:
                    kbs.append(k['v'].encode('utf8'))
                except UnicodeEncodeError:
                    return None
            elif k.get('t') == 'b':
                kbs.append(bytes.fromhex(k['v']))
            else:
                return ('an export returned although the dictionary %s has a key that is neither str nor bytes' % path,
                        {'key': k, 'output keys': [x.hex() for x in pv]})
        dup = sorted({kb for kb in kbs if kbs.count(kb) > 1})
        if dup:
            both = [k for k, _ in mj['v'] if (k['v'].encode('utf8') if k['t'] == 's' else bytes.fromhex(k['v'])) == dup[0]]
            return ('two different keys of the dictionary %s are ONE key in the output: one of the two values is dropped silently'
                    % path, {'keys of the metainfo': both, 'output key': dup[0].hex(), 'entries in the metainfo': len(kbs),
                             'entries in the output': len(pv)})
        if set(kbs) != set(pv):
            return ('the keys of the output are not the keys of the dictionary %s' % path,
                    {'missing in the output': [x.hex() for x in sorted(set(kbs) - set(pv))],
                     'not in the metainfo': [x.hex() for x in sorted(set(pv) - set(kbs))]})
        for (k, v), kb in zip(mj['v'], kbs):
            bad = _faithful(v, pv[kb], '%s[%s]' % (path, repr(k['v']) if k['t'] == 's' else 'bytes ' + k['v']))
            if bad:
                return bad
        return None
    if t in ('l', 'u'):
        if not isinstance(pv, list) or len(pv) != len(mj['v']):
            return ('the output has no list of the same length where the metainfo has one', path)
        for i, (v, x) in enumerate(zip(mj['v'], pv)):
            bad = _faithful(v, x, '%s[%d]' % (path, i))
            if bad:
                return bad
        return None
    try:
        exp = (mj['v'].encode('utf8') if t == 's' else bytes.fromhex(mj['v']) if t == 'b' else pyval._str_int(mj['v']) if t == 'i'
               else int(mj['v']) if t == 'B' else None)
    except UnicodeEncodeError:
        return None
    if exp is not None and (type(pv) is not type(exp) or pv != exp):
        return ('the value emitted at %s is not the value stored there' % path, {'stored': _short(mj, 120), 'emitted': _short(pv, 120)})
    return None


def gen_cases(ctx, n_docs):
    r = ctx.rng
    cases = []
    for _ in range(n_docs):
        k = r.random()
        kind = 'valid'
        bad = 0.0
        opts = {}
        if k < 0.08:
            bad = 0.25
            kind = 'unencodable-values'
        elif k < 0.12:
            opts['badkeys'] = 0.4
            kind = 'bytes-keys'
        elif k < 0.16:
            opts['nopieces'] = True
            kind = 'validate-refuses'
        elif k < 0.30:
            kind = 'key-types'
        md = gen.metainfo(r, opts)
        m = pyify(r, md)
        if 'creation date' in m and r.random() < 0.5:
            try:
                m['creation date'] = datetime.datetime.fromtimestamp(m['creation date'])
            except (ValueError, OverflowError, OSError):
                pass
        if 'private' in m['info'] and r.random() < 0.5:
            m['info']['private'] = bool(m['info']['private'])
        targets = [m, m['info']] + [f for f in m['info'].get('files', []) if isinstance(f, dict)]
        for _ in range(r.choice([0, 1, 2, 3, 4])):
            tgt = r.choice(targets)
            key = gen.rtext(r, 0, 3).decode('utf8')
            if key.encode() in gen.RESERVED_TOP | gen.RESERVED_INFO | {b'path'}:
                continue
            tgt[key] = rpy(r, 0, bad)
        keys = add_key_types(r, m) if kind == 'key-types' else []
        validate = r.random() < 0.85
        cases.append({'m': enc(m), 'validate': validate, 'kind': kind, 'keys': keys, 'worlds': r.sample(WORLDS, 3) + r.sample(DERIVED_WORLDS, 2)})
    return cases


# ------------------------------------------------------------------ real code

def _attempt(f):
    try:
        return {'ok': f()}
    except Exception as e:  # noqa
        return {'err': ekind(e)}


_SEQ = [0]


def written_variants(t, V, content):
    """write_stream() into fresh and *used* streams and write(): the bytes that end up in the stream / file.
    `content` = what dump() returned (only its length is used, to size the old content)."""
    n = len(content)
    out = {}

    def rec(name, f):
        try:
            out[name] = {'ok': f().hex()}
        except Exception as e:  # noqa
            out[name] = {'err': ekind(e)}

    def reused():
        b = io.BytesIO()
        t.write_stream(b, validate=V)             # first export leaves the position at the end
        t.write_stream(b, validate=V)             # second export into the same stream
        return b.getvalue()

    def used(old, pos):
        def f():
            b = io.BytesIO(old)
            b.seek(pos)
            t.write_stream(b, validate=V)
            return b.getvalue()
        return f
    rec('bytesio reused for a second export', reused)
    rec('bytesio with longer old content, position in the middle', used(b'x' * (n + 37), 17))
    rec('bytesio with longer old content, position at the end', used(b'x' * (n + 5), n + 5))
    rec('bytesio with shorter old content, position at the end', used(b'abc', 3))
    rec('bytesio with old content, position 0', used(b'x' * (n + 9), 0))
    _SEQ[0] += 1
    base = os.path.join(common.worker_dir(), 'c06-%d-%d' % (os.getpid(), _SEQ[0]))

    def rplus():
        path = base + '.rplus.torrent'
        with open(path, 'wb') as f:
            f.write(b'd4:old!' + b'y' * (n + 11) + b'e')
        try:
            with open(path, 'r+b') as f:
                f.read()                            # the caller has read the old file through this handle
                t.write_stream(f, validate=V)
            with open(path, 'rb') as f:
                return f.read()
        finally:
            os.unlink(path)

    def wfile(old):
        def f():
            path = base + '.write.torrent'
            if old is not None:
                with open(path, 'wb') as fh:
                    fh.write(old)
            try:
                t.write(path, validate=V, overwrite=True)
                with open(path, 'rb') as fh:
                    return fh.read()
            finally:
                if os.path.exists(path):
                    os.unlink(path)
        return f
    def appended(mode, read_first):
        # a handle opened for appending: seek(0) does not decide where the bytes go (O_APPEND), truncate(0) before the
        # write does - the code's order (seek, truncate, write) leaves exactly the dump (C17_stream_append)
        def f():
            path = base + '.append.torrent'
            with open(path, 'wb') as fh:
                fh.write(b'd4:old!' + b'y' * (n // 2 + 11) + b'e')
            try:
                with open(path, mode) as fh:
                    if read_first:
                        fh.seek(0)
                        fh.read()
                    t.write_stream(fh, validate=V)
                with open(path, 'rb') as fh:
                    return fh.read()
            finally:
                os.unlink(path)
        return f
    rec('file opened r+b, read to the end, then write_stream()', rplus)
    rec('existing file opened ab, then write_stream()', appended('ab', False))
    rec('existing file opened a+b, read to the end, then write_stream()', appended('a+b', True))
    rec('write() to a new file', wfile(None))
    rec('write(overwrite=True) over a longer file', wfile(b'z' * (n + 23)))
    return out


# ------------------------------------------------------------------ write() when the operating system takes fewer bytes than offered
# A world = what is at the path + how the OS answers (C17's Write.Target / Write.Env: "the opened file accepts k bytes").
# k is given relative to the size n of dump(): ['abs', k] | ['frac', f] -> int(n * f) | ['rel', d] -> n + d.
# fsize: a real RLIMIT_FSIZE = k in this worker process with SIGXFSZ ignored (write(2) takes the bytes up to the limit and
#   returns a short count, the next one fails with EFBIG) - independent of how the code opens and writes the file;
# inject-*: open() of the target path is patched (as harness/props/c17.py does): the file object raises ENOSPC after k bytes,
#   EIO at close(), or open() itself raises; devfull: the path is a symlink to /dev/full (every write(2) fails with ENOSPC).
# prior content DERIVED from the new content (an implementation may look at what is there before it writes): the list of
# harness/props/c17.py (equal; proper prefixes; new + 1 byte / + many / twice; one byte flipped at the start / middle / end;
# same length, other bytes) plus the previous export of the same object before an edit of the comment.  In the model these
# are just other values of the node's content: C06_write_exact_or_error quantifies over all of them.
DERIVED_OLD = ['eq', 'prefix:1', 'prefix:half', 'prefix:len-1', 'plus:1', 'plus:many', 'plus:self', 'flip:start', 'flip:mid',
               'flip:end', 'samelen', 'prev']


WORLDS = ([{'w': 'fsize', 'k': k, 'old': old} for k in (['abs', 0], ['abs', 1], ['frac', 0.5], ['rel', -1], ['rel', 0], ['rel', 10])
           for old in (None, 'longer')] +
          [{'w': 'inject-write', 'k': k, 'old': old} for k in (['abs', 0], ['frac', 0.5], ['rel', -1]) for old in (None, 'longer')] +
          [{'w': 'inject-close', 'old': None}, {'w': 'inject-close', 'old': 'longer'}, {'w': 'inject-open', 'old': None},
           {'w': 'devfull'}, {'w': 'exists-no-overwrite', 'old': 'longer'}, {'w': 'exists-no-overwrite', 'old': 'shorter'}])
# no fault at all, the path holds something derived from the new content (overwrite=True); or the same without permission to
# overwrite (WriteError, untouched); or with a size limit that just fits / does not fit / a failing close()
DERIVED_WORLDS = ([{'w': 'overwrite', 'old': old} for old in DERIVED_OLD] +
                  [{'w': 'exists-no-overwrite', 'old': 'eq'}, {'w': 'exists-no-overwrite', 'old': 'plus:1'},
                   {'w': 'fsize', 'k': ['rel', 0], 'old': 'plus:self'}, {'w': 'fsize', 'k': ['frac', 0.5], 'old': 'eq'},
                   {'w': 'fsize', 'k': ['rel', -1], 'old': 'plus:1'}, {'w': 'inject-close', 'old': 'eq'}])
WORLDS = WORLDS + DERIVED_WORLDS
DEFAULT_WORLDS = [{'w': 'fsize', 'k': ['frac', 0.5], 'old': None}, {'w': 'fsize', 'k': ['rel', -1], 'old': 'longer'},
                  {'w': 'fsize', 'k': ['rel', 0], 'old': None}, {'w': 'inject-close', 'old': None},
                  {'w': 'exists-no-overwrite', 'old': 'longer'}, {'w': 'overwrite', 'old': 'plus:1'},
                  {'w': 'overwrite', 'old': 'plus:self'}, {'w': 'overwrite', 'old': 'eq'}, {'w': 'overwrite', 'old': 'flip:end'}]


def _world_k(w, n):
    kind, v = w['k']
    return max(0, v if kind == 'abs' else int(n * v) if kind == 'frac' else n + v)


def _world_old(w, content, prev=None):
    from harness.props import c17 as _c17
    name = w.get('old')
    n = len(content) if content is not None else 50
    if name in (None, 'longer', 'shorter'):
        return {None: None, 'longer': b'z' * (n + 23), 'shorter': b'old'}[name]
    if name == 'prev':
        return prev if prev is not None else _c17.OLD
    return _c17.prior_bytes(name, content if content is not None else _c17.OLD)


def faulty_worlds(t, V, content, worlds):
    """Torrent.write() in every given world: [outcome, what the path holds afterwards (hex | None = nothing | 'special')]"""
    from harness.props import c17 as _c17
    n = len(content) if content is not None else 50              # content: the bytes dump() returned (None: it raised)
    prev = None
    if any(w.get('old') == 'prev' for w in worlds):
        # what this object exported before its comment was edited (an overwrite of the previous version of the same torrent)
        mi, had = t.metainfo, 'comment' in t.metainfo
        saved = mi.get('comment')
        try:
            mi['comment'] = 'previous comment, a little longer than the new one' if not had else 'p'
            prev = _attempt(lambda: t.dump(validate=False)).get('ok')
        finally:
            if had:
                mi['comment'] = saved
            else:
                del mi['comment']
    out = []
    for wi, w in enumerate(worlds):
        _SEQ[0] += 1
        path = os.path.join(common.worker_dir(), 'c06w-%d-%d.torrent' % (os.getpid(), _SEQ[0]))
        old = _world_old(w, content, prev) if w['w'] != 'devfull' else None
        try:
            if w['w'] == 'devfull':
                # a private "full" device node next to the link, never the system's /dev/full: a change under test that
                # resolves the link and removes or replaces its target must not be able to damage the machine
                import stat as _stat
                node = path + '.full-node'
                os.mknod(node, _stat.S_IFCHR | 0o666, os.makedev(1, 7))
                os.symlink(node, path)
            elif old is not None:
                with open(path, 'wb') as fh:
                    fh.write(old)
            ov = w['w'] != 'exists-no-overwrite'
            k = _world_k(w, n) if 'k' in w else None
            fault = {'inject-write': {'kind': 'write', 'k': k}, 'inject-close': {'kind': 'close'},
                     'inject-open': {'kind': 'open', 'errno': 'EACCES'}}.get(w['w'])
            with _c17._PatchedOpen(path, fault), _c17._FsizeLimit(k if w['w'] == 'fsize' else None):
                res = _attempt(lambda: t.write(path, validate=V, overwrite=ov))
            if w['w'] == 'devfull':
                after = 'special'
            elif os.path.exists(path):
                with open(path, 'rb') as fh:
                    after = fh.read().hex()
            else:
                after = None
        finally:
            for q in (path, path + '.full-node'):
                if os.path.lexists(q):
                    os.unlink(q)
        out.append({'result': {'ok': None} if 'ok' in res else res, 'after': after, 'k': k,
                    'old': None if old is None else old.hex()})
    return out


def _world_model_req(w, o):
    """the world as Write.Target / Write.Env of the model"""
    req = {'ov': w['w'] != 'exists-no-overwrite', 'existsAns': o['old'] is not None or w['w'] == 'devfull'}
    req['kind'] = 'other' if w['w'] == 'devfull' else 'file' if o['old'] is not None else 'absent'
    if o['old'] is not None:
        req['node'] = o['old']
    if w['w'] in ('fsize', 'inject-write'):
        req['quota'] = o['k']
    if w['w'] == 'devfull':
        req['quota'] = 0
    if w['w'] == 'inject-close':
        req['closeErr'] = True
    if w['w'] == 'inject-open':
        req['openErr'] = True
    return req


def _old_name(w):
    return {None: 'nothing', 'longer': 'a longer unrelated file', 'shorter': 'a shorter unrelated file', 'eq': 'exactly the new content',
            'prefix:1': 'the first byte of the new content', 'prefix:half': 'the first half of the new content',
            'prefix:len-1': 'the new content without its last byte', 'plus:1': 'the new content followed by one more byte',
            'plus:many': 'the new content followed by 2048 more bytes', 'plus:self': 'the new content twice',
            'flip:start': 'the new content with its first byte changed', 'flip:mid': 'the new content with a byte in the middle changed',
            'flip:end': 'the new content with its last byte changed', 'samelen': 'other bytes of the same length',
            'prev': 'the previous export of this object (before its comment was edited)'}[w.get('old')]


def _world_name(w, o):
    if w['w'] == 'fsize':
        return 'RLIMIT_FSIZE = %d bytes (SIGXFSZ ignored), the path holds: %s' % (o['k'], _old_name(w))
    if w['w'] == 'inject-write':
        return 'the opened file raises ENOSPC after %d bytes, the path holds: %s' % (o['k'], _old_name(w))
    if w['w'] in ('overwrite', 'exists-no-overwrite', 'inject-close'):
        return {'overwrite': 'overwrite=True, no fault', 'exists-no-overwrite': 'overwrite=False',
                'inject-close': 'close() of the opened file raises EIO'}[w['w']] + ', the path holds: ' + _old_name(w)
    return {'inject-close': 'close() of the opened file raises EIO', 'inject-open': 'open() raises EACCES',
            'devfull': 'the path is a symlink to a private full-device node', 'exists-no-overwrite': 'the path holds a file, overwrite=False'}[w['w']]


def _run_chunk(cases):
    torf = common.import_torf()
    out = []
    shared = torf.Torrent()               # ONE object that exports every document of the chunk in turn
    shared.metainfo['info'] = {'name': 'earlier', 'piece length': 16384, 'length': 3, 'pieces': bytes(20)}
    for f in (lambda: shared.infohash, lambda: shared.infohash_base32, lambda: shared.dump(), lambda: shared.magnet()):
        _attempt(f)                       # ... so that also the first document of a chunk (a replayed case) has a past
    for c in cases:
        m = dec(c['m'])
        V = c['validate']
        obs = {'mjson': pyval.to_json(m), 'feats': sorted(py_features(m))}
        t = torf.Torrent()
        t.metainfo.clear()
        t.metainfo.update(m)
        try:
            t.validate()
            obs['vok'] = True
        except Exception:  # noqa
            obs['vok'] = False
        d = _attempt(lambda: t.dump(validate=V))
        obs['dump'] = {'ok': d['ok'].hex()} if 'ok' in d else d

        def ws():
            b = io.BytesIO()
            t.write_stream(b, validate=V)
            return b.getvalue().hex()
        obs['write_stream'] = _attempt(ws)
        if 'ok' in d:
            obs['written'] = written_variants(t, V, d['ok'])
        obs['worlds'] = faulty_worlds(t, V, d.get('ok'), c.get('worlds', DEFAULT_WORLDS))
        obs['infohash'] = _attempt(lambda: t.infohash)
        obs['b32'] = _attempt(lambda: t.infohash_base32.decode('ascii'))
        obs['xt'] = _attempt(lambda: t.magnet().xt)
        obs['magnet_infohash'] = _attempt(lambda: t.magnet().infohash)
        obs['magnet_str'] = _attempt(lambda: str(t.magnet()))
        # history: the same exports on an object that held (and exported) other metainfo before
        shared.metainfo.clear()
        shared.metainfo.update(dec(c['m']))
        first = [('infohash', lambda: shared.infohash), ('dump', lambda: shared.dump(validate=V).hex())]
        if len(out) % 2:
            first.reverse()
        rest = [('b32', lambda: shared.infohash_base32.decode('ascii')), ('xt', lambda: shared.magnet().xt)]
        obs['reused'] = {n: _attempt(f) for n, f in first + rest}
        out.append(obs)
    return out


def evaluate(ctx, drv, cases):
    results = common.pmap(_run_chunk, common.split(cases, common.NPROC * 4))
    obs_all = [o for chunk in results for o in chunk]
    replies = drv.run([{'op': 'c06.export', 'm': o['mjson'], 'vok': o['vok'], 'validate': c['validate']}
                       for c, o in zip(cases, obs_all)])
    hash_reqs = []
    hash_idx = {}
    for i, (c, o, m) in enumerate(zip(cases, obs_all, replies)):
        case = {'m': c['m'], 'validate': c['validate'], 'kind': c['kind'], 'keys': c.get('keys'), 'worlds': c.get('worlds', DEFAULT_WORLDS)}
        dumped = 'ok' in o['dump']
        feats = set(o['feats'])
        nontrivial = dumped and c['validate'] and bool(feats)
        ctx.case(key=o['dump'].get('ok', '')[:4000] if nontrivial else None, nontrivial=nontrivial,
                 kind=c['kind'] + ('/dumped' if dumped else '/refused') + ('' if c['validate'] else '/novalidate'))
        for f in feats:
            ctx.dist['feature:' + f] += 1
        for kk in c.get('keys') or []:
            ctx.dist['key-types/%s/%s' % (kk.split('/')[0], 'exported' if dumped else 'refused')] += 1
        if nontrivial:
            ctx.sample({'case': {'validate': c['validate'], 'kind': c['kind'], 'm': _short(c['m'], 300)},
                        'dump': o['dump']['ok'][:200], 'infohash': o['infohash']})
        # ---------------- specification on the real output
        span = None
        if dumped:
            y = bytes.fromhex(o['dump']['ok'])
            bad = None
            try:
                top, spans = bstrict.strict_parse(y)
            except bstrict.NonCanonical as e:
                bad = ('dump() is not canonical bencoding: %s' % e, o['dump']['ok'][:400])
                top = None
            if bad is None:
                # every key of every dict of the metainfo exactly once in the output, under its own bytes
                kf = _faithful(o['mjson'], top)
                if kf:
                    bad = (kf[0] + ' - dump() is not the encoding of the metainfo the hash is calculated from',
                           {'detail': kf[1], 'infohash': o['infohash'], 'dump': o['dump']['ok'][:300]})
            if bad is None and o['write_stream'] != o['dump']:
                bad = ('write_stream() output differs from dump()', _short(o['write_stream']))
            if bad is None:
                fresh = {'infohash': o['infohash'], 'dump': o['dump'], 'b32': o['b32'], 'xt': o['xt']}
                if o.get('reused', fresh) != fresh:
                    bad = ('a Torrent object that held and exported other metainfo before does not export like a fresh '
                           'object with the same metainfo (infohash / dump / base32 / magnet xt)',
                           {k: [_short(fresh[k], 120), _short(o['reused'][k], 120)] for k in fresh if fresh[k] != o['reused'][k]})
            if bad is None:
                for name, w in sorted(o.get('written', {}).items()):
                    ctx.dist['written/' + name] += 1
                    if w != o['dump']:
                        bad = ('the bytes written (%s) are not the dump(): the stream / file does not carry the info '
                               'dictionary whose SHA-1 is the infohash' % name,
                               {'variant': name, 'written': _short(w, 300), 'dump': o['dump']['ok'][:120],
                                'strict parser on the written bytes': _diagnose(w)})
                        break
            if bad is None and isinstance(top, dict) and b'info' in top:
                span = spans[id(top)][b'info']
                digest = hashlib.sha1(y[span[0]:span[1]]).digest()
                if 'ok' in o['infohash']:
                    ih = o['infohash']['ok']
                    if ih != digest.hex():
                        bad = ('infohash is not the SHA-1 of the info span of the dumped bytes',
                               {'infohash': ih, 'sha1(span)': digest.hex(), 'span': span})
                    elif 'ok' not in o['b32'] or base64.b32decode(o['b32']['ok']) != digest:
                        bad = ('infohash_base32 does not decode to the infohash', o['b32'])
                    elif o['xt'].get('err', 'magnet') != 'magnet':
                        # magnet() could not be built for a reason unrelated to the hash (e.g. a URL the
                        # Magnet class refuses): no claim of C06; counted, never silent
                        ctx.dist['magnet-unavailable:' + o['xt']['err']] += 1
                    elif o['xt'] != {'ok': 'urn:btih:' + ih} or o['magnet_infohash'] != {'ok': ih}:
                        bad = ('magnet xt does not carry the infohash', [o['xt'], o['magnet_infohash']])
                    elif 'ok' not in o['magnet_str'] or not o['magnet_str']['ok'].startswith('magnet:?xt=urn:btih:' + ih):
                        bad = ('str(magnet()) does not carry the infohash', o['magnet_str'])
                elif c['validate']:
                    bad = ('dump(validate=True) succeeded but infohash raised', o['infohash'])
            elif bad is None and c['validate']:
                bad = ('dump(validate=True) output has no info dictionary', o['dump']['ok'][:200])
            if bad:
                ctx.violation(bad[0], case, 'canonical dump; infohash == sha1(info span) == magnet/base32 hash',
                              bad[1], finding_matchers=MATCHERS)
                continue
        else:
            if o['dump']['err'] != 'metainfo':
                ctx.violation('dump() raised an undocumented error', case, 'MetainfoError', o['dump'],
                              finding_matchers=MATCHERS)
                continue
        # ---------------- model vs specification (theorems C06_canonical / C06_span)
        if m['hyp'] and not m['canon']:
            ctx.machinery_error('model dump is not canonical (contradicts C06_canonical)', case)
            continue
        # ---------------- correspondence
        if m['dump'] != o['dump']:
            ctx.corr_break('c06.export/dump', case, _short(m['dump']), _short(o['dump']))
            continue
        mib = m['infoBytes']
        if 'ok' in mib:
            if 'ok' not in o['infohash'] or hashlib.sha1(bytes.fromhex(mib['ok'])).hexdigest() != o['infohash']['ok']:
                ctx.corr_break('c06.export/infohash', case, _short(mib), o['infohash'])
                continue
            if dumped and span is not None:
                if m['span'] != [span[0], span[1] - span[0]] or mib['ok'] != o['dump']['ok'][2 * span[0]:2 * span[1]]:
                    ctx.corr_break('c06.export/span', case, m['span'], list(span))
                    continue
            hash_idx[len(hash_reqs)] = (case, o)
            hash_reqs.append({'op': 'c06.hash', 'digest': hashlib.sha1(bytes.fromhex(mib['ok'])).hexdigest()})
        elif mib != o['infohash']:
            ctx.corr_break('c06.export/infohash', case, mib, o['infohash'])
    evaluate_worlds(ctx, drv, cases, obs_all)
    # digest renderings
    r = ctx.rng
    extra = [bytes(r.randrange(256) for _ in range(20)) for _ in range(ctx.n(200, 5000))]
    extra += [b'\x00' * 20, b'\xff' * 20, bytes(range(20))]
    for j, hr in enumerate(drv.run(hash_reqs + [{'op': 'c06.hash', 'digest': d.hex()} for d in extra])):
        if j < len(hash_reqs):
            case, o = hash_idx[j]
            d = bytes.fromhex(hash_reqs[j]['digest'])
            impl = {'hex': o['infohash'].get('ok'), 'b32': o['b32'].get('ok'), 'xt': o['xt']}
            if o['xt'].get('err', 'magnet') != 'magnet':
                impl['xt'] = hr['xt']
        else:
            d = extra[j - len(hash_reqs)]
            case = {'digest': d.hex()}
            impl = {'hex': d.hex(), 'b32': base64.b32encode(base64.b16decode(d.hex().upper())).decode(),
                    'xt': {'ok': 'urn:btih:' + d.hex()}}
            ctx.case(kind='digest-rendering')
        model = {'hex': hr['hex'], 'b32': hr['b32'], 'xt': hr['xt']}
        if hr['b32dec'] != d.hex() or hr['unhex'] != d.hex():
            ctx.machinery_error('model base32/base16 round trip fails (contradicts C06_base32)', case)
        elif model != impl:
            ctx.corr_break('c06.hash', case, model, impl)
    # base32 of arbitrary lengths against the standard library (model of base64.b32encode/b32decode)
    xs = [bytes(r.randrange(256) for _ in range(r.randint(0, 23))) for _ in range(ctx.n(300, 5000))]
    for x, br in zip(xs, drv.run([{'op': 'c06.b32', 'x': x.hex()} for x in xs])):
        ctx.case(kind='b32-stdlib')
        if br['enc'] != base64.b32encode(x).decode() or br['dec'] != x.hex():
            ctx.corr_break('c06.b32', {'x': x.hex()}, br, base64.b32encode(x).decode())


def evaluate_worlds(ctx, drv, cases, obs_all):
    """write() in worlds where the OS refuses or takes only part of the bytes: a normal return means the file holds exactly
    dump()'s bytes (hence the info span whose SHA-1 is the infohash); anything else is WriteError (MetainfoError with the path
    untouched if dump() fails).  Implementation vs specification, model vs specification, implementation vs model."""
    idx = [i for i, o in enumerate(obs_all) if o.get('worlds')]
    reqs = []
    for i in idx:
        c, o = cases[i], obs_all[i]
        ws = c.get('worlds', DEFAULT_WORLDS)
        reqs.append({'op': 'c06.write', 'm': o['mjson'], 'vok': o['vok'], 'validate': c['validate'],
                     'worlds': [_world_model_req(w, wo) for w, wo in zip(ws, o['worlds'])]})
    for i, rep_ in zip(idx, _drv_par(drv, reqs)):
        c, o = cases[i], obs_all[i]
        ws = c.get('worlds', DEFAULT_WORLDS)
        case = {'m': c['m'], 'validate': c['validate'], 'kind': c['kind'], 'worlds': ws}
        dump = o['dump']
        for w, wo, wm in zip(ws, o['worlds'], rep_['worlds']):
            name = _world_name(w, wo)
            res = wo['result']
            ctx.dist['write-world/%s/%s' % (w['w'], 'ok' if 'ok' in res else res['err'])] += 1
            ctx.case(kind='write-world/' + w['w'])
            bad = None
            if 'ok' in res:
                if 'ok' not in dump:
                    bad = ('write() returned normally although dump() raises', dump)
                elif wo['after'] != 'special' and wo['after'] != dump['ok']:
                    a = wo['after']
                    bad = ('write() returned normally but the file does not hold the bytes of dump(): %s - the info dictionary '
                           'whose SHA-1 is the infohash is not in the written file'
                           % ('no file' if a is None else 'the first %d of %d bytes' % (len(a) // 2, len(dump['ok']) // 2)
                              if dump['ok'].startswith(a) else 'other content (%d bytes)' % (len(a) // 2)),
                           {'file': _short(a, 200), 'dump': _short(dump['ok'], 200), 'infohash': o['infohash'],
                            'strict parser on the file': _diagnose({'ok': a} if a is not None else {'err': 'no file'})})
            elif 'ok' in dump and res['err'] != 'write':
                bad = ('write() raised something else than WriteError although dump() succeeds', res)
            elif 'ok' not in dump and (res['err'] not in ('metainfo', 'write') or (wo['after'] != 'special' and wo['after'] != wo['old'])):
                # (WriteError is admissible: without overwrite an existing path is refused before dump() is even called;
                #  which of the two it is, is pinned by the comparison with the model below)
                bad = ('dump() raises MetainfoError: write() must raise MetainfoError / WriteError and leave the path as it was',
                       {'result': res, 'before': _short(wo['old'], 80), 'after': _short(wo['after'], 80)})
            if bad:
                ctx.violation(bad[0] + ' [world: %s]' % name, dict(case, world=w), 'write() returns normally => the file holds '
                              'exactly dump() (theorems C06_write_exact_or_error, C06_written_file); otherwise WriteError '
                              '(C06_write_short_is_error)', bad[1], finding_matchers=MATCHERS)
                break
            if rep_['hyp'] and not wm['specOk']:
                ctx.machinery_error('model write() returns normally without the dump in the file (contradicts '
                                    'C06_write_exact_or_error)', dict(case, world=w))
                break
            if rep_['hyp'] and wm['result'] != res:
                ctx.corr_break('c06.write/result', dict(case, world=w), {'world': name, 'model': wm['result']}, res)
                break
            if rep_['hyp'] and 'ok' in res and wo['after'] != 'special' and wm['after'] != wo['after']:
                ctx.corr_break('c06.write/file', dict(case, world=w), _short(wm['after'], 200), _short(wo['after'], 200))
                break


# ------------------------------------------------------------------ exotic values, several exports of ONE torrent
class _Seq(collections.abc.Sequence):
    def __init__(self, xs):
        self.xs = list(xs)

    def __getitem__(self, i):
        return self.xs[i]

    def __len__(self):
        return len(self.xs)


class _Map(collections.abc.Mapping):
    def __init__(self, d):
        self.d = dict(d)

    def __getitem__(self, k):
        return self.d[k]

    def __iter__(self):
        return iter(self.d)

    def __len__(self):
        return len(self.d)


class _Coll(collections.abc.Collection):
    def __init__(self, xs):
        self.xs = list(xs)

    def __contains__(self, x):
        return x in self.xs

    def __iter__(self):
        return iter(self.xs)

    def __len__(self):
        return len(self.xs)


class _ReIterable:
    """iterable again and again, but neither Sequence nor Collection"""
    def __init__(self, xs):
        self.xs = list(xs)

    def __iter__(self):
        return iter(self.xs)


class _Color(enum.IntEnum):
    RED = 1


class _Str(str):
    pass


class _Bytes(bytes):
    pass


def _hashable(xs):
    return [x for x in xs if isinstance(x, (int, str, bytes))]


def _gen(xs):
    for x in xs:
        yield x


# kind -> constructor from a list of plain items.  The first group are one-shot iterators (consumed by iterating).
EXOTIC = collections.OrderedDict([
    ('generator', lambda xs: _gen(xs)),
    ('genexpr', lambda xs: (x for x in xs)),
    ('map', lambda xs: map(lambda x: x, xs)),
    ('filter', lambda xs: filter(lambda x: True, xs)),
    ('zip', lambda xs: zip(xs, xs)),
    ('list_iterator', lambda xs: iter(xs)),
    ('reversed', lambda xs: reversed(xs)),
    ('enumerate', lambda xs: enumerate(xs)),
    ('chain', lambda xs: itertools.chain(xs, xs[:1])),
    ('islice', lambda xs: itertools.islice(xs, 0, None)),
    ('dict_keyiterator', lambda xs: iter({'k%d' % i: x for i, x in enumerate(xs)})),
    ('reiterable', lambda xs: _ReIterable(xs)),
    ('dict_keys', lambda xs: {'k%d' % i: x for i, x in enumerate(xs)}.keys()),
    ('dict_values', lambda xs: {'k%d' % i: x for i, x in enumerate(xs)}.values()),
    ('dict_items', lambda xs: {'k%d' % i: x for i, x in enumerate(xs)}.items()),
    ('set', lambda xs: set(_hashable(xs))),
    ('frozenset', lambda xs: frozenset(_hashable(xs))),
    ('range', lambda xs: range(len(xs))),
    ('bytearray', lambda xs: bytearray(b'ab\x00\xff'[:len(xs) + 1])),
    ('memoryview', lambda xs: memoryview(b'mv\x00\xff'[:len(xs) + 1])),
    ('deque', lambda xs: collections.deque(xs)),
    ('userlist', lambda xs: collections.UserList(xs)),
    ('userdict', lambda xs: collections.UserDict({'k%d' % i: x for i, x in enumerate(xs)})),
    ('ordereddict', lambda xs: collections.OrderedDict(('k%d' % (len(xs) - i), x) for i, x in enumerate(xs))),
    ('mappingproxy', lambda xs: types.MappingProxyType({'k%d' % i: x for i, x in enumerate(xs)})),
    ('custom_sequence', lambda xs: _Seq(xs)),
    ('custom_mapping', lambda xs: _Map({'k%d' % i: x for i, x in enumerate(xs)})),
    ('custom_collection', lambda xs: _Coll(xs)),
    ('intenum', lambda xs: _Color.RED),
    ('str_subclass', lambda xs: _Str('text')),
    ('bytes_subclass', lambda xs: _Bytes(b'by')),
])
ONE_SHOT = ['generator', 'genexpr', 'map', 'filter', 'zip', 'list_iterator', 'reversed', 'enumerate', 'chain', 'islice',
            'dict_keyiterator']
EXPORTS = ['infohash', 'b32', 'magnet', 'magnet_str', 'dump', 'write_stream', 'write']


def plain(v):
    """The value a re-iterable exotic object stands for, by the converter's documented dispatch (str, float, bool,
    Mapping -> dict, Sequence/Collection -> list); never iterates anything that is not a Collection, so one-shot
    iterators stay what they are (PyVal.other in the model: 'Invalid value')."""
    if type(v) in (bytes, int, bool, float) or v is None:
        return v
    if isinstance(v, str):
        return str(v)
    if isinstance(v, float):
        return float(v)
    if isinstance(v, int):
        return _ReIterable([])            # int subclass: no converter applies -> other
    if isinstance(v, collections.abc.Mapping):
        return {k: plain(x) for k, x in v.items()}
    if isinstance(v, (collections.abc.Sequence, collections.abc.Collection)):
        out = [plain(x) for x in v]
        return tuple(out) if type(v) is tuple else out
    return v


def _items(r):
    k = r.random()
    if k < 0.1:
        return []
    pool = ['a', 'b', 'tracker-less', 'é', 1, 0, -7, 2 ** 40, b'raw', b'\xff', 'org.example.collection']
    xs = [r.choice(pool) for _ in range(r.randint(1, 4))]
    if r.random() < 0.25:
        xs.append([r.choice(pool), {'k': r.choice(pool)}])
    return xs


def exotic_cases(ctx, n):
    r = ctx.rng
    cases = []
    kinds = list(EXOTIC)
    fixed = [('generator', ['info', 'collections'], ['org.example.a', 'org.example.b'], ['infohash', 'dump']),
             ('map', ['info', 'collections'], ['a'], ['dump', 'infohash']),
             ('filter', ['info', 'x'], ['a', 1], ['infohash', 'b32']),
             ('zip', ['top', 'x'], ['a'], ['dump', 'write_stream']),
             ('list_iterator', ['info', 'similar'], [b'\x01' * 20], ['magnet', 'infohash', 'write'])]
    for i in range(n):
        if i < len(fixed):
            kind, path, items, order = fixed[i]
            where = path
        else:
            kind = r.choice(ONE_SHOT) if r.random() < 0.45 else r.choice(kinds)
            items = _items(r)
            key = r.choice(['collections', 'similar', 'x', 'zz', 'é', ''])
            where = r.choice([['info', key], ['info', key], ['top', key], ['file', key], ['info', key, 'nested'],
                              ['info', key, 'listed']])
            order = [r.choice(EXPORTS) for _ in range(r.randint(2, 7))]
        md = gen.metainfo(r, {})
        m = pyify(r, md, keep_bytes=0)
        cases.append({'kind': 'exotic', 'm': enc(m), 'exotic': {'kind': kind, 'items': enc(items)}, 'where': where,
                      'order': order, 'validate': True,
                      'py': "%s = %s(%r)" % (''.join('[%r]' % w for w in where), kind, items)})
    return cases


def _place(m, where, v):
    """put v into the metainfo; returns False if the document has no such place"""
    tgt = m if where[0] == 'top' else m.get('info')
    if where[0] == 'file':
        files = [f for f in (m.get('info') or {}).get('files', []) if isinstance(f, dict)] if isinstance(m.get('info'), dict) else []
        if not files:
            tgt = m.get('info')
        else:
            tgt = files[0]
    if not isinstance(tgt, dict):
        return False
    key = where[1]
    if where[0] == 'top' and key in ('info', 'announce', 'announce-list', 'url-list', 'httpseeds', 'creation date',
                                     'comment', 'created by', 'encoding'):
        key = 'x-' + key
    if where[0] != 'top' and key.encode() in gen.RESERVED_INFO | {b'path', b'length'}:
        key = 'x-' + key
    if len(where) > 2:
        v = {'inner': v} if where[2] == 'nested' else ['first', v]
    tgt[key] = v
    return True


def _run_exotic_chunk(cases):
    torf = common.import_torf()
    out = []
    for ci, c in enumerate(cases):
        m = dec(c['m'])
        items = dec(c['exotic']['items'])
        v = EXOTIC[c['exotic']['kind']](items)
        if not _place(m, c['where'], v):
            out.append({'skipped': True})
            continue
        obs = {'mjson': pyval.to_json(plain(m)), 'type': type(v).__name__}
        t = torf.Torrent()
        t.metainfo.clear()
        t.metainfo.update(m)
        try:
            t.validate()
            obs['vok'] = True
        except Exception:  # noqa
            obs['vok'] = False

        def ws():
            b = io.BytesIO()
            t.write_stream(b, validate=True)
            return b.getvalue().hex()

        def wr():
            path = os.path.join(common.worker_dir(), 'c06x-%d-%d.torrent' % (os.getpid(), ci))
            try:
                t.write(path, validate=True, overwrite=True)
                with open(path, 'rb') as f:
                    return f.read().hex()
            finally:
                if os.path.exists(path):
                    os.unlink(path)
        ops = {'infohash': lambda: t.infohash, 'b32': lambda: t.infohash_base32.decode('ascii'),
               'magnet': lambda: t.magnet().xt, 'magnet_str': lambda: str(t.magnet()),
               'dump': lambda: t.dump(validate=True).hex(), 'write_stream': ws, 'write': wr}
        obs['results'] = [[name, _attempt(ops[name])] for name in c['order']]
        out.append(obs)
    return out


def evaluate_exotic(ctx, drv, cases):
    results = common.pmap(_run_exotic_chunk, common.split(cases, common.NPROC * 4))
    pairs = [(c, o) for c, o in zip(cases, [o for ch in results for o in ch]) if not o.get('skipped')]
    replies = drv.run([{'op': 'c06.export', 'm': o['mjson'], 'vok': o['vok'], 'validate': True} for c, o in pairs])
    for (c, o), m in zip(pairs, replies):
        case = {k: c[k] for k in ('kind', 'm', 'exotic', 'where', 'order', 'validate', 'py')}
        res = o['results']
        oks = [(n, r['ok']) for n, r in res if 'ok' in r]
        errs = [(n, r['err']) for n, r in res if 'err' in r]
        written = [(n, x) for n, x in oks if n in ('dump', 'write_stream', 'write')]
        accepted = bool(written)
        ctx.case(key=('x', c['exotic']['kind'], tuple(c['where']), tuple(c['order']), written[0][1][:2000] if written else None),
                 nontrivial=True, kind='exotic/%s/%s' % (c['exotic']['kind'], 'exported' if accepted else 'hash-only' if oks else 'refused'))
        if ctx.dist['sampled-exotic'] < 2 and (accepted or ctx.dist['sampled-exotic'] == 0):
            ctx.dist['sampled-exotic'] += 1
            ctx.sample({'case': {k: case[k] for k in ('py', 'order')}, 'results': [[n, _short(r, 90)] for n, r in res]}, limit=8)
        # ---------------- the property on what the implementation did (implementation vs specification)
        bad = None
        digests = []                      # (operation, the 20-byte digest it reports, as hex)
        for n, x in oks:
            try:
                if n == 'infohash':
                    digests.append((n, x if len(x) == 40 and x == x.lower() else 'malformed:' + x))
                elif n == 'b32':
                    digests.append((n, base64.b32decode(x).hex()))
                elif n == 'magnet':
                    digests.append((n, x[len('urn:btih:'):] if x.startswith('urn:btih:') else 'malformed:' + x))
                elif n == 'magnet_str':
                    digests.append((n, x[len('magnet:?xt=urn:btih:'):][:40] if x.startswith('magnet:?xt=urn:btih:') else 'malformed:' + x))
            except Exception as e:  # noqa
                digests.append((n, 'malformed:%r' % (x,)))
        other = [(n, e) for n, e in errs if e != 'metainfo' and not (n in ('magnet', 'magnet_str') and e != 'magnet')]
        for n, e in errs:
            if n in ('magnet', 'magnet_str') and e not in ('metainfo', 'magnet'):
                ctx.dist['magnet-unavailable:' + e] += 1
        if other:
            bad = ('an export operation raised an undocumented error', other)
        if bad is None and len({x for _, x in written}) > 1:
            bad = ('dump() / write_stream() / write() of one unchanged Torrent object produced different bytes', _short(written, 500))
        if bad is None and len({d for _, d in digests}) > 1:
            bad = ('infohash, infohash_base32 and the magnet link of one unchanged Torrent object denote different hashes',
                   digests)
        if bad is None and written:
            y = bytes.fromhex(written[0][1])
            try:
                top, spans = bstrict.strict_parse(y)
                if not (isinstance(top, dict) and b'info' in top):
                    bad = ('written bytes have no info dictionary', written[0][1][:200])
                else:
                    a, b = spans[id(top)][b'info']
                    d = hashlib.sha1(y[a:b]).hexdigest()
                    wrong = [(n, x) for n, x in digests if x != d]
                    if wrong:
                        bad = ('the reported infohash is not the SHA-1 of the info span of the bytes that were written',
                               {'sha1(info span of %s)' % written[0][0]: d, 'reported': digests,
                                'info span': y[a:b][:300]})
                    elif not digests and any(n in ('infohash', 'b32') for n, _ in errs):
                        bad = ('the torrent was written but its infohash cannot be read', errs)
            except bstrict.NonCanonical as e:
                bad = ('written bytes are not canonical bencoding: %s' % e, written[0][1][:400])
        if bad:
            ctx.violation(bad[0] + ' [exports in this order on one Torrent: %s]' % ', '.join(c['order']), case,
                          'every export raises MetainfoError, or all exports agree: one byte string, canonical, '
                          'sha1(info span) == infohash == b32decode(infohash_base32) == magnet xt',
                          {'detail': bad[1], 'results': [[n, _short(r, 200)] for n, r in res]}, finding_matchers=MATCHERS)
            continue
        # ---------------- correspondence with the model on the value the object stands for
        if m['hyp'] and not m['canon']:
            ctx.machinery_error('model dump is not canonical (contradicts C06_canonical)', case)
            continue
        for n, x in written:
            if m['dump'] != {'ok': x}:
                ctx.corr_break('c06.export/exotic-dump', case, _short(m['dump']), _short({n: x}))
                break
        else:
            werrs = [(n, e) for n, e in errs if n in ('dump', 'write_stream', 'write')]
            if werrs and m['dump'] != {'err': werrs[0][1]}:
                ctx.corr_break('c06.export/exotic-dump', case, _short(m['dump']), werrs[0])
                continue
            mib = m['infoBytes']
            for n, d in digests:
                if 'ok' not in mib or hashlib.sha1(bytes.fromhex(mib['ok'])).hexdigest() != d:
                    ctx.corr_break('c06.export/exotic-infohash', case, _short(mib), [n, d])
                    break
            else:
                ierrs = [(n, e) for n, e in errs if n in ('infohash', 'b32')]
                if ierrs and mib != {'err': ierrs[0][1]}:
                    ctx.corr_break('c06.export/exotic-infohash', case, _short(mib), ierrs[0])


# ------------------------------------------------------------------ histories on ONE Torrent that comes from Magnet.torrent()
# The object state that matters here is (metainfo, _infohash).  `Magnet.torrent()` stores the magnet's hash on the new
# object unless metadata was downloaded (get_info); Torrent.infohash may only fall back to it when the hash cannot be
# calculated.  Model: ReadStream.infohashOf / Obj.run, theorems C06_explicit_span_validated, C06_history,
# C06_explicit_iff, C06_incalculable_iff.
H_EXPORTS = ['infohash', 'b32', 'magnet', 'magnet_min', 'magnet_str', 'dump', 'dump_nv', 'write_stream', 'write']
H_VALIDATED = ('dump', 'write_stream', 'write')
H_HASHES = ('infohash', 'b32', 'magnet', 'magnet_min', 'magnet_str')
BIG_S = '1' + '0' * 4400              # an int with more digits than int -> str conversion allows: bencoding raises ValueError


def _hdoc(r, case, i):
    """the i-th document of a history case as Python values (deterministic in the case)"""
    import random
    return pyify(random.Random(case['seed'] * 7 + i), dec(case['docs'][i]), keep_bytes=0)


def _own_hash(bdoc):
    """SHA-1 of the canonical bencoding of the document's info dictionary (independent serialiser)"""
    return hashlib.sha1(bstrict.ser(bdoc[b'info'])).hexdigest()


INVALIDATE = [
    ['del-info', 'pieces'], ['del-info', 'name'], ['del-info', 'piece length'], ['del-info', 'length'],
    ['del-info', 'files'], ['set-info', 'piece length', {'i': '0'}], ['set-info', 'piece length', {'i': '1000'}],
    ['set-info', 'piece length', {'s': '16384'}], ['set-info', 'pieces', {'b': ''}], ['set-info', 'pieces', {'b': '78' * 19}],
    ['set-info', 'name', {'i': '5'}], ['set-info', 'length', {'i': '7'}], ['set-info', 'files', {'l': []}],
    ['set-info', 'x-none', {'n': 1}], ['set-info', 'x-nan', {'f': 'nan'}],
    ['set-top', 'x-none', {'n': 1}], ['set-top', 'announce', {'i': '5'}],
    ['set-top', 'info', {'l': [{'i': '1'}]}], ['del-top', 'info'], ['attr', 'piece_size', {'i': '32768'}],
    ['path-none'], ['touch-content'],
]
# validate() accepts, the converter accepts, bencoding raises ValueError (in info: the hash cannot be calculated; at top level:
# the hash can be calculated but nothing can be written).  Rare: the 4400-digit numeral is slow in the model.
INVALIDATE_BIG = [['set-info', 'x-big', {'i': BIG_S}], ['set-top', 'x-big', {'i': BIG_S}]]
REPAIR = [['del-info', 'x-none'], ['del-info', 'x-big'], ['del-info', 'x-nan'], ['del-top', 'x-none'], ['del-top', 'x-big'],
          ['del-top', 'announce'], ['regenerate']]
ATTRS = [['attr', 'private', {'B': True}], ['attr', 'private', {'B': False}], ['attr', 'private', {'n': 1}],
         ['attr', 'source', {'s': 'src'}], ['attr', 'source', {'n': 1}], ['attr', 'name', {'s': 'renamed'}],
         ['attr', 'comment', {'s': 'c\xe9'}], ['attr', 'comment', {'n': 1}], ['attr', 'randomize_infohash', {'B': True}],
         ['attr', 'randomize_infohash', {'B': False}], ['attr', 'created_by', {'s': 'me'}],
         ['attr', 'trackers', {'l': [{'l': [{'s': 'http://a.example/x'}]}]}], ['attr', 'trackers', {'n': 1}],
         ['attr', 'webseeds', {'l': [{'s': 'http://w.example/f'}]}],
         ['attr', 'creation_date', {'D': [2020, 2, 3, 4, 5, 6]}], ['attr', 'creation_date', {'n': 1}],
         ['set-info', 'x-extra', {'l': [{'B': True}, {'s': '\xe9'}]}], ['set-top', 'x-extra', {'d': [[{'s': 'k'}, {'i': '1'}]]}],
         ['set-info', 'private', {'i': '1'}], ['set-info', 'source', {'b': 'ff'}]]


def _is_utf8(b):
    try:
        b.decode('utf8')
        return True
    except UnicodeDecodeError:
        return False


def _gen_edit(r):
    files = [['a.bin', r.choice([1, 100, 16384, 40000])]]
    if r.random() < 0.6:
        files.append(['sub/b.txt', r.choice([0, 5, 20000])])
    return ['generate', {'single': r.random() < 0.3, 'files': files, 'tag': r.randrange(256)}]


HKEYS = [{'b': b'info'.hex()}, {'b': b'name'.hex()}, {'b': b'pieces'.hex()}, {'b': b'piece length'.hex()}, {'b': b'source'.hex()},
         {'b': b'comment'.hex()}, {'b': b'x-extra'.hex()}, {'b': 'fffe'}, {'b': ''}, {'i': '1'}, {'s': '1'}, {'B': True}, {'s': 'True'},
         {'n': 1}, {'u': [{'s': 'a'}]}, {'f': (1.0).hex()}, {'S': 'sub'}, {'s': 'caf\xe9'}, {'s': 'cafe\u0301'}]


def _key_edit(r):
    q = r.random()
    if q < 0.2:
        return ['merge-raw', r.randrange(2), r.choice(['top', 'top', 'info'])]
    key = r.choice(HKEYS)
    where = 'top' if key == HKEYS[0] or (r.random() < 0.3 and key != HKEYS[1]) else r.choice(['info', 'info', 'file'])
    if q < 0.35:
        return ['del-key', where, key]
    twin = 'b' in key and key['b'] not in ('fffe', '') and r.random() < 0.8
    return ['set-key', where, key, 'twin' if twin else enc(rpy(r, 2)), r.random() < 0.4]


def _inplace_edit(r, where=None):
    where = where or r.choice(['path', 'path', 'files', 'info', 'info', 'info', 'top', 'any'])
    return ['inplace', {'where': where, 'pick': r.randrange(1000), 'act': r.randrange(1000), 'val': r.randrange(1000)}]


def _alias_edit(r):
    return ['alias', {'pick': r.randrange(1000), 'dst': r.choice(['info', 'info', 'top', 'path'])}]


def _complete_edit(r, ndocs):
    return [r.choice(['sync-info', 'sync-info', 'assign-info', 'assign-metainfo', 'update-info']), r.randrange(ndocs)]


def history_cases(ctx, n):
    r = ctx.rng
    cases = []
    for i in range(n):
        docs = [gen.metainfo(r, {}) for _ in range(2)]
        for d in docs:                      # a content path is set in some histories: validate() then joins the path components
            for f in d[b'info'].get(b'files', []):     # with it, and a bytes component makes that raise TypeError (C07, finding D07f)
                f[b'path'] = [p if _is_utf8(p) else b'not-utf8' for p in f[b'path']]
                # ... and a component that is absolute or contains a separator ('/', '/etc/x') makes os.path.join leave the
                # content directory: validate() then stats files outside it and generate() walks the whole file system from
                # '/' (observed: a worker busy for 27 min) - a defect of path handling reported to the coordinator, not an
                # export matter; such components are replaced here and stay in the first stream, where no path is set
                f[b'path'] = [p if b'/' not in p and p not in (b'', b'.', b'..') else b'component' for p in f[b'path']]
        serve = r.random() < 0.5
        payload = r.choice(['doc0', 'doc0', 'doc0', 'doc0-nopieces', 'garbage', 'notfound']) if serve else None
        own = r.random() < (0.75 if payload == 'doc0' else 0.25)
        mag = {'hash': 'doc0' if own else ''.join(r.choice('0123456789abcdef') for _ in range(40)),
               'notation': r.choice(['hex-lower', 'hex-lower', 'hex-upper', 'b32-upper', 'b32-lower']),
               'dn': None if r.random() < 0.2 else r.choice(['name', 'My Content', 'n\xe9', 'a b+c']),
               'xl': None if r.random() < 0.4 else r.choice([1, 123, 16384, 99999]),
               'tr': r.randint(0, 2), 'ws': r.randint(0, 1)}
        meta = {'serve': payload, 'validate': r.random() < 0.7}
        # where the object comes from: Magnet.torrent() (most), or - no stored hash at all - Torrent() / Torrent.read_stream(doc0)
        origin = 'magnet' if r.random() < 0.8 else r.choice(['new', 'read'])
        if origin != 'magnet':
            meta['serve'] = None
        stages = [{'edits': []}]
        k = r.random()
        if k < 0.25:        # completed by hand, made invalid again, re-completed, attribute change
            plan = [[_complete_edit(r, 2)], [r.choice(INVALIDATE)], [_complete_edit(r, 2)], [r.choice(ATTRS)]]
        elif k < 0.45:      # metainfo assigned, attribute changes, invalid, other metainfo
            plan = [[['assign-metainfo', 0]], [r.choice(ATTRS), r.choice(ATTRS)], [r.choice(INVALIDATE)], [['assign-info', 1]]]
        elif k < 0.55:      # edits IN PLACE inside nested values, aliasing, fork - between reads of the hash
            start = r.choice([[_complete_edit(r, 2)], [['assign-metainfo', r.randrange(2)]], [_gen_edit(r)]])
            start[0:0] = []
            plan = [start + [['nest', r.choice(['info', 'info', 'top'])]]]
            for _ in range(r.randint(2, 5)):
                q = r.random()
                if q < 0.6:
                    plan.append([_inplace_edit(r) for _ in range(r.choice([1, 1, 2]))])
                elif q < 0.75:
                    plan.append([_alias_edit(r), _inplace_edit(r)][:r.choice([1, 2])])
                elif q < 0.85:
                    plan.append([['fork'], _inplace_edit(r)])
                elif q < 0.93:
                    plan.append([r.choice(ATTRS)])
                else:
                    plan.append([_inplace_edit(r, 'path')])
        elif k < 0.63:      # keys that are not plain str keys come and go between exports of a complete torrent
            plan = [[r.choice([_complete_edit(r, 2), ['assign-metainfo', r.randrange(2)], _gen_edit(r)])]]
            for _ in range(r.randint(2, 4)):
                plan.append([_key_edit(r) for _ in range(r.choice([1, 1, 2]))])
            plan.append([['del-key', w, kk] for w in ('top', 'info') for kk in HKEYS if 's' not in kk][:r.choice([0, 40])])
            plan = [pl for pl in plan if pl]
        elif k < 0.68:      # path + generate(), content changes on disk, generate() again
            plan = [[_gen_edit(r)], [r.choice(ATTRS)], [r.choice([['touch-content'], ['path-none'], r.choice(INVALIDATE)])],
                    [r.choice([['regenerate'], _gen_edit(r), _complete_edit(r, 2)])]]
        elif k < 0.72:      # generate(), then exports that race with a second generate() of the same object (another thread)
            plan = [[_gen_edit(r)], [r.choice([r.choice(ATTRS), ['touch-content'], ['regenerate']])]]
            for _ in range(r.randint(1, 3)):
                plan.append([['regenerate-racing', r.choice(RACING)]] + ([['touch-content']] if r.random() < 0.25 else []))
        else:
            plan = []
            for _ in range(r.randint(1, 6)):
                pool = r.choice([INVALIDATE, REPAIR, ATTRS, None, None, 'inplace', 'keys'])
                plan.append([_inplace_edit(r) if pool == 'inplace' else _key_edit(r) if pool == 'keys' else r.choice(pool) if pool
                             else r.choice([_complete_edit(r, 2), _complete_edit(r, 2), _gen_edit(r)])
                             for _ in range(r.choice([1, 1, 2]))])
        if 0.68 <= k < 0.72:
            pass
        else:
            plan = plan[:r.randint(max(1, len(plan) - 2), len(plan))]
        if r.random() < 0.03:
            plan[r.randrange(len(plan))].append(r.choice(INVALIDATE_BIG))
        if r.random() < 0.15:
            plan[r.randrange(len(plan))].insert(r.choice([0, 1]), ['copy'])
        stages += [{'edits': e} for e in plan]
        for st in stages:
            order = list(H_EXPORTS)
            r.shuffle(order)
            for _ in range(r.choice([0, 0, 1, 3])):
                order.insert(r.randrange(len(order) + 1), r.choice(H_EXPORTS))
            st['order'] = order
        cases.append({'kind': 'history', 'seed': r.randrange(2 ** 31), 'docs': [enc(d) for d in docs], 'magnet': mag,
                      'meta': meta, 'origin': origin, 'stages': stages})
    return cases


class _NoMagnet(Exception):
    pass


# ---- edits IN PLACE at any nesting depth: the top-level value of info / metainfo stays the same object, something inside
# it changes (list item assignment, append / insert / pop / del / reverse / sort / extend / clear on nested lists, item
# set / del / update / reorder inside nested dicts, path components of file entries, str <-> bytes swaps of equal encoding),
# aliasing (ONE list / dict object placed at a second position, so that an edit through one shows at both) and fork
# (`other = t; t = t.copy()`: the history goes on with the copy, the original must keep exporting what it exported).
NESTED = [['a', 'b'], {'k': ['v', 1], 'm': {'deep': [b'x']}}, [{'in-list': 'd'}]]
VALS = ['renamed', 'n\xe9w', b'raw', 7, True, ['in', 'ner'], {'k': 'v'}, 'zz', b'\xff', 0, None]
STRS = ['renamed', 'n\xe9w', 'README.txt', 'zz', 'sub dir']
NEWKEYS = ['zz-new', '\xe9', '', 'a-first']


def _containers(md):
    """every list / dict strictly inside the metainfo - not the metainfo dict and not info itself - with the path that leads
    to it, depth first in insertion order; an object reachable twice (aliasing) is listed at each position, entered once"""
    out, seen = [], set()

    def walk(v, path):
        for k, x in (list(v.items()) if isinstance(v, dict) else list(enumerate(v))):
            if isinstance(x, (list, dict)):
                if not (path == () and k == 'info'):
                    out.append((path + (k,), x))
                if id(x) not in seen:
                    seen.add(id(x))
                    walk(x, path + (k,))
            elif isinstance(x, tuple):
                walk(x, path + (k,))              # immutable itself, but it may hold mutable containers
    walk(md, ())
    return out


def _select(md, where):
    cs = _containers(md)
    flt = {'path': lambda p, x: isinstance(x, list) and len(p) == 4 and p[:2] == ('info', 'files') and p[3] == 'path',
           'files': lambda p, x: p[:2] == ('info', 'files') and len(p) <= 3,
           'info': lambda p, x: p[0] == 'info', 'top': lambda p, x: p[0] != 'info', 'any': lambda p, x: True}[where]
    return [(p, x) for p, x in cs if flt(p, x)]


def _swap_type(v):
    """the same bencoding, another Python value: str <-> bytes"""
    if isinstance(v, str):
        return v.encode('utf8')
    if isinstance(v, bytes):
        try:
            return v.decode('utf8')
        except UnicodeDecodeError:
            return v
    if isinstance(v, bool):
        return int(v)
    return v


def _inplace(md, spec):
    """one in-place mutation of a nested container; returns a description (for the report); raises if refused"""
    cands = _select(md, spec['where']) or _select(md, 'info')
    if not cands:
        raise LookupError('no nested container')
    path, x = cands[spec['pick'] % len(cands)]
    strs_only = spec['where'] == 'path'
    v = (STRS if strs_only else VALS)[spec['val'] % len(STRS if strs_only else VALS)]
    v = __import__('copy').deepcopy(v)
    i = spec['val'] % len(x) if len(x) else 0
    if isinstance(x, list):
        acts = ['append', 'insert0', 'setitem', 'pop', 'del0', 'reverse', 'sort', 'swap-type', 'extend', 'grow-str', 'clear',
                'setitem', 'append', 'setitem']
        a = acts[spec['act'] % len(acts)]
        if a in ('setitem', 'pop', 'del0', 'swap-type', 'grow-str') and not x:
            a = 'append'
        if a == 'append':
            x.append(v)
        elif a == 'insert0':
            x.insert(0, v)
        elif a == 'setitem':
            x[i] = v
        elif a == 'pop':
            x.pop()
        elif a == 'del0':
            del x[0]
        elif a == 'reverse':
            x.reverse()
        elif a == 'sort':
            x.sort()
        elif a == 'swap-type':
            x[i] = _swap_type(x[i])
        elif a == 'extend':
            x.extend([v, 'tail'])
        elif a == 'grow-str':
            x[i] = x[i] + ('x' if isinstance(x[i], str) else b'x' if isinstance(x[i], bytes) else 1 if isinstance(x[i], int) else [])
        elif a == 'clear':
            x.clear()
    else:
        acts = ['set-new', 'set-existing', 'del', 'swap-type', 'update', 'reorder', 'setdefault', 'clear', 'set-existing', 'set-new']
        a = acts[spec['act'] % len(acts)]
        keys = list(x)
        if a in ('set-existing', 'del', 'swap-type', 'reorder') and not keys:
            a = 'set-new'
        k = keys[spec['val'] % len(keys)] if keys else None
        nk = NEWKEYS[spec['pick'] % len(NEWKEYS)]
        if a == 'set-new':
            x[nk] = v
        elif a == 'set-existing':
            x[k] = v
        elif a == 'del':
            del x[k]
        elif a == 'swap-type':
            x[k] = _swap_type(x[k])
        elif a == 'update':
            x.update({nk: v, 'u2': 2})
        elif a == 'reorder':
            x[k] = x.pop(k)                       # same items, other insertion order: the bencoding must not change
        elif a == 'setdefault':
            x.setdefault(nk, v)
        elif a == 'clear':
            x.clear()
    return 'metainfo%s: %s' % (''.join('[%r]' % (q,) for q in path), a)


def _alias(md, spec):
    """place an existing nested list / dict OBJECT at a second position (never inside itself: the new positions are keys of
    info / of the metainfo, or - for a path list - the path of another file entry)"""
    if spec['dst'] == 'path':
        paths = _select(md, 'path')
        if len(paths) < 2:
            raise LookupError('fewer than two file entries')
        (p1, x), (p2, _) = paths[spec['pick'] % len(paths)], paths[(spec['pick'] + 1) % len(paths)]
        md['info']['files'][p2[2]]['path'] = x
        return 'metainfo%s = metainfo%s   # the same list object' % (''.join('[%r]' % (q,) for q in p2), ''.join('[%r]' % (q,) for q in p1))
    cands = [(p, x) for p, x in _select(md, 'any') if p[-1] not in ('x-alias',)]
    if not cands:
        raise LookupError('no nested container')
    p, x = cands[spec['pick'] % len(cands)]
    (md['info'] if spec['dst'] == 'info' else md)['x-alias'] = x
    return "metainfo%s['x-alias'] = metainfo%s   # the same object" % ("['info']" if spec['dst'] == 'info' else '', ''.join('[%r]' % (q,) for q in p))


# ---- an export racing with a re-hash: thread A is inside an export and its validate() call has returned; before A converts
# the metainfo, thread B enters generate() for the same object (hashing the content again) and is held in its first progress
# callback until A is done.  What A reports / writes must be what the object reports / writes before or after the re-hash
# (with unchanged content the two are equal), or a refusal - never the hash or the bytes of a state the object is never in.
RACING = ['infohash', 'b32', 'magnet_min', 'dump', 'write_stream']


def _race(t, name):
    import threading

    def ws():
        b = io.BytesIO()
        t.write_stream(b, validate=True)
        return b.getvalue().hex()
    op = {'infohash': lambda: t.infohash, 'b32': lambda: t.infohash_base32.decode('ascii'),
          'magnet_min': lambda: t.magnet(name=False, size=False, trackers=False).xt,
          'dump': lambda: t.dump(validate=True).hex(), 'write_stream': ws}[name]
    before = _attempt(op)
    reached, release = threading.Event(), threading.Event()
    state = {'started': False, 'b': None, 'rehash': None}

    def hold(*a):
        reached.set()
        release.wait(30)

    def rehash():
        try:
            t.generate(callback=hold, interval=0)
            state['rehash'] = 'returned'
        except BaseException as ex:  # noqa
            state['rehash'] = 'raised ' + type(ex).__name__
        finally:
            reached.set()
    real_validate = t.validate

    def validate():
        real_validate()
        if not state['started']:
            state['started'] = True
            state['b'] = threading.Thread(target=rehash, daemon=True)
            state['b'].start()
            reached.wait(30)
    t.validate = validate
    try:
        during = _attempt(op)
    finally:
        del t.validate
        release.set()
        if state['b'] is not None:
            state['b'].join(60)
    after = _attempt(op)
    return {'export': name, 'before': before, 'during': during, 'after': after, 'raced': state['started'], 'rehash': state['rehash']}


def _apply_edit(torf, t, e, docs, env):
    """one edit of the history; returns the object the history continues on"""
    import copy as _copy
    op = e[0]
    if op == 'copy':
        return t.copy()
    if op == 'fork':
        # the history goes on with the copy; the original is not touched any more and must keep exporting what it exports now
        env['other'] = {'obj': t, 'dump_nv': _attempt(lambda: t.dump(validate=False).hex()), 'mjson': pyval.to_json(plain(t.metainfo))}
        return t.copy()
    if op == 'inplace':
        env['log'].append(_inplace(t.metainfo, e[1]))
        return t
    if op == 'alias':
        env['log'].append(_alias(t.metainfo, e[1]))
        return t
    if op == 'merge-raw':
        # fields of a torrent file decoded with a plain bencode parser (bytes keys!) merged into the metainfo
        raw = _copy.deepcopy(env['bdocs'][e[1]])
        if e[2] == 'top':
            t.metainfo.update(raw)
        else:
            t.metainfo['info'].update(raw[b'info'])
        return t
    if op in ('set-key', 'del-key'):
        d = t.metainfo if e[1] == 'top' else t.metainfo['info'] if e[1] == 'info' else t.metainfo['info']['files'][0]
        key = dec(e[2])
        if op == 'del-key':
            d.pop(key, None)
        elif e[3] == 'twin':
            # the bytes twin of an existing str key (or the str twin of a bytes key), with another value
            other = key.decode('utf8') if isinstance(key, bytes) else key.encode('utf8')
            _insert(d, key, _variant(d[other]) if other in d else 'twin without partner', e[4])
        else:
            _insert(d, key, dec(e[3]), e[4])
        return t
    if op == 'nest':
        # a fresh nested structure as an extra field (a top-level ASSIGNMENT; later edits go inside it, in place)
        (t.metainfo['info'] if e[1] == 'info' else t.metainfo)['x-nested'] = _copy.deepcopy(NESTED)
        return t
    if op in ('update-info', 'sync-info', 'assign-info', 'assign-metainfo'):
        d = _copy.deepcopy(docs[e[1]])
        if op == 'assign-metainfo':
            t.metainfo.clear()
            t.metainfo.update(d)
        elif op == 'assign-info':
            t.metainfo['info'] = d['info']
        else:
            info = t.metainfo['info']
            if op == 'sync-info':
                for k in [k for k in info if k not in d['info']]:
                    del info[k]
            for k, v in d['info'].items():           # key by key, as somebody completing a torrent by hand does
                info[k] = v
    elif op == 'del-info':
        t.metainfo['info'].pop(e[1], None)
    elif op == 'set-info':
        t.metainfo['info'][e[1]] = dec(e[2])
    elif op == 'set-top':
        t.metainfo[e[1]] = dec(e[2])
    elif op == 'del-top':
        t.metainfo.pop(e[1], None)
    elif op == 'attr':
        setattr(t, e[1], dec(e[2]))
    elif op == 'generate':
        spec = e[1]
        env['n'] += 1
        root = os.path.join(env['dir'], 'g%d' % env['n'], 'content %d' % spec['tag'])
        files = spec['files'][:1] if spec['single'] else spec['files']
        paths = []
        for rel, size in files:
            fp = root if spec['single'] else os.path.join(root, rel)
            os.makedirs(os.path.dirname(fp), exist_ok=True)
            with open(fp, 'wb') as f:
                f.write(bytes((spec['tag'] + j * 7) % 256 for j in range(size)))
            paths.append(fp)
        env['files'] = paths
        t.path = root
        t.generate()
    elif op == 'regenerate':
        pl = t.metainfo['info'].get('piece length')
        if not (type(pl) is int and pl >= 16384):
            # generate() does not validate the piece length (0 raises ValueError from range(), small values hash thousands
            # of pieces): C01/C18 matters, not exports - the edit is refused like any other edit the object refuses
            raise ValueError('regenerate skipped: piece length %r' % (pl,))
        t.generate()
    elif op == 'regenerate-racing':
        pl = t.metainfo['info'].get('piece length')
        if not (type(pl) is int and pl >= 16384):
            raise ValueError('regenerate skipped: piece length %r' % (pl,))
        env.setdefault('racing', []).append(_race(t, e[1]))
    elif op == 'path-none':
        t.path = None
    elif op == 'touch-content':
        if env.get('files'):
            with open(env['files'][0], 'ab') as f:
                f.write(b'!')
    else:
        raise ValueError(op)
    return t


HISTORY_TIMEOUT = 180          # seconds for one history (normally ~30 ms).  Backstop only: SIGALRM interrupts Python
                               # bytecode, not a long C-level call (os.walk over '/' was not interrupted by it)


class _Timeout(BaseException):
    pass


def _on_alarm(signum, frame):
    raise _Timeout()


def _run_history_chunk(cases):
    import shutil
    import signal
    torf = common.import_torf()
    from harness.impl import magnet as mg
    srv = None
    out = []
    try:
        for ci, c in enumerate(cases):
            bdocs = [dec(d) for d in c['docs']]
            docs = [_hdoc(None, c, i) for i in range(len(bdocs))]
            mag = c['magnet']
            h16 = _own_hash(bdocs[0]) if mag['hash'] == 'doc0' else mag['hash']
            kw = {}
            serve = c['meta']['serve']
            if serve:
                if srv is None:
                    srv = mg.TorrentServer()
                base = 'http://127.0.0.1:%d' % srv.port
                srv.routes.clear()
                body = {'doc0': lambda: (200, bstrict.ser(bdocs[0])),
                        'doc0-nopieces': lambda: (200, bstrict.ser({**bdocs[0], b'info': {k: v for k, v in bdocs[0][b'info'].items() if k != b'pieces'}})),
                        'garbage': lambda: (200, b'this is not bencoded'),
                        'notfound': lambda: (404, b'')}[serve]()
                srv.routes['/meta/t.torrent'] = body
                kw['xs'] = base + '/meta/t.torrent'
            else:
                base = 'http://tracker.example.org'
            if mag['tr']:
                kw['tr'] = ['%s/announce/%d' % (base, j) for j in range(mag['tr'])]
            if mag['ws']:
                kw['ws'] = [base + '/seed/f']
            if mag['dn'] is not None:
                kw['dn'] = mag['dn']
            if mag['xl'] is not None:
                kw['xl'] = mag['xl']
            obs = {'base16': h16, 'stages': []}
            env = {'dir': os.path.join(common.worker_dir(), 'c06h-%d-%d' % (os.getpid(), ci)), 'n': 0, 'log': [], 'bdocs': bdocs}
            try:
                origin = c.get('origin', 'magnet')
                if origin != 'magnet':
                    raise _NoMagnet()
                m = torf.Magnet(mg.notations(h16)[mag['notation']], **kw)
                if serve:
                    try:
                        obs['adopted'] = bool(m.get_info(validate=c['meta']['validate'], timeout=10))
                    except Exception as e:  # noqa   (e.g. "Mismatching info hashes" is raised, not reported)
                        obs['adopted'] = False
                        obs['get_info_raised'] = ekind(e)
                else:
                    obs['adopted'] = False
                t = m.torrent()
            except _NoMagnet:
                # an ordinary Torrent: nothing ever stores a hash on it (for the model: like a magnet with adopted metadata)
                obs['adopted'] = True
                try:
                    t = torf.Torrent() if origin == 'new' else torf.Torrent.read_stream(io.BytesIO(bstrict.ser(bdocs[0])), validate=False)
                except Exception as e:  # noqa   (a creation date that cannot be represented, ...: C05 matters)
                    out.append({'setup_failed': ekind(e)})
                    continue
            except Exception as e:  # noqa
                out.append({'setup_failed': ekind(e)})
                continue
            try:
                signal.signal(signal.SIGALRM, _on_alarm)
                signal.alarm(HISTORY_TIMEOUT)
                for si, st in enumerate(c['stages']):
                    so = {'edit_errors': [], 'copy': False}
                    env['log'] = []
                    for e in st['edits']:
                        try:
                            t = _apply_edit(torf, t, e, docs, env)
                            so['copy'] = so['copy'] or e[0] in ('copy', 'fork')
                        except Exception as ex:  # noqa   a refused edit is no export; the history goes on
                            so['edit_errors'].append([e[0], type(ex).__name__])
                    def segment(changed_by=None):
                        # the state the following exports read: metainfo, validate()'s verdict, and whether a magnet link
                        # reduced to the hash can be built
                        seg = {'mjson': pyval.to_json(plain(t.metainfo)), 'changed_by': changed_by}
                        try:
                            t.validate()
                            seg['vok'] = True
                        except Exception:  # noqa
                            seg['vok'] = False
                        mr = _attempt(lambda: t.magnet(name=False, size=False, trackers=False).xt)
                        # 'ok', or the kind of error: the reduced link still carries the webseeds, so it can fail on a
                        # url-list that is no list of URLs (not validated: C07's open finding D07i), not only on the hash
                        seg['min_ok'] = 'ok' in mr or mr['err'] not in ('metainfo', 'magnet')
                        # precondition of C07's open finding D07f (validate() raises TypeError from os.path.join): a content
                        # path is set and a file entry's path is empty, no list or has a bytes component
                        info = t.metainfo['info']
                        fl = info.get('files') if isinstance(info, dict) else None
                        seg['d07f'] = bool(t.path is not None and isinstance(fl, (list, tuple)) and any(
                            isinstance(f, dict) and (not isinstance(f.get('path'), (list, tuple)) or not f.get('path')
                                                     or any(isinstance(q, bytes) for q in f.get('path'))) for f in fl))
                        return seg
                    so['segments'] = [segment()]

                    def ws():
                        b = io.BytesIO()
                        t.write_stream(b, validate=True)
                        return b.getvalue().hex()

                    def wr():
                        path = os.path.join(common.worker_dir(), 'c06h-%d-%d-%d.torrent' % (os.getpid(), ci, si))
                        try:
                            t.write(path, validate=True, overwrite=True)
                            with open(path, 'rb') as f:
                                return f.read().hex()
                        finally:
                            if os.path.exists(path):
                                os.unlink(path)
                    ops = {'infohash': lambda: t.infohash, 'b32': lambda: t.infohash_base32.decode('ascii'),
                           'magnet': lambda: t.magnet().xt, 'magnet_str': lambda: str(t.magnet()),
                           # the link reduced to the hash: nothing but the hash can make it fail
                           'magnet_min': lambda: t.magnet(name=False, size=False, trackers=False).xt,
                           'dump': lambda: t.dump(validate=True).hex(), 'dump_nv': lambda: t.dump(validate=False).hex(),
                           'write_stream': ws, 'write': wr}
                    so['results'] = []
                    for name in st['order']:
                        r = _attempt(ops[name])
                        if pyval.to_json(plain(t.metainfo)) != so['segments'][-1]['mjson']:
                            # the export changed the metainfo (e.g. the `name` getter fills in the default name): what it
                            # returned is judged against the object as it is when the call returns
                            so['segments'].append(segment(changed_by=name))
                        so['results'].append([name, r, len(so['segments']) - 1])
                    so['realised'] = env['log']
                    so['racing'] = env.pop('racing', [])
                    if env.get('other'):
                        # the object the history forked from: nobody has touched it since
                        oth = env['other']
                        so['other'] = {'dump_nv_then': oth['dump_nv'], 'dump_nv_now': _attempt(lambda: oth['obj'].dump(validate=False).hex()),
                                       'metainfo_same': pyval.to_json(plain(oth['obj'].metainfo)) == oth['mjson']}
                    obs['stages'].append(so)
            except _Timeout:
                obs = {'timeout': True, 'stages_done': len(obs['stages'])}
            finally:
                signal.alarm(0)
                shutil.rmtree(env['dir'], ignore_errors=True)
            out.append(obs)
    finally:
        if srv is not None:
            srv.close()
    return out


def _reported(oks):
    """(operation, hex digest it denotes) for the hash-reporting exports"""
    digests = []
    for n, x in oks:
        try:
            if n == 'infohash':
                digests.append((n, x if len(x) == 40 and x == x.lower() else 'malformed:' + x))
            elif n == 'b32':
                digests.append((n, base64.b32decode(x).hex()))
            elif n in ('magnet', 'magnet_min'):
                digests.append((n, x[len('urn:btih:'):] if x.startswith('urn:btih:') else 'malformed:' + x))
            elif n == 'magnet_str':
                digests.append((n, x[len('magnet:?xt=urn:btih:'):][:40] if x.startswith('magnet:?xt=urn:btih:') else 'malformed:' + x))
        except Exception:  # noqa
            digests.append((n, 'malformed:%r' % (x,)))
    return digests


def _history_py(c):
    """the history as the Python a user would write (for the report)"""
    mag = c['magnet']
    if c.get('origin', 'magnet') != 'magnet':
        lines = ['t = Torrent()' if c['origin'] == 'new' else 't = Torrent.read_stream(<canonical bencoding of doc0>, validate=False)']
        return lines + _history_py_stages(c)
    lines = ["m = Magnet(<%s of %s>%s%s%s%s)" % (mag['notation'], 'sha1 of doc0.info' if mag['hash'] == 'doc0' else mag['hash'],
                                                 ', dn=%r' % mag['dn'] if mag['dn'] is not None else '',
                                                 ', xl=%r' % mag['xl'] if mag['xl'] is not None else '',
                                                 ', tr=[%d urls]' % mag['tr'] if mag['tr'] else '', ', ws=[1 url]' if mag['ws'] else '')]
    if c['meta']['serve']:
        lines.append('m.get_info(validate=%r)   # xs serves: %s' % (c['meta']['validate'], c['meta']['serve']))
    lines.append('t = m.torrent()')
    return lines + _history_py_stages(c)


def _edit_py(e):
    """one edit of a history as the Python a user would write (only the entry for this operation is formatted)"""
    op = e[0]
    a = e[1] if len(e) > 1 else ''
    v = _short(e[2], 70) if len(e) > 2 else ''              # encoded values: {'i': '5'} = int 5, {'n': 1} = None, {'b': hex} = bytes
    dct = {'top': 't.metainfo', 'info': "t.metainfo['info']", 'file': "t.metainfo['info']['files'][0]"}
    if op == 'copy':
        return 't = t.copy()'
    if op == 'update-info':
        return "t.metainfo['info'][k] = v  for k, v in doc%s.info" % a
    if op == 'sync-info':
        return "t.metainfo['info'] completed key by key to doc%s.info (other keys deleted)" % a
    if op == 'assign-info':
        return "t.metainfo['info'] = doc%s.info" % a
    if op == 'assign-metainfo':
        return 't.metainfo.clear(); t.metainfo.update(doc%s)' % a
    if op == 'del-info':
        return "t.metainfo['info'].pop(%r, None)" % a
    if op == 'set-info':
        return "t.metainfo['info'][%r] = %s" % (a, v)
    if op == 'set-top':
        return "t.metainfo[%r] = %s" % (a, v)
    if op == 'del-top':
        return "t.metainfo.pop(%r, None)" % a
    if op == 'attr':
        return "t.%s = %s" % (a, v)
    if op == 'generate':
        return 't.path = <content %s>; t.generate()' % (a,)
    if op == 'regenerate':
        return 't.generate()'
    if op == 'regenerate-racing':
        return ('<thread A: %s - after its validate() call returned, thread B enters t.generate() and is held in its first '
                'progress callback until A has its result>' % (a,))
    if op == 'path-none':
        return 't.path = None'
    if op == 'touch-content':
        return '<one content file grows by a byte>'
    if op == 'inplace':
        return 'IN PLACE: one list / dict edit step on a nested container of the metainfo (selector %s)' % (a,)
    if op == 'alias':
        return 'ALIAS: an existing nested object placed at a second position (selector %s)' % (a,)
    if op == 'nest':
        return "t.metainfo%s['x-nested'] = [['a', 'b'], {'k': ['v', 1], 'm': {'deep': [b'x']}}, [{'in-list': 'd'}]]" % ("['info']" if a == 'info' else '')
    if op == 'fork':
        return 'other = t; t = t.copy()   # the history goes on with the copy, `other` is not touched any more'
    if op == 'merge-raw':
        return 't.metainfo%s.update(<doc%s%s decoded with a plain bencode parser: bytes keys>)' % (
            "['info']" if e[2] == 'info' else '', a, '.info' if e[2] == 'info' else '')
    if op == 'set-key':
        return '%s[%s] = %s   # inserted as the %s key' % (dct[a], v, 'a value different from its twin' if e[3] == 'twin' else _short(e[3], 50),
                                                         'first' if e[4] else 'last')
    if op == 'del-key':
        return '%s.pop(%s, None)' % (dct[a], v)
    return repr(e)


def _history_py_stages(c):
    lines = []
    for st in c['stages']:
        for e in st['edits']:
            lines.append(_edit_py(e))
        lines.append('exports: ' + ', '.join(st['order']))
    return lines


def _info_change(before, after):
    """what an export did to the metainfo (tagged-JSON snapshots): keys added to info, and whether anything else changed"""
    def info_items(mj):
        return next((v['v'] for k, v in mj['v'] if k == {'t': 's', 'v': 'info'} and v.get('t') == 'd'), None)
    bi, ai = info_items(before), info_items(after)
    if bi is None or ai is None:
        return {'info keys added': [], 'anything else': True}
    added = [k['v'] for k, v in ai if [k, v] not in bi and k.get('t') == 's' and all(k != k2 for k2, _ in bi)]
    rest_same = ([kv for kv in ai if not (kv[0].get('t') == 's' and kv[0]['v'] in added)] == bi
                 and [kv for kv in before['v'] if kv[0] != {'t': 's', 'v': 'info'}] == [kv for kv in after['v'] if kv[0] != {'t': 's', 'v': 'info'}])
    return {'info keys added': added, 'anything else': not rest_same}


def _drv_par(drv, reqs):
    """drv.run over several driver processes at once (the replies keep the order of the requests)"""
    import concurrent.futures
    chunks = common.split(reqs, common.NPROC)
    if len(chunks) <= 1:
        return drv.run(reqs)
    with concurrent.futures.ThreadPoolExecutor(len(chunks)) as ex:
        return [r for part in ex.map(drv.run, chunks) for r in part]


def evaluate_history(ctx, drv, cases):
    results = common.pmap(_run_history_chunk, common.split(cases, common.NPROC * 4))
    pairs = [(c, o) for c, o in zip(cases, [o for ch in results for o in ch])]
    for c, o in pairs:
        if 'setup_failed' in o:
            ctx.dist['history-setup-failed:' + o['setup_failed']] += 1
    for c, o in pairs:
        if o.get('timeout'):
            ctx.violation('a history of edits and exports on one Torrent object did not finish within %d s (after %d stages)'
                          % (HISTORY_TIMEOUT, o['stages_done']), dict({k: c[k] for k in c}, py=_history_py(c)),
                          'every export returns or raises', 'timeout', finding_matchers=MATCHERS)
    pairs = [(c, o) for c, o in pairs if 'setup_failed' not in o and not o.get('timeout')]
    # a unit = one state of the object (a stage of the history, or what an export turned that stage into) with the exports
    # that returned in it
    for c, o in pairs:
        o['units'] = [{'stage': si, 'seg': gi, 'copy': so['copy'] and gi == 0, 'mjson': seg['mjson'], 'vok': seg['vok'],
                       'min_ok': seg['min_ok'], 'd07f': seg.get('d07f', False), 'changed_by': seg['changed_by'], 'order': c['stages'][si]['order'],
                       'results': [[n, r] for n, r, g in so['results'] if g == gi]}
                      for si, so in enumerate(o['stages']) for gi, seg in enumerate(so['segments'])]
    for c, o in pairs:
        for prev, u in zip(o['units'], o['units'][1:]):
            if u['changed_by']:
                u['change'] = _info_change(prev['mjson'], u['mjson'])
    # phase 1: dump / info bytes of every unit (model), so that the digest function H can be tabulated
    flat = [(ci, ui) for ci, (c, o) in enumerate(pairs) for ui in range(len(o['units']))]
    rep1 = _drv_par(drv, [{'op': 'c06.export', 'm': pairs[ci][1]['units'][ui]['mjson'], 'vok': pairs[ci][1]['units'][ui]['vok'],
                     'validate': True} for ci, ui in flat])
    tables = {}
    for (ci, ui), m in zip(flat, rep1):
        tab = []
        if 'ok' in m['infoBytes']:
            tab.append(m['infoBytes']['ok'])
        if 'ok' in m['dump'] and m['span']:
            a, ln = m['span']
            tab.append(m['dump']['ok'][2 * a:2 * (a + ln)])
        tables[(ci, ui)] = [[x, hashlib.sha1(bytes.fromhex(x)).hexdigest()] for x in sorted(set(tab))]
    # phase 2: the history in the model
    rep2 = _drv_par(drv, [{'op': 'c06.history', 'base16': o['base16'], 'adopted': o['adopted'],
                     'stages': [{'copy': u['copy'], 'm': u['mjson'], 'vok': u['vok'], 'H': tables[(ci, ui)]}
                                for ui, u in enumerate(o['units'])]} for ci, (c, o) in enumerate(pairs)])
    for (c, o), hm in zip(pairs, rep2):
        case = {k: c[k] for k in ('kind', 'seed', 'docs', 'magnet', 'meta', 'stages')}
        case['origin'] = c.get('origin', 'magnet')
        case['py'] = _history_py(c)
        profile = []
        failed = False
        for u, m in zip(o['units'], hm['stages']):
            res = u['results']
            oks = [(n, r['ok']) for n, r in res if 'ok' in r]
            errs = [(n, r['err']) for n, r in res if 'err' in r]
            written = [(n, x) for n, x in oks if n in H_VALIDATED]
            unvalidated = [x for n, x in oks if n == 'dump_nv']
            digests = _reported(oks)
            stored = m['explicit'] is not None
            profile.append(('written' if written else 'refused') + ('+stored' if stored else ''))
            ctx.dist['history-state/%s/%s' % ('validate() accepts' if u['vok'] else 'validate() refuses',
                                               'object has a stored hash' if stored else 'no stored hash')] += 1
            if u['changed_by']:
                ctx.dist['history-state/reached by an export that changed the metainfo: ' + u['changed_by']] += 1
            so_ = o['stages'][u['stage']]
            if u['seg'] == 0 and so_.get('other') and so_['other']['dump_nv_now'] != so_['other']['dump_nv_then']:
                ctx.violation('a Torrent object that nobody touched exports differently after its copy() was edited: what copy() '
                              'returns shares state with the original [stage %d of the history]' % u['stage'],
                              dict(case, failing_stage=u['stage']), 'copy() gives an independent object: the bytes the original '
                              'dumps (and with them the hash it reports) only change when the original is edited',
                              {'dump(validate=False) of the original at the fork': _short(so_['other']['dump_nv_then'], 300),
                               'now': _short(so_['other']['dump_nv_now'], 300), 'its metainfo is unchanged': so_['other']['metainfo_same'],
                               'edits of the copy in this stage': so_.get('realised')}, finding_matchers=MATCHERS)
                failed = True
                break
            raced_bad = None
            for rc in (so_.get('racing') or []) if u['seg'] == 0 else []:
                ctx.dist['history-race/%s/%s' % (rc['export'], 'validate() passed, then generate() entered in another thread'
                                                 if rc['raced'] else 'no race: the export refused before / without validate()')] += 1
                if rc['raced']:
                    ctx.dist['history-race/re-hash ' + str(rc['rehash']) + ('; content unchanged' if rc['before'] == rc['after'] else '; content changed')] += 1
                if 'ok' in rc['during'] and rc['during'] not in (rc['before'], rc['after']):
                    raced_bad = rc
                    break
            if raced_bad:
                ctx.violation('%s of a complete torrent, called while another thread hashes the same content again with generate(), '
                              'returned a value the object has neither before nor after the re-hash [stage %d of the history]'
                              % (raced_bad['export'], u['stage']), dict(case, failing_stage=u['stage']),
                              'the reported infohash is the SHA-1 of the info bytes that are written: an export that does not raise '
                              'reports / writes the info dictionary of the torrent (with unchanged content: the same before, during '
                              'and after generate())',
                              {k_: _short(v_, 300) for k_, v_ in raced_bad.items()}, finding_matchers=MATCHERS)
                failed = True
                break
            for a_ in (so_.get('realised') or []) if u['seg'] == 0 else []:
                ctx.dist['history-edit/' + ('alias: one object at two positions' if '# the same' in a_ else 'in place: ' + a_.rsplit(': ', 1)[-1])] += 1
            where = ' [stage %d of the history%s; exports in this order: %s]' % (
                u['stage'], ', after %s() changed the metainfo' % u['changed_by'] if u['changed_by'] else '', ', '.join(u['order']))
            ucase = dict(case, failing_stage=u['stage'], changed_by=u['changed_by'])
            if u['d07f']:
                # a state in which validate() is known to raise TypeError instead of MetainfoError (C07, open finding D07f):
                # every export raises it; nothing is reported or written that C06 could judge.  Counted, never silent.
                ctx.dist['history-state/outside: C07 finding D07f (content path set, file path empty / bytes component)'] += 1
                continue
            # ---------------- the property on what the implementation did (implementation vs specification)
            bad = None
            # the full magnet link may be unavailable for a reason unrelated to the hash (a URL or a size the Magnet class
            # refuses: C07/C13 matters): tolerated and counted if the error is no MetainfoError and - for a MagnetError -
            # the link reduced to the hash (magnet_min) can be built in this state.  magnet_min may only raise MetainfoError.
            unrelated = [(n, e) for n, e in errs if n in ('magnet', 'magnet_str', 'magnet_min') and e != 'metainfo'
                         and (e != 'magnet' or (u['min_ok'] and n != 'magnet_min'))]
            for n, e in unrelated:
                ctx.dist['magnet-unavailable:' + e] += 1
            errs = [x for x in errs if x not in unrelated]
            other = [(n, e) for n, e in errs if e != 'metainfo']
            if other:
                bad = ('an export operation raised an undocumented error', other)
            if bad is None and len({x for _, x in written}) > 1:
                bad = ('dump() / write_stream() / write() of one unchanged Torrent object produced different bytes', _short(written, 500))
            if bad is None and written and any(n in H_VALIDATED for n, _ in errs):
                bad = ('one validated export of an unchanged Torrent object succeeded, another one raised',
                       [(n, e) for n, e in errs if n in H_VALIDATED])
            if bad is None and written and any(n == 'dump_nv' for n, _ in res) and (
                    len(set(unvalidated)) != 1 or unvalidated[0] != written[0][1] or any(n == 'dump_nv' for n, _ in errs)):
                bad = ('dump(validate=False) of a valid torrent differs from dump(validate=True)',
                       _short([r for n, r in res if n == 'dump_nv'], 300))
            if bad is None and len({d for _, d in digests}) > 1:
                bad = ('infohash, infohash_base32 and the magnet link of one unchanged Torrent object denote different hashes', digests)
            if bad is None and digests and any(n in H_HASHES for n, e in errs):
                bad = ('one hash report of an unchanged Torrent object succeeded, another one raised',
                       [(n, e) for n, e in errs if n in H_HASHES])
            if bad is None and written:
                y = bytes.fromhex(written[0][1])
                try:
                    top, spans = bstrict.strict_parse(y)
                    kf = _faithful(u['mjson'], top)
                    if kf:
                        bad = (kf[0] + ' - the written bytes are not the encoding of the metainfo the hash is calculated from',
                               {'detail': kf[1], 'reported': digests, 'written': written[0][1][:300]})
                    elif not (isinstance(top, dict) and b'info' in top):
                        bad = ('written bytes have no info dictionary', written[0][1][:200])
                    else:
                        a, b = spans[id(top)][b'info']
                        d = hashlib.sha1(y[a:b]).hexdigest()
                        wrong = [(n, x) for n, x in digests if x != d]
                        if wrong:
                            bad = ('the reported infohash is not the SHA-1 of the info span of the bytes that were written'
                                   + (' (it equals the hash of the magnet link the object was created from)'
                                      if all(x == o['base16'] for _, x in wrong) else ''),
                                   {'sha1(info span of %s)' % written[0][0]: d, 'reported': digests,
                                    'hash of the magnet link': o['base16'], 'info span': y[a:b][:300]})
                        elif not digests and any(n in H_HASHES for n, _ in errs):
                            bad = ('the torrent was written but its infohash cannot be read', errs)
                except bstrict.NonCanonical as e:
                    bad = ('written bytes are not canonical bencoding: %s' % e, written[0][1][:400])
            if bad:
                known = ctx.violation(
                    bad[0] + where, ucase,
                    'in every state of a history on one object: every validated export raises MetainfoError, or all '
                    'exports agree: one byte string, canonical, sha1(info span) == infohash == '
                    'b32decode(infohash_base32) == magnet xt (theorems C06_history, C06_explicit_span_validated); '
                    'a stored hash may only be reported while the hash cannot be calculated (C06_explicit_iff)',
                    {'detail': bad[1], 'metainfo in this state': _short(u['mjson'], 600), 'validate() accepts': u['vok'],
                     'stored hash (model)': m['explicit'], 'the export changed': u.get('change'),
                     'edits in place realised in this stage': so_.get('realised'),
                     'results': [[n, _short(r, 160)] for n, r in res]},
                    finding_matchers=MATCHERS)
                if not known:
                    failed = True
                    break
                continue                   # a recorded finding does not end the history: the next states are judged as well
            # ---------------- model vs specification (theorem C06_explicit_span_validated)
            if m['hyp'] and not m['canon']:
                ctx.machinery_error('model dump is not canonical (contradicts C06_canonical)', ucase)
                failed = True
                break
            if m['hyp'] and 'ok' in m['dumpT'] and (m['specHash'] is None or m['infohash'] != {'ok': m['specHash']}):
                ctx.machinery_error('model infohash is not the digest of the info span of the model dump '
                                    '(contradicts C06_explicit_span_validated)', dict(ucase, model=_short(m, 400)))
                failed = True
                break
            if not m['hyp']:
                ctx.dist['history-state/outside-hypothesis'] += 1
                continue
            # ---------------- correspondence: the model's exports and reports are the implementation's
            names = {'dump': 'dump', 'dump_nv': 'dump_nv', 'infohash': 'infohash', 'b32': 'b32', 'xt': 'magnet_min'}
            impl = {k: next((r for n, r in res if n == v), None) for k, v in names.items()}
            if impl['xt'] is not None and impl['xt'].get('err', 'metainfo') not in ('metainfo', 'magnet'):
                impl['xt'] = None                  # the reduced link failed on the webseeds (counted above), not on the hash
            model = {'dump': m['dumpT'], 'dump_nv': m['dumpF'], 'infohash': m['infohash'], 'b32': m['b32'], 'xt': m['xt']}
            diff = [k for k in model if impl[k] is not None and impl[k] != model[k]]
            if diff:
                mm = {k: _short(model[k], 200) for k in diff}
                mm['the model reports the'] = m['source'] + ' hash'
                ctx.corr_break('c06.history/' + diff[0], ucase, mm, {k: _short(impl[k], 200) for k in diff})
                failed = True
                break
        if failed:
            continue
        nontrivial = any(p.startswith('written') for p in profile) and len(set(profile)) > 1
        ctx.case(key=('h', c['seed'], tuple(profile)), nontrivial=nontrivial,
                 kind='history/%s/%s' % ({'new': 'Torrent()', 'read': 'read_stream()'}.get(c.get('origin'), 'Magnet.torrent(), metadata adopted'
                                                                                               if o['adopted'] else 'Magnet.torrent(), hash stored'),
                                         'copy' if any(so['copy'] for so in o['stages']) else 'same object'))
        if ctx.dist['sampled-history'] < 2 and nontrivial and not o['adopted'] and len(profile) <= 6:
            ctx.dist['sampled-history'] += 1
            ctx.sample({'case': {'py': case['py']}, 'states': [
                {'validate() accepts': u['vok'], 'stored hash': m['explicit'], 'model reports the': m['source'] + ' hash',
                 'infohash': next((r for n, r in u['results'] if n == 'infohash'), None),
                 'dump': _short(next((r for n, r in u['results'] if n == 'dump'), None), 60)}
                for u, m in zip(o['units'], hm['stages'])]}, limit=10)


def _diagnose(w):
    if 'ok' not in w:
        return 'raised ' + str(w.get('err'))
    try:
        bstrict.strict_parse(bytes.fromhex(w['ok']))
        return 'canonical, but different from dump()'
    except bstrict.NonCanonical as e:
        return 'not canonical bencoding: %s' % e


def _short(x, n=600):
    s = repr(x)
    return s if len(s) <= n else s[:n] + '…'


def _load_corpus(ctx):
    import glob
    import json
    import os
    out = []
    for p in sorted(glob.glob(os.path.join(common.CORPUS_DIR, ctx.prop, '*.json'))):
        j = json.load(open(p))
        out.extend(j if isinstance(j, list) else [j])
    return out


def run(ctx, drv):
    ctx.notes['rule'] = RULE
    ctx.notes['assumptions'] = [
        'SHA-1 is a parameter H of the model (the harness applies hashlib.sha1 to the bytes the model says are hashed)',
        'Torrent.validate() is a parameter of the dump/infohash model (property C07); the harness supplies the real verdict',
        'datetime.timestamp() is an oracle carried inside PyVal.datetime',
        'base64.b32encode/b32decode/b16decode and bytes.hex are modelled (Model/Base32.lean) and compared with the standard library',
        'exotic values (second stream): a re-iterable Collection / Mapping is given to the model as the list / dict of its '
        'items (taken from the same object before the exports), a one-shot iterator as PyVal.other; the demand that all '
        'exports of one object agree with the bytes written is checked on the implementation directly '
        '(implementation vs specification, no theorem quantifies over such values); cyclic containers are not generated',
        'histories on one Torrent from Magnet.torrent(): the metainfo after every edit is taken from the object (the edits are '
        'Python dict operations, attribute setters and generate(), not modelled here); the model carries the stored hash '
        '(_infohash: set by Magnet.torrent() iff get_info() returned False / was not called, dropped by copy(), touched by nothing '
        'else) through the history and predicts every export and report; get_info() runs against a loopback HTTP server',
    ]
    total = ctx.n(2500, 40000)
    cases = _load_corpus(ctx)
    exo = [c for c in cases if c.get('kind') == 'exotic']
    cases = [c for c in cases if c.get('kind') != 'exotic']
    hist = [c for c in cases if c.get('kind') == 'history']
    cases = [c for c in cases if c.get('kind') != 'history']
    evaluate_history(ctx, drv, hist + history_cases(ctx, ctx.n(700, 12000)))
    evaluate_exotic(ctx, drv, exo + exotic_cases(ctx, ctx.n(1500, 20000)))
    while total > 0:
        n = min(BATCH, total)
        total -= n
        evaluate(ctx, drv, cases + gen_cases(ctx, n))
        cases = []
        if ctx.violations:
            break
    ctx.exhaustive = False
    for f in ctx.open_findings():
        if f['id'] not in ctx.known and f['id'] not in ctx.not_reproduced:
            ctx.not_reproduced.append(f['id'])


def search(ctx, drv):
    evaluate_history(ctx, drv, history_cases(ctx, ctx.n(2000, 10000)))
    evaluate_exotic(ctx, drv, exotic_cases(ctx, ctx.n(3000, 10000)))
    for _ in range(2):
        evaluate(ctx, drv, gen_cases(ctx, ctx.n(2500, 5000)))
        if ctx.violations:
            break


def replay(ctx, drv, rp):
    c = dict(rp['case'])
    c.setdefault('kind', 'replay')
    if 'm' not in c:
        return {'fails': False, 'note': 'digest-only case'}
    if c.get('kind') == 'exotic':
        evaluate_exotic(ctx, drv, [c])
    elif c.get('kind') == 'history':
        c.pop('py', None)
        c.pop('failing_stage', None)
        evaluate_history(ctx, drv, [c])
    else:
        evaluate(ctx, drv, [c])
    return {'fails': bool(ctx.violations or ctx.corr_breaks), 'violations': ctx.violations,
            'corr_breaks': ctx.corr_breaks}
