"""
C06 — the infohash is the SHA-1 of exactly the info bytes that are written; dumps are canonical.

SPEC (checked on the real code with an independent strict bencode parser written in Python):
  for every metainfo m the converter accepts: dump() parses strictly (keys strictly ascending as
  raw bytes, minimal numerals, nothing trailing); the byte span of the value of key `info` in
  dump()/write_stream() output hashes (SHA-1) to `infohash`; b32decode(infohash_base32) is that
  digest; `magnet().xt == 'urn:btih:' + infohash` and str(magnet()) carries it.
CORRESPONDENCE with the Lean model (`ReadStream.dump/infoBytes`, `Base32.*`, `magnetXt`):
  dump bytes / error kind, the bytes fed to SHA-1, the span the model computes, hex/base32/xt
  renderings of the digest.
"""
import base64
import collections
import collections.abc
import datetime
import enum
import hashlib
import io
import itertools
import math
import os
import types

from harness import common
from harness.gen import metainfo as gen
from harness.impl import bencode_strict as bstrict
from harness.impl import pyval

RULE = ('metainfo objects = valid torrents from the C05 grammar turned into Python values (str where UTF-8, '
        'bytes otherwise) with extra fields of every type the converter accepts (str, bytes, int, bool, '
        'float, datetime, tuple/list, nested dict with non-ASCII keys) at top level, in info and in file '
        'entries, plus values it must refuse (None, nan/inf, non-str keys, unrepresentable datetime) and '
        'documents validate() refuses; non-trivial = dump succeeded with validate=True and the document has '
        'a converter-only type (bool/float/datetime/tuple) or a multi-byte / order-sensitive key or a '
        'non-UTF-8 byte string; distinct = distinct dumped bytes. Every document is also written with write_stream() into '
        'fresh and used streams (BytesIO reused for a second export, position in the middle / at the end of longer and '
        'shorter old content, a file opened r+b and read first) and with write() (new file, overwrite of a longer file). '
        'Second stream: valid torrents with one exotic value (generator, map, filter, zip, iterator, reversed, enumerate, '
        'chain, re-iterable non-Collection, dict views, set, frozenset, range, bytearray, memoryview, deque, UserList, '
        'UserDict, mappingproxy, custom Sequence / Mapping / Collection, int / str / bytes subclasses) in info, in a file '
        'entry, nested or at top level, and 2-7 export operations in a random order on ONE Torrent object')

MATCHERS = {}


def ekind(e):
    n = type(e).__name__
    return {'MetainfoError': 'metainfo', 'BdecodeError': 'bdecode', 'ReadError': 'read',
            'ValueError': 'value', 'MagnetError': 'magnet'}.get(n, 'internal:' + n)


# ------------------------------------------------------------------ case encoding (replayable JSON)

def enc(v):
    if v is None:
        return {'n': 1}
    if isinstance(v, bool):
        return {'B': v}
    if isinstance(v, int):
        return {'i': pyval._int_str(v)}
    if isinstance(v, float):
        return {'f': v.hex() if math.isfinite(v) else repr(v)}
    if isinstance(v, str):
        return {'s': v}
    if isinstance(v, bytes):
        return {'b': v.hex()}
    if isinstance(v, datetime.datetime):
        return {'D': [v.year, v.month, v.day, v.hour, v.minute, v.second]}
    if isinstance(v, list):
        return {'l': [enc(x) for x in v]}
    if isinstance(v, tuple):
        return {'u': [enc(x) for x in v]}
    if isinstance(v, dict):
        return {'d': [[enc(k), enc(x)] for k, x in v.items()]}
    raise TypeError(type(v))


def dec(j):
    (t, v), = j.items()
    if t == 'n':
        return None
    if t == 'B':
        return bool(v)
    if t == 'i':
        return pyval._str_int(v)
    if t == 'f':
        return float.fromhex(v) if v not in ('nan', 'inf', '-inf') else float(v)
    if t == 's':
        return v
    if t == 'b':
        return bytes.fromhex(v)
    if t == 'D':
        return datetime.datetime(*v)
    if t == 'l':
        return [dec(x) for x in v]
    if t == 'u':
        return tuple(dec(x) for x in v)
    if t == 'd':
        return {dec(k): dec(x) for k, x in v}
    raise ValueError(t)


# ------------------------------------------------------------------ generator

def pyify(r, v, key=None, keep_bytes=0.1):
    """bencode value → the Python value torf would hold (str where valid UTF-8)"""
    if isinstance(v, bytes):
        if key == b'pieces':
            return v
        try:
            s = v.decode('utf8')
        except UnicodeDecodeError:
            return v
        return v if (r.random() < keep_bytes and key not in (b'announce', b'md5sum', b'url-list', b'httpseeds')) else s
    if isinstance(v, list):
        out = [pyify(r, x, None, keep_bytes if key not in (b'announce-list', b'url-list') else 0) for x in v]
        return tuple(out) if r.random() < 0.15 else out
    if isinstance(v, dict):
        out = {}
        for k, x in v.items():
            try:
                ks = k.decode('utf8')
            except UnicodeDecodeError:
                ks = k
            out[ks] = pyify(r, x, k, keep_bytes)
        return out
    return v


def rpy(r, depth=0, bad=0.0):
    k = r.random()
    if k < bad:
        return r.choice([None, float('nan'), float('inf'), float('-inf'), {b'k': 1}, {1: 2}, {'a': None},
                         [None], datetime.datetime(1, 1, 1), {('t',): 1}])
    if depth > 3 or k < 0.15:
        return gen.rint(r)
    if k < 0.25:
        return r.random() < 0.5
    if k < 0.4:
        return r.choice([0.0, -0.0, 0.5, -0.5, 1.0, 1.9999, -1.9999, 2.0 ** 53, 2.0 ** 70, 1e300, -1e300, 1e-300,
                         r.uniform(-1e6, 1e6), float(r.randint(-10, 10))])
    if k < 0.55:
        return gen.rtext(r).decode('utf8')
    if k < 0.62:
        return gen.rbytes(r)
    if k < 0.7:
        return datetime.datetime(r.randint(1971, 2100), r.randint(1, 12), r.randint(1, 28), r.randint(0, 23),
                                 r.randint(0, 59), r.randint(0, 59))
    if k < 0.85:
        xs = [rpy(r, depth + 1, bad) for _ in range(r.choice([0, 1, 2, 3]))]
        return tuple(xs) if r.random() < 0.4 else xs
    return {gen.rtext(r, 0, 3).decode('utf8'): rpy(r, depth + 1, bad) for _ in range(r.choice([0, 1, 2, 3]))}


def py_features(v, acc=None):
    if acc is None:
        acc = set()
    if isinstance(v, bool):
        acc.add('bool')
    elif isinstance(v, float):
        acc.add('float')
    elif isinstance(v, datetime.datetime):
        acc.add('datetime')
    elif isinstance(v, tuple):
        acc.add('tuple')
        for x in v:
            py_features(x, acc)
    elif isinstance(v, list):
        for x in v:
            py_features(x, acc)
    elif isinstance(v, bytes):
        try:
            v.decode('utf8')
        except UnicodeDecodeError:
            acc.add('non-utf8-bytes')
    elif isinstance(v, dict):
        ks = [k for k in v if isinstance(k, str)]
        if any(ord(c) > 127 for k in ks for c in k):
            acc.add('multibyte-key')
        u16 = sorted(ks, key=lambda s: s.encode('utf-16-be', 'surrogatepass'))
        if u16 != sorted(ks):
            acc.add('utf16-order-differs')
        for x in v.values():
            py_features(x, acc)
    return acc


BATCH = 2500


def gen_cases(ctx, n_docs):
    r = ctx.rng
    cases = []
    for _ in range(n_docs):
        k = r.random()
        kind = 'valid'
        bad = 0.0
        opts = {}
        if k < 0.08:
            bad = 0.25
            kind = 'unencodable-values'
        elif k < 0.12:
            opts['badkeys'] = 0.4
            kind = 'bytes-keys'
        elif k < 0.16:
            opts['nopieces'] = True
            kind = 'validate-refuses'
        md = gen.metainfo(r, opts)
        m = pyify(r, md)
        if 'creation date' in m and r.random() < 0.5:
            try:
                m['creation date'] = datetime.datetime.fromtimestamp(m['creation date'])
            except (ValueError, OverflowError, OSError):
                pass
        if 'private' in m['info'] and r.random() < 0.5:
            m['info']['private'] = bool(m['info']['private'])
        targets = [m, m['info']] + [f for f in m['info'].get('files', []) if isinstance(f, dict)]
        for _ in range(r.choice([0, 1, 2, 3, 4])):
            tgt = r.choice(targets)
            key = gen.rtext(r, 0, 3).decode('utf8')
            if key.encode() in gen.RESERVED_TOP | gen.RESERVED_INFO | {b'path'}:
                continue
            tgt[key] = rpy(r, 0, bad)
        validate = r.random() < 0.85
        cases.append({'m': enc(m), 'validate': validate, 'kind': kind})
    return cases


# ------------------------------------------------------------------ real code

def _attempt(f):
    try:
        return {'ok': f()}
    except Exception as e:  # noqa
        return {'err': ekind(e)}


_SEQ = [0]


def written_variants(t, V, content):
    """write_stream() into fresh and *used* streams and write(): the bytes that end up in the stream / file.
    `content` = what dump() returned (only its length is used, to size the old content)."""
    n = len(content)
    out = {}

    def rec(name, f):
        try:
            out[name] = {'ok': f().hex()}
        except Exception as e:  # noqa
            out[name] = {'err': ekind(e)}

    def reused():
        b = io.BytesIO()
        t.write_stream(b, validate=V)             # first export leaves the position at the end
        t.write_stream(b, validate=V)             # second export into the same stream
        return b.getvalue()

    def used(old, pos):
        def f():
            b = io.BytesIO(old)
            b.seek(pos)
            t.write_stream(b, validate=V)
            return b.getvalue()
        return f
    rec('bytesio reused for a second export', reused)
    rec('bytesio with longer old content, position in the middle', used(b'x' * (n + 37), 17))
    rec('bytesio with longer old content, position at the end', used(b'x' * (n + 5), n + 5))
    rec('bytesio with shorter old content, position at the end', used(b'abc', 3))
    rec('bytesio with old content, position 0', used(b'x' * (n + 9), 0))
    _SEQ[0] += 1
    base = os.path.join(common.worker_dir(), 'c06-%d-%d' % (os.getpid(), _SEQ[0]))

    def rplus():
        path = base + '.rplus.torrent'
        with open(path, 'wb') as f:
            f.write(b'd4:old!' + b'y' * (n + 11) + b'e')
        try:
            with open(path, 'r+b') as f:
                f.read()                            # the caller has read the old file through this handle
                t.write_stream(f, validate=V)
            with open(path, 'rb') as f:
                return f.read()
        finally:
            os.unlink(path)

    def wfile(old):
        def f():
            path = base + '.write.torrent'
            if old is not None:
                with open(path, 'wb') as fh:
                    fh.write(old)
            try:
                t.write(path, validate=V, overwrite=True)
                with open(path, 'rb') as fh:
                    return fh.read()
            finally:
                if os.path.exists(path):
                    os.unlink(path)
        return f
    rec('file opened r+b, read to the end, then write_stream()', rplus)
    rec('write() to a new file', wfile(None))
    rec('write(overwrite=True) over a longer file', wfile(b'z' * (n + 23)))
    return out


def _run_chunk(cases):
    torf = common.import_torf()
    out = []
    shared = torf.Torrent()               # ONE object that exports every document of the chunk in turn
    shared.metainfo['info'] = {'name': 'earlier', 'piece length': 16384, 'length': 3, 'pieces': bytes(20)}
    for f in (lambda: shared.infohash, lambda: shared.infohash_base32, lambda: shared.dump(), lambda: shared.magnet()):
        _attempt(f)                       # ... so that also the first document of a chunk (a replayed case) has a past
    for c in cases:
        m = dec(c['m'])
        V = c['validate']
        obs = {'mjson': pyval.to_json(m), 'feats': sorted(py_features(m))}
        t = torf.Torrent()
        t.metainfo.clear()
        t.metainfo.update(m)
        try:
            t.validate()
            obs['vok'] = True
        except Exception:  # noqa
            obs['vok'] = False
        d = _attempt(lambda: t.dump(validate=V))
        obs['dump'] = {'ok': d['ok'].hex()} if 'ok' in d else d

        def ws():
            b = io.BytesIO()
            t.write_stream(b, validate=V)
            return b.getvalue().hex()
        obs['write_stream'] = _attempt(ws)
        if 'ok' in d:
            obs['written'] = written_variants(t, V, d['ok'])
        obs['infohash'] = _attempt(lambda: t.infohash)
        obs['b32'] = _attempt(lambda: t.infohash_base32.decode('ascii'))
        obs['xt'] = _attempt(lambda: t.magnet().xt)
        obs['magnet_infohash'] = _attempt(lambda: t.magnet().infohash)
        obs['magnet_str'] = _attempt(lambda: str(t.magnet()))
        # history: the same exports on an object that held (and exported) other metainfo before
        shared.metainfo.clear()
        shared.metainfo.update(dec(c['m']))
        first = [('infohash', lambda: shared.infohash), ('dump', lambda: shared.dump(validate=V).hex())]
        if len(out) % 2:
            first.reverse()
        rest = [('b32', lambda: shared.infohash_base32.decode('ascii')), ('xt', lambda: shared.magnet().xt)]
        obs['reused'] = {n: _attempt(f) for n, f in first + rest}
        out.append(obs)
    return out


def evaluate(ctx, drv, cases):
    results = common.pmap(_run_chunk, common.split(cases, common.NPROC * 4))
    obs_all = [o for chunk in results for o in chunk]
    replies = drv.run([{'op': 'c06.export', 'm': o['mjson'], 'vok': o['vok'], 'validate': c['validate']}
                       for c, o in zip(cases, obs_all)])
    hash_reqs = []
    hash_idx = {}
    for i, (c, o, m) in enumerate(zip(cases, obs_all, replies)):
        case = {'m': c['m'], 'validate': c['validate'], 'kind': c['kind']}
        dumped = 'ok' in o['dump']
        feats = set(o['feats'])
        nontrivial = dumped and c['validate'] and bool(feats)
        ctx.case(key=o['dump'].get('ok', '')[:4000] if nontrivial else None, nontrivial=nontrivial,
                 kind=c['kind'] + ('/dumped' if dumped else '/refused') + ('' if c['validate'] else '/novalidate'))
        for f in feats:
            ctx.dist['feature:' + f] += 1
        if nontrivial:
            ctx.sample({'case': {'validate': c['validate'], 'kind': c['kind'], 'm': _short(c['m'], 300)},
                        'dump': o['dump']['ok'][:200], 'infohash': o['infohash']})
        # ---------------- specification on the real output
        span = None
        if dumped:
            y = bytes.fromhex(o['dump']['ok'])
            bad = None
            try:
                top, spans = bstrict.strict_parse(y)
            except bstrict.NonCanonical as e:
                bad = ('dump() is not canonical bencoding: %s' % e, o['dump']['ok'][:400])
                top = None
            if bad is None and o['write_stream'] != o['dump']:
                bad = ('write_stream() output differs from dump()', _short(o['write_stream']))
            if bad is None:
                fresh = {'infohash': o['infohash'], 'dump': o['dump'], 'b32': o['b32'], 'xt': o['xt']}
                if o.get('reused', fresh) != fresh:
                    bad = ('a Torrent object that held and exported other metainfo before does not export like a fresh '
                           'object with the same metainfo (infohash / dump / base32 / magnet xt)',
                           {k: [_short(fresh[k], 120), _short(o['reused'][k], 120)] for k in fresh if fresh[k] != o['reused'][k]})
            if bad is None:
                for name, w in sorted(o.get('written', {}).items()):
                    ctx.dist['written/' + name] += 1
                    if w != o['dump']:
                        bad = ('the bytes written (%s) are not the dump(): the stream / file does not carry the info '
                               'dictionary whose SHA-1 is the infohash' % name,
                               {'variant': name, 'written': _short(w, 300), 'dump': o['dump']['ok'][:120],
                                'strict parser on the written bytes': _diagnose(w)})
                        break
            if bad is None and isinstance(top, dict) and b'info' in top:
                span = spans[id(top)][b'info']
                digest = hashlib.sha1(y[span[0]:span[1]]).digest()
                if 'ok' in o['infohash']:
                    ih = o['infohash']['ok']
                    if ih != digest.hex():
                        bad = ('infohash is not the SHA-1 of the info span of the dumped bytes',
                               {'infohash': ih, 'sha1(span)': digest.hex(), 'span': span})
                    elif 'ok' not in o['b32'] or base64.b32decode(o['b32']['ok']) != digest:
                        bad = ('infohash_base32 does not decode to the infohash', o['b32'])
                    elif o['xt'].get('err', 'magnet') != 'magnet':
                        # magnet() could not be built for a reason unrelated to the hash (e.g. a URL the
                        # Magnet class refuses): no claim of C06; counted, never silent
                        ctx.dist['magnet-unavailable:' + o['xt']['err']] += 1
                    elif o['xt'] != {'ok': 'urn:btih:' + ih} or o['magnet_infohash'] != {'ok': ih}:
                        bad = ('magnet xt does not carry the infohash', [o['xt'], o['magnet_infohash']])
                    elif 'ok' not in o['magnet_str'] or not o['magnet_str']['ok'].startswith('magnet:?xt=urn:btih:' + ih):
                        bad = ('str(magnet()) does not carry the infohash', o['magnet_str'])
                elif c['validate']:
                    bad = ('dump(validate=True) succeeded but infohash raised', o['infohash'])
            elif bad is None and c['validate']:
                bad = ('dump(validate=True) output has no info dictionary', o['dump']['ok'][:200])
            if bad:
                ctx.violation(bad[0], case, 'canonical dump; infohash == sha1(info span) == magnet/base32 hash',
                              bad[1], finding_matchers=MATCHERS)
                continue
        else:
            if o['dump']['err'] != 'metainfo':
                ctx.violation('dump() raised an undocumented error', case, 'MetainfoError', o['dump'],
                              finding_matchers=MATCHERS)
                continue
        # ---------------- model vs specification (theorems C06_canonical / C06_span)
        if m['hyp'] and not m['canon']:
            ctx.machinery_error('model dump is not canonical (contradicts C06_canonical)', case)
            continue
        # ---------------- correspondence
        if m['dump'] != o['dump']:
            ctx.corr_break('c06.export/dump', case, _short(m['dump']), _short(o['dump']))
            continue
        mib = m['infoBytes']
        if 'ok' in mib:
            if 'ok' not in o['infohash'] or hashlib.sha1(bytes.fromhex(mib['ok'])).hexdigest() != o['infohash']['ok']:
                ctx.corr_break('c06.export/infohash', case, _short(mib), o['infohash'])
                continue
            if dumped and span is not None:
                if m['span'] != [span[0], span[1] - span[0]] or mib['ok'] != o['dump']['ok'][2 * span[0]:2 * span[1]]:
                    ctx.corr_break('c06.export/span', case, m['span'], list(span))
                    continue
            hash_idx[len(hash_reqs)] = (case, o)
            hash_reqs.append({'op': 'c06.hash', 'digest': hashlib.sha1(bytes.fromhex(mib['ok'])).hexdigest()})
        elif mib != o['infohash']:
            ctx.corr_break('c06.export/infohash', case, mib, o['infohash'])
    # digest renderings
    r = ctx.rng
    extra = [bytes(r.randrange(256) for _ in range(20)) for _ in range(ctx.n(200, 5000))]
    extra += [b'\x00' * 20, b'\xff' * 20, bytes(range(20))]
    for j, hr in enumerate(drv.run(hash_reqs + [{'op': 'c06.hash', 'digest': d.hex()} for d in extra])):
        if j < len(hash_reqs):
            case, o = hash_idx[j]
            d = bytes.fromhex(hash_reqs[j]['digest'])
            impl = {'hex': o['infohash'].get('ok'), 'b32': o['b32'].get('ok'), 'xt': o['xt']}
            if o['xt'].get('err', 'magnet') != 'magnet':
                impl['xt'] = hr['xt']
        else:
            d = extra[j - len(hash_reqs)]
            case = {'digest': d.hex()}
            impl = {'hex': d.hex(), 'b32': base64.b32encode(base64.b16decode(d.hex().upper())).decode(),
                    'xt': {'ok': 'urn:btih:' + d.hex()}}
            ctx.case(kind='digest-rendering')
        model = {'hex': hr['hex'], 'b32': hr['b32'], 'xt': hr['xt']}
        if hr['b32dec'] != d.hex() or hr['unhex'] != d.hex():
            ctx.machinery_error('model base32/base16 round trip fails (contradicts C06_base32)', case)
        elif model != impl:
            ctx.corr_break('c06.hash', case, model, impl)
    # base32 of arbitrary lengths against the standard library (model of base64.b32encode/b32decode)
    xs = [bytes(r.randrange(256) for _ in range(r.randint(0, 23))) for _ in range(ctx.n(300, 5000))]
    for x, br in zip(xs, drv.run([{'op': 'c06.b32', 'x': x.hex()} for x in xs])):
        ctx.case(kind='b32-stdlib')
        if br['enc'] != base64.b32encode(x).decode() or br['dec'] != x.hex():
            ctx.corr_break('c06.b32', {'x': x.hex()}, br, base64.b32encode(x).decode())


# ------------------------------------------------------------------ exotic values, several exports of ONE torrent
class _Seq(collections.abc.Sequence):
    def __init__(self, xs):
        self.xs = list(xs)

    def __getitem__(self, i):
        return self.xs[i]

    def __len__(self):
        return len(self.xs)


class _Map(collections.abc.Mapping):
    def __init__(self, d):
        self.d = dict(d)

    def __getitem__(self, k):
        return self.d[k]

    def __iter__(self):
        return iter(self.d)

    def __len__(self):
        return len(self.d)


class _Coll(collections.abc.Collection):
    def __init__(self, xs):
        self.xs = list(xs)

    def __contains__(self, x):
        return x in self.xs

    def __iter__(self):
        return iter(self.xs)

    def __len__(self):
        return len(self.xs)


class _ReIterable:
    """iterable again and again, but neither Sequence nor Collection"""
    def __init__(self, xs):
        self.xs = list(xs)

    def __iter__(self):
        return iter(self.xs)


class _Color(enum.IntEnum):
    RED = 1


class _Str(str):
    pass


class _Bytes(bytes):
    pass


def _hashable(xs):
    return [x for x in xs if isinstance(x, (int, str, bytes))]


def _gen(xs):
    for x in xs:
        yield x


# kind -> constructor from a list of plain items.  The first group are one-shot iterators (consumed by iterating).
EXOTIC = collections.OrderedDict([
    ('generator', lambda xs: _gen(xs)),
    ('genexpr', lambda xs: (x for x in xs)),
    ('map', lambda xs: map(lambda x: x, xs)),
    ('filter', lambda xs: filter(lambda x: True, xs)),
    ('zip', lambda xs: zip(xs, xs)),
    ('list_iterator', lambda xs: iter(xs)),
    ('reversed', lambda xs: reversed(xs)),
    ('enumerate', lambda xs: enumerate(xs)),
    ('chain', lambda xs: itertools.chain(xs, xs[:1])),
    ('islice', lambda xs: itertools.islice(xs, 0, None)),
    ('dict_keyiterator', lambda xs: iter({'k%d' % i: x for i, x in enumerate(xs)})),
    ('reiterable', lambda xs: _ReIterable(xs)),
    ('dict_keys', lambda xs: {'k%d' % i: x for i, x in enumerate(xs)}.keys()),
    ('dict_values', lambda xs: {'k%d' % i: x for i, x in enumerate(xs)}.values()),
    ('dict_items', lambda xs: {'k%d' % i: x for i, x in enumerate(xs)}.items()),
    ('set', lambda xs: set(_hashable(xs))),
    ('frozenset', lambda xs: frozenset(_hashable(xs))),
    ('range', lambda xs: range(len(xs))),
    ('bytearray', lambda xs: bytearray(b'ab\x00\xff'[:len(xs) + 1])),
    ('memoryview', lambda xs: memoryview(b'mv\x00\xff'[:len(xs) + 1])),
    ('deque', lambda xs: collections.deque(xs)),
    ('userlist', lambda xs: collections.UserList(xs)),
    ('userdict', lambda xs: collections.UserDict({'k%d' % i: x for i, x in enumerate(xs)})),
    ('ordereddict', lambda xs: collections.OrderedDict(('k%d' % (len(xs) - i), x) for i, x in enumerate(xs))),
    ('mappingproxy', lambda xs: types.MappingProxyType({'k%d' % i: x for i, x in enumerate(xs)})),
    ('custom_sequence', lambda xs: _Seq(xs)),
    ('custom_mapping', lambda xs: _Map({'k%d' % i: x for i, x in enumerate(xs)})),
    ('custom_collection', lambda xs: _Coll(xs)),
    ('intenum', lambda xs: _Color.RED),
    ('str_subclass', lambda xs: _Str('text')),
    ('bytes_subclass', lambda xs: _Bytes(b'by')),
])
ONE_SHOT = ['generator', 'genexpr', 'map', 'filter', 'zip', 'list_iterator', 'reversed', 'enumerate', 'chain', 'islice',
            'dict_keyiterator']
EXPORTS = ['infohash', 'b32', 'magnet', 'magnet_str', 'dump', 'write_stream', 'write']


def plain(v):
    """The value a re-iterable exotic object stands for, by the converter's documented dispatch (str, float, bool,
    Mapping -> dict, Sequence/Collection -> list); never iterates anything that is not a Collection, so one-shot
    iterators stay what they are (PyVal.other in the model: 'Invalid value')."""
    if type(v) in (bytes, int, bool, float) or v is None:
        return v
    if isinstance(v, str):
        return str(v)
    if isinstance(v, float):
        return float(v)
    if isinstance(v, int):
        return _ReIterable([])            # int subclass: no converter applies -> other
    if isinstance(v, collections.abc.Mapping):
        return {k: plain(x) for k, x in v.items()}
    if isinstance(v, (collections.abc.Sequence, collections.abc.Collection)):
        out = [plain(x) for x in v]
        return tuple(out) if type(v) is tuple else out
    return v


def _items(r):
    k = r.random()
    if k < 0.1:
        return []
    pool = ['a', 'b', 'tracker-less', 'é', 1, 0, -7, 2 ** 40, b'raw', b'\xff', 'org.example.collection']
    xs = [r.choice(pool) for _ in range(r.randint(1, 4))]
    if r.random() < 0.25:
        xs.append([r.choice(pool), {'k': r.choice(pool)}])
    return xs


def exotic_cases(ctx, n):
    r = ctx.rng
    cases = []
    kinds = list(EXOTIC)
    fixed = [('generator', ['info', 'collections'], ['org.example.a', 'org.example.b'], ['infohash', 'dump']),
             ('map', ['info', 'collections'], ['a'], ['dump', 'infohash']),
             ('filter', ['info', 'x'], ['a', 1], ['infohash', 'b32']),
             ('zip', ['top', 'x'], ['a'], ['dump', 'write_stream']),
             ('list_iterator', ['info', 'similar'], [b'\x01' * 20], ['magnet', 'infohash', 'write'])]
    for i in range(n):
        if i < len(fixed):
            kind, path, items, order = fixed[i]
            where = path
        else:
            kind = r.choice(ONE_SHOT) if r.random() < 0.45 else r.choice(kinds)
            items = _items(r)
            key = r.choice(['collections', 'similar', 'x', 'zz', 'é', ''])
            where = r.choice([['info', key], ['info', key], ['top', key], ['file', key], ['info', key, 'nested'],
                              ['info', key, 'listed']])
            order = [r.choice(EXPORTS) for _ in range(r.randint(2, 7))]
        md = gen.metainfo(r, {})
        m = pyify(r, md, keep_bytes=0)
        cases.append({'kind': 'exotic', 'm': enc(m), 'exotic': {'kind': kind, 'items': enc(items)}, 'where': where,
                      'order': order, 'validate': True,
                      'py': "%s = %s(%r)" % (''.join('[%r]' % w for w in where), kind, items)})
    return cases


def _place(m, where, v):
    """put v into the metainfo; returns False if the document has no such place"""
    tgt = m if where[0] == 'top' else m.get('info')
    if where[0] == 'file':
        files = [f for f in (m.get('info') or {}).get('files', []) if isinstance(f, dict)] if isinstance(m.get('info'), dict) else []
        if not files:
            tgt = m.get('info')
        else:
            tgt = files[0]
    if not isinstance(tgt, dict):
        return False
    key = where[1]
    if where[0] == 'top' and key in ('info', 'announce', 'announce-list', 'url-list', 'httpseeds', 'creation date',
                                     'comment', 'created by', 'encoding'):
        key = 'x-' + key
    if where[0] != 'top' and key.encode() in gen.RESERVED_INFO | {b'path', b'length'}:
        key = 'x-' + key
    if len(where) > 2:
        v = {'inner': v} if where[2] == 'nested' else ['first', v]
    tgt[key] = v
    return True


def _run_exotic_chunk(cases):
    torf = common.import_torf()
    out = []
    for ci, c in enumerate(cases):
        m = dec(c['m'])
        items = dec(c['exotic']['items'])
        v = EXOTIC[c['exotic']['kind']](items)
        if not _place(m, c['where'], v):
            out.append({'skipped': True})
            continue
        obs = {'mjson': pyval.to_json(plain(m)), 'type': type(v).__name__}
        t = torf.Torrent()
        t.metainfo.clear()
        t.metainfo.update(m)
        try:
            t.validate()
            obs['vok'] = True
        except Exception:  # noqa
            obs['vok'] = False

        def ws():
            b = io.BytesIO()
            t.write_stream(b, validate=True)
            return b.getvalue().hex()

        def wr():
            path = os.path.join(common.worker_dir(), 'c06x-%d-%d.torrent' % (os.getpid(), ci))
            try:
                t.write(path, validate=True, overwrite=True)
                with open(path, 'rb') as f:
                    return f.read().hex()
            finally:
                if os.path.exists(path):
                    os.unlink(path)
        ops = {'infohash': lambda: t.infohash, 'b32': lambda: t.infohash_base32.decode('ascii'),
               'magnet': lambda: t.magnet().xt, 'magnet_str': lambda: str(t.magnet()),
               'dump': lambda: t.dump(validate=True).hex(), 'write_stream': ws, 'write': wr}
        obs['results'] = [[name, _attempt(ops[name])] for name in c['order']]
        out.append(obs)
    return out


def evaluate_exotic(ctx, drv, cases):
    results = common.pmap(_run_exotic_chunk, common.split(cases, common.NPROC * 4))
    pairs = [(c, o) for c, o in zip(cases, [o for ch in results for o in ch]) if not o.get('skipped')]
    replies = drv.run([{'op': 'c06.export', 'm': o['mjson'], 'vok': o['vok'], 'validate': True} for c, o in pairs])
    for (c, o), m in zip(pairs, replies):
        case = {k: c[k] for k in ('kind', 'm', 'exotic', 'where', 'order', 'validate', 'py')}
        res = o['results']
        oks = [(n, r['ok']) for n, r in res if 'ok' in r]
        errs = [(n, r['err']) for n, r in res if 'err' in r]
        written = [(n, x) for n, x in oks if n in ('dump', 'write_stream', 'write')]
        accepted = bool(written)
        ctx.case(key=('x', c['exotic']['kind'], tuple(c['where']), tuple(c['order']), written[0][1][:2000] if written else None),
                 nontrivial=True, kind='exotic/%s/%s' % (c['exotic']['kind'], 'exported' if accepted else 'hash-only' if oks else 'refused'))
        if ctx.dist['sampled-exotic'] < 2 and (accepted or ctx.dist['sampled-exotic'] == 0):
            ctx.dist['sampled-exotic'] += 1
            ctx.sample({'case': {k: case[k] for k in ('py', 'order')}, 'results': [[n, _short(r, 90)] for n, r in res]}, limit=8)
        # ---------------- the property on what the implementation did (implementation vs specification)
        bad = None
        digests = []                      # (operation, the 20-byte digest it reports, as hex)
        for n, x in oks:
            try:
                if n == 'infohash':
                    digests.append((n, x if len(x) == 40 and x == x.lower() else 'malformed:' + x))
                elif n == 'b32':
                    digests.append((n, base64.b32decode(x).hex()))
                elif n == 'magnet':
                    digests.append((n, x[len('urn:btih:'):] if x.startswith('urn:btih:') else 'malformed:' + x))
                elif n == 'magnet_str':
                    digests.append((n, x[len('magnet:?xt=urn:btih:'):][:40] if x.startswith('magnet:?xt=urn:btih:') else 'malformed:' + x))
            except Exception as e:  # noqa
                digests.append((n, 'malformed:%r' % (x,)))
        other = [(n, e) for n, e in errs if e != 'metainfo' and not (n in ('magnet', 'magnet_str') and e != 'magnet')]
        for n, e in errs:
            if n in ('magnet', 'magnet_str') and e not in ('metainfo', 'magnet'):
                ctx.dist['magnet-unavailable:' + e] += 1
        if other:
            bad = ('an export operation raised an undocumented error', other)
        if bad is None and len({x for _, x in written}) > 1:
            bad = ('dump() / write_stream() / write() of one unchanged Torrent object produced different bytes', _short(written, 500))
        if bad is None and len({d for _, d in digests}) > 1:
            bad = ('infohash, infohash_base32 and the magnet link of one unchanged Torrent object denote different hashes',
                   digests)
        if bad is None and written:
            y = bytes.fromhex(written[0][1])
            try:
                top, spans = bstrict.strict_parse(y)
                if not (isinstance(top, dict) and b'info' in top):
                    bad = ('written bytes have no info dictionary', written[0][1][:200])
                else:
                    a, b = spans[id(top)][b'info']
                    d = hashlib.sha1(y[a:b]).hexdigest()
                    wrong = [(n, x) for n, x in digests if x != d]
                    if wrong:
                        bad = ('the reported infohash is not the SHA-1 of the info span of the bytes that were written',
                               {'sha1(info span of %s)' % written[0][0]: d, 'reported': digests,
                                'info span': y[a:b][:300]})
                    elif not digests and any(n in ('infohash', 'b32') for n, _ in errs):
                        bad = ('the torrent was written but its infohash cannot be read', errs)
            except bstrict.NonCanonical as e:
                bad = ('written bytes are not canonical bencoding: %s' % e, written[0][1][:400])
        if bad:
            ctx.violation(bad[0] + ' [exports in this order on one Torrent: %s]' % ', '.join(c['order']), case,
                          'every export raises MetainfoError, or all exports agree: one byte string, canonical, '
                          'sha1(info span) == infohash == b32decode(infohash_base32) == magnet xt',
                          {'detail': bad[1], 'results': [[n, _short(r, 200)] for n, r in res]}, finding_matchers=MATCHERS)
            continue
        # ---------------- correspondence with the model on the value the object stands for
        if m['hyp'] and not m['canon']:
            ctx.machinery_error('model dump is not canonical (contradicts C06_canonical)', case)
            continue
        for n, x in written:
            if m['dump'] != {'ok': x}:
                ctx.corr_break('c06.export/exotic-dump', case, _short(m['dump']), _short({n: x}))
                break
        else:
            werrs = [(n, e) for n, e in errs if n in ('dump', 'write_stream', 'write')]
            if werrs and m['dump'] != {'err': werrs[0][1]}:
                ctx.corr_break('c06.export/exotic-dump', case, _short(m['dump']), werrs[0])
                continue
            mib = m['infoBytes']
            for n, d in digests:
                if 'ok' not in mib or hashlib.sha1(bytes.fromhex(mib['ok'])).hexdigest() != d:
                    ctx.corr_break('c06.export/exotic-infohash', case, _short(mib), [n, d])
                    break
            else:
                ierrs = [(n, e) for n, e in errs if n in ('infohash', 'b32')]
                if ierrs and mib != {'err': ierrs[0][1]}:
                    ctx.corr_break('c06.export/exotic-infohash', case, _short(mib), ierrs[0])


def _diagnose(w):
    if 'ok' not in w:
        return 'raised ' + str(w.get('err'))
    try:
        bstrict.strict_parse(bytes.fromhex(w['ok']))
        return 'canonical, but different from dump()'
    except bstrict.NonCanonical as e:
        return 'not canonical bencoding: %s' % e


def _short(x, n=600):
    s = repr(x)
    return s if len(s) <= n else s[:n] + '…'


def _load_corpus(ctx):
    import glob
    import json
    import os
    out = []
    for p in sorted(glob.glob(os.path.join(common.CORPUS_DIR, ctx.prop, '*.json'))):
        j = json.load(open(p))
        out.extend(j if isinstance(j, list) else [j])
    return out


def run(ctx, drv):
    ctx.notes['rule'] = RULE
    ctx.notes['assumptions'] = [
        'SHA-1 is a parameter H of the model (the harness applies hashlib.sha1 to the bytes the model says are hashed)',
        'Torrent.validate() is a parameter of the dump/infohash model (property C07); the harness supplies the real verdict',
        'datetime.timestamp() is an oracle carried inside PyVal.datetime',
        'base64.b32encode/b32decode/b16decode and bytes.hex are modelled (Model/Base32.lean) and compared with the standard library',
        'exotic values (second stream): a re-iterable Collection / Mapping is given to the model as the list / dict of its '
        'items (taken from the same object before the exports), a one-shot iterator as PyVal.other; the demand that all '
        'exports of one object agree with the bytes written is checked on the implementation directly '
        '(implementation vs specification, no theorem quantifies over such values); cyclic containers are not generated',
        'torrents created from a magnet link (the _infohash fallback of Torrent.infohash) are outside the model',
    ]
    total = ctx.n(2500, 40000)
    cases = _load_corpus(ctx)
    exo = [c for c in cases if c.get('kind') == 'exotic']
    cases = [c for c in cases if c.get('kind') != 'exotic']
    evaluate_exotic(ctx, drv, exo + exotic_cases(ctx, ctx.n(1500, 20000)))
    while total > 0:
        n = min(BATCH, total)
        total -= n
        evaluate(ctx, drv, cases + gen_cases(ctx, n))
        cases = []
        if ctx.violations:
            break
    ctx.exhaustive = False


def search(ctx, drv):
    evaluate_exotic(ctx, drv, exotic_cases(ctx, ctx.n(3000, 10000)))
    for _ in range(2):
        evaluate(ctx, drv, gen_cases(ctx, ctx.n(2500, 5000)))
        if ctx.violations:
            break


def replay(ctx, drv, rp):
    c = dict(rp['case'])
    c.setdefault('kind', 'replay')
    if 'm' not in c:
        return {'fails': False, 'note': 'digest-only case'}
    if c.get('kind') == 'exotic':
        evaluate_exotic(ctx, drv, [c])
    else:
        evaluate(ctx, drv, [c])
    return {'fails': bool(ctx.violations or ctx.corr_breaks), 'violations': ctx.violations,
            'corr_breaks': ctx.corr_breaks}
