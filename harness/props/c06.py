"""
C06 — the infohash is the SHA-1 of exactly the info bytes that are written; dumps are canonical.

SPEC (checked on the real code with an independent strict bencode parser written in Python):
  for every metainfo m the converter accepts: dump() parses strictly (keys strictly ascending as
  raw bytes, minimal numerals, nothing trailing); the byte span of the value of key `info` in
  dump()/write_stream() output hashes (SHA-1) to `infohash`; b32decode(infohash_base32) is that
  digest; `magnet().xt == 'urn:btih:' + infohash` and str(magnet()) carries it.
CORRESPONDENCE with the Lean model (`ReadStream.dump/infoBytes`, `Base32.*`, `magnetXt`):
  dump bytes / error kind, the bytes fed to SHA-1, the span the model computes, hex/base32/xt
  renderings of the digest.
"""
import base64
import datetime
import hashlib
import io
import math

from harness import common
from harness.gen import metainfo as gen
from harness.impl import bencode_strict as bstrict
from harness.impl import pyval

RULE = ('metainfo objects = valid torrents from the C05 grammar turned into Python values (str where UTF-8, '
        'bytes otherwise) with extra fields of every type the converter accepts (str, bytes, int, bool, '
        'float, datetime, tuple/list, nested dict with non-ASCII keys) at top level, in info and in file '
        'entries, plus values it must refuse (None, nan/inf, non-str keys, unrepresentable datetime) and '
        'documents validate() refuses; non-trivial = dump succeeded with validate=True and the document has '
        'a converter-only type (bool/float/datetime/tuple) or a multi-byte / order-sensitive key or a '
        'non-UTF-8 byte string; distinct = distinct dumped bytes')

MATCHERS = {}


def ekind(e):
    n = type(e).__name__
    return {'MetainfoError': 'metainfo', 'BdecodeError': 'bdecode', 'ReadError': 'read',
            'ValueError': 'value', 'MagnetError': 'magnet'}.get(n, 'internal:' + n)


# ------------------------------------------------------------------ case encoding (replayable JSON)

def enc(v):
    if v is None:
        return {'n': 1}
    if isinstance(v, bool):
        return {'B': v}
    if isinstance(v, int):
        return {'i': pyval._int_str(v)}
    if isinstance(v, float):
        return {'f': v.hex() if math.isfinite(v) else repr(v)}
    if isinstance(v, str):
        return {'s': v}
    if isinstance(v, bytes):
        return {'b': v.hex()}
    if isinstance(v, datetime.datetime):
        return {'D': [v.year, v.month, v.day, v.hour, v.minute, v.second]}
    if isinstance(v, list):
        return {'l': [enc(x) for x in v]}
    if isinstance(v, tuple):
        return {'u': [enc(x) for x in v]}
    if isinstance(v, dict):
        return {'d': [[enc(k), enc(x)] for k, x in v.items()]}
    raise TypeError(type(v))


def dec(j):
    (t, v), = j.items()
    if t == 'n':
        return None
    if t == 'B':
        return bool(v)
    if t == 'i':
        return pyval._str_int(v)
    if t == 'f':
        return float.fromhex(v) if v not in ('nan', 'inf', '-inf') else float(v)
    if t == 's':
        return v
    if t == 'b':
        return bytes.fromhex(v)
    if t == 'D':
        return datetime.datetime(*v)
    if t == 'l':
        return [dec(x) for x in v]
    if t == 'u':
        return tuple(dec(x) for x in v)
    if t == 'd':
        return {dec(k): dec(x) for k, x in v}
    raise ValueError(t)


# ------------------------------------------------------------------ generator

def pyify(r, v, key=None, keep_bytes=0.1):
    """bencode value → the Python value torf would hold (str where valid UTF-8)"""
    if isinstance(v, bytes):
        if key == b'pieces':
            return v
        try:
            s = v.decode('utf8')
        except UnicodeDecodeError:
            return v
        return v if (r.random() < keep_bytes and key not in (b'announce', b'md5sum', b'url-list', b'httpseeds')) else s
    if isinstance(v, list):
        out = [pyify(r, x, None, keep_bytes if key not in (b'announce-list', b'url-list') else 0) for x in v]
        return tuple(out) if r.random() < 0.15 else out
    if isinstance(v, dict):
        out = {}
        for k, x in v.items():
            try:
                ks = k.decode('utf8')
            except UnicodeDecodeError:
                ks = k
            out[ks] = pyify(r, x, k, keep_bytes)
        return out
    return v


def rpy(r, depth=0, bad=0.0):
    k = r.random()
    if k < bad:
        return r.choice([None, float('nan'), float('inf'), float('-inf'), {b'k': 1}, {1: 2}, {'a': None},
                         [None], datetime.datetime(1, 1, 1), {('t',): 1}])
    if depth > 3 or k < 0.15:
        return gen.rint(r)
    if k < 0.25:
        return r.random() < 0.5
    if k < 0.4:
        return r.choice([0.0, -0.0, 0.5, -0.5, 1.0, 1.9999, -1.9999, 2.0 ** 53, 2.0 ** 70, 1e300, -1e300, 1e-300,
                         r.uniform(-1e6, 1e6), float(r.randint(-10, 10))])
    if k < 0.55:
        return gen.rtext(r).decode('utf8')
    if k < 0.62:
        return gen.rbytes(r)
    if k < 0.7:
        return datetime.datetime(r.randint(1971, 2100), r.randint(1, 12), r.randint(1, 28), r.randint(0, 23),
                                 r.randint(0, 59), r.randint(0, 59))
    if k < 0.85:
        xs = [rpy(r, depth + 1, bad) for _ in range(r.choice([0, 1, 2, 3]))]
        return tuple(xs) if r.random() < 0.4 else xs
    return {gen.rtext(r, 0, 3).decode('utf8'): rpy(r, depth + 1, bad) for _ in range(r.choice([0, 1, 2, 3]))}


def py_features(v, acc=None):
    if acc is None:
        acc = set()
    if isinstance(v, bool):
        acc.add('bool')
    elif isinstance(v, float):
        acc.add('float')
    elif isinstance(v, datetime.datetime):
        acc.add('datetime')
    elif isinstance(v, tuple):
        acc.add('tuple')
        for x in v:
            py_features(x, acc)
    elif isinstance(v, list):
        for x in v:
            py_features(x, acc)
    elif isinstance(v, bytes):
        try:
            v.decode('utf8')
        except UnicodeDecodeError:
            acc.add('non-utf8-bytes')
    elif isinstance(v, dict):
        ks = [k for k in v if isinstance(k, str)]
        if any(ord(c) > 127 for k in ks for c in k):
            acc.add('multibyte-key')
        u16 = sorted(ks, key=lambda s: s.encode('utf-16-be', 'surrogatepass'))
        if u16 != sorted(ks):
            acc.add('utf16-order-differs')
        for x in v.values():
            py_features(x, acc)
    return acc


BATCH = 2500


def gen_cases(ctx, n_docs):
    r = ctx.rng
    cases = []
    for _ in range(n_docs):
        k = r.random()
        kind = 'valid'
        bad = 0.0
        opts = {}
        if k < 0.08:
            bad = 0.25
            kind = 'unencodable-values'
        elif k < 0.12:
            opts['badkeys'] = 0.4
            kind = 'bytes-keys'
        elif k < 0.16:
            opts['nopieces'] = True
            kind = 'validate-refuses'
        md = gen.metainfo(r, opts)
        m = pyify(r, md)
        if 'creation date' in m and r.random() < 0.5:
            try:
                m['creation date'] = datetime.datetime.fromtimestamp(m['creation date'])
            except (ValueError, OverflowError, OSError):
                pass
        if 'private' in m['info'] and r.random() < 0.5:
            m['info']['private'] = bool(m['info']['private'])
        targets = [m, m['info']] + [f for f in m['info'].get('files', []) if isinstance(f, dict)]
        for _ in range(r.choice([0, 1, 2, 3, 4])):
            tgt = r.choice(targets)
            key = gen.rtext(r, 0, 3).decode('utf8')
            if key.encode() in gen.RESERVED_TOP | gen.RESERVED_INFO | {b'path'}:
                continue
            tgt[key] = rpy(r, 0, bad)
        validate = r.random() < 0.85
        cases.append({'m': enc(m), 'validate': validate, 'kind': kind})
    return cases


# ------------------------------------------------------------------ real code

def _attempt(f):
    try:
        return {'ok': f()}
    except Exception as e:  # noqa
        return {'err': ekind(e)}


def _run_chunk(cases):
    torf = common.import_torf()
    out = []
    for c in cases:
        m = dec(c['m'])
        V = c['validate']
        obs = {'mjson': pyval.to_json(m), 'feats': sorted(py_features(m))}
        t = torf.Torrent()
        t.metainfo.clear()
        t.metainfo.update(m)
        try:
            t.validate()
            obs['vok'] = True
        except Exception:  # noqa
            obs['vok'] = False
        d = _attempt(lambda: t.dump(validate=V))
        obs['dump'] = {'ok': d['ok'].hex()} if 'ok' in d else d

        def ws():
            b = io.BytesIO()
            t.write_stream(b, validate=V)
            return b.getvalue().hex()
        obs['write_stream'] = _attempt(ws)
        obs['infohash'] = _attempt(lambda: t.infohash)
        obs['b32'] = _attempt(lambda: t.infohash_base32.decode('ascii'))
        obs['xt'] = _attempt(lambda: t.magnet().xt)
        obs['magnet_infohash'] = _attempt(lambda: t.magnet().infohash)
        obs['magnet_str'] = _attempt(lambda: str(t.magnet()))
        out.append(obs)
    return out


def evaluate(ctx, drv, cases):
    results = common.pmap(_run_chunk, common.split(cases, common.NPROC * 4))
    obs_all = [o for chunk in results for o in chunk]
    replies = drv.run([{'op': 'c06.export', 'm': o['mjson'], 'vok': o['vok'], 'validate': c['validate']}
                       for c, o in zip(cases, obs_all)])
    hash_reqs = []
    hash_idx = {}
    for i, (c, o, m) in enumerate(zip(cases, obs_all, replies)):
        case = {'m': c['m'], 'validate': c['validate'], 'kind': c['kind']}
        dumped = 'ok' in o['dump']
        feats = set(o['feats'])
        nontrivial = dumped and c['validate'] and bool(feats)
        ctx.case(key=o['dump'].get('ok', '')[:4000] if nontrivial else None, nontrivial=nontrivial,
                 kind=c['kind'] + ('/dumped' if dumped else '/refused') + ('' if c['validate'] else '/novalidate'))
        for f in feats:
            ctx.dist['feature:' + f] += 1
        if nontrivial:
            ctx.sample({'case': {'validate': c['validate'], 'kind': c['kind'], 'm': _short(c['m'], 300)},
                        'dump': o['dump']['ok'][:200], 'infohash': o['infohash']})
        # ---------------- specification on the real output
        span = None
        if dumped:
            y = bytes.fromhex(o['dump']['ok'])
            bad = None
            try:
                top, spans = bstrict.strict_parse(y)
            except bstrict.NonCanonical as e:
                bad = ('dump() is not canonical bencoding: %s' % e, o['dump']['ok'][:400])
                top = None
            if bad is None and o['write_stream'] != o['dump']:
                bad = ('write_stream() output differs from dump()', _short(o['write_stream']))
            if bad is None and isinstance(top, dict) and b'info' in top:
                span = spans[id(top)][b'info']
                digest = hashlib.sha1(y[span[0]:span[1]]).digest()
                if 'ok' in o['infohash']:
                    ih = o['infohash']['ok']
                    if ih != digest.hex():
                        bad = ('infohash is not the SHA-1 of the info span of the dumped bytes',
                               {'infohash': ih, 'sha1(span)': digest.hex(), 'span': span})
                    elif 'ok' not in o['b32'] or base64.b32decode(o['b32']['ok']) != digest:
                        bad = ('infohash_base32 does not decode to the infohash', o['b32'])
                    elif o['xt'].get('err', 'magnet') != 'magnet':
                        # magnet() could not be built for a reason unrelated to the hash (e.g. a URL the
                        # Magnet class refuses): no claim of C06; counted, never silent
                        ctx.dist['magnet-unavailable:' + o['xt']['err']] += 1
                    elif o['xt'] != {'ok': 'urn:btih:' + ih} or o['magnet_infohash'] != {'ok': ih}:
                        bad = ('magnet xt does not carry the infohash', [o['xt'], o['magnet_infohash']])
                    elif 'ok' not in o['magnet_str'] or not o['magnet_str']['ok'].startswith('magnet:?xt=urn:btih:' + ih):
                        bad = ('str(magnet()) does not carry the infohash', o['magnet_str'])
                elif c['validate']:
                    bad = ('dump(validate=True) succeeded but infohash raised', o['infohash'])
            elif bad is None and c['validate']:
                bad = ('dump(validate=True) output has no info dictionary', o['dump']['ok'][:200])
            if bad:
                ctx.violation(bad[0], case, 'canonical dump; infohash == sha1(info span) == magnet/base32 hash',
                              bad[1], finding_matchers=MATCHERS)
                continue
        else:
            if o['dump']['err'] != 'metainfo':
                ctx.violation('dump() raised an undocumented error', case, 'MetainfoError', o['dump'],
                              finding_matchers=MATCHERS)
                continue
        # ---------------- model vs specification (theorems C06_canonical / C06_span)
        if m['hyp'] and not m['canon']:
            ctx.machinery_error('model dump is not canonical (contradicts C06_canonical)', case)
            continue
        # ---------------- correspondence
        if m['dump'] != o['dump']:
            ctx.corr_break('c06.export/dump', case, _short(m['dump']), _short(o['dump']))
            continue
        mib = m['infoBytes']
        if 'ok' in mib:
            if 'ok' not in o['infohash'] or hashlib.sha1(bytes.fromhex(mib['ok'])).hexdigest() != o['infohash']['ok']:
                ctx.corr_break('c06.export/infohash', case, _short(mib), o['infohash'])
                continue
            if dumped and span is not None:
                if m['span'] != [span[0], span[1] - span[0]] or mib['ok'] != o['dump']['ok'][2 * span[0]:2 * span[1]]:
                    ctx.corr_break('c06.export/span', case, m['span'], list(span))
                    continue
            hash_idx[len(hash_reqs)] = (case, o)
            hash_reqs.append({'op': 'c06.hash', 'digest': hashlib.sha1(bytes.fromhex(mib['ok'])).hexdigest()})
        elif mib != o['infohash']:
            ctx.corr_break('c06.export/infohash', case, mib, o['infohash'])
    # digest renderings
    r = ctx.rng
    extra = [bytes(r.randrange(256) for _ in range(20)) for _ in range(ctx.n(200, 5000))]
    extra += [b'\x00' * 20, b'\xff' * 20, bytes(range(20))]
    for j, hr in enumerate(drv.run(hash_reqs + [{'op': 'c06.hash', 'digest': d.hex()} for d in extra])):
        if j < len(hash_reqs):
            case, o = hash_idx[j]
            d = bytes.fromhex(hash_reqs[j]['digest'])
            impl = {'hex': o['infohash'].get('ok'), 'b32': o['b32'].get('ok'), 'xt': o['xt']}
            if o['xt'].get('err', 'magnet') != 'magnet':
                impl['xt'] = hr['xt']
        else:
            d = extra[j - len(hash_reqs)]
            case = {'digest': d.hex()}
            impl = {'hex': d.hex(), 'b32': base64.b32encode(base64.b16decode(d.hex().upper())).decode(),
                    'xt': {'ok': 'urn:btih:' + d.hex()}}
            ctx.case(kind='digest-rendering')
        model = {'hex': hr['hex'], 'b32': hr['b32'], 'xt': hr['xt']}
        if hr['b32dec'] != d.hex() or hr['unhex'] != d.hex():
            ctx.machinery_error('model base32/base16 round trip fails (contradicts C06_base32)', case)
        elif model != impl:
            ctx.corr_break('c06.hash', case, model, impl)
    # base32 of arbitrary lengths against the standard library (model of base64.b32encode/b32decode)
    xs = [bytes(r.randrange(256) for _ in range(r.randint(0, 23))) for _ in range(ctx.n(300, 5000))]
    for x, br in zip(xs, drv.run([{'op': 'c06.b32', 'x': x.hex()} for x in xs])):
        ctx.case(kind='b32-stdlib')
        if br['enc'] != base64.b32encode(x).decode() or br['dec'] != x.hex():
            ctx.corr_break('c06.b32', {'x': x.hex()}, br, base64.b32encode(x).decode())


def _short(x, n=600):
    s = repr(x)
    return s if len(s) <= n else s[:n] + '…'


def _load_corpus(ctx):
    import glob
    import json
    import os
    out = []
    for p in sorted(glob.glob(os.path.join(common.CORPUS_DIR, ctx.prop, '*.json'))):
        j = json.load(open(p))
        out.extend(j if isinstance(j, list) else [j])
    return out


def run(ctx, drv):
    ctx.notes['rule'] = RULE
    ctx.notes['assumptions'] = [
        'SHA-1 is a parameter H of the model (the harness applies hashlib.sha1 to the bytes the model says are hashed)',
        'Torrent.validate() is a parameter of the dump/infohash model (property C07); the harness supplies the real verdict',
        'datetime.timestamp() is an oracle carried inside PyVal.datetime',
        'base64.b32encode/b32decode/b16decode and bytes.hex are modelled (Model/Base32.lean) and compared with the standard library',
        'sets / generators / cyclic containers are outside PyVal and are not generated',
        'torrents created from a magnet link (the _infohash fallback of Torrent.infohash) are outside the model',
    ]
    total = ctx.n(2500, 40000)
    cases = _load_corpus(ctx)
    while total > 0:
        n = min(BATCH, total)
        total -= n
        evaluate(ctx, drv, cases + gen_cases(ctx, n))
        cases = []
        if ctx.violations:
            break
    ctx.exhaustive = False


def search(ctx, drv):
    for _ in range(2):
        evaluate(ctx, drv, gen_cases(ctx, ctx.n(2500, 5000)))
        if ctx.violations:
            break


def replay(ctx, drv, rp):
    c = dict(rp['case'])
    c.setdefault('kind', 'replay')
    if 'm' not in c:
        return {'fails': False, 'note': 'digest-only case'}
    evaluate(ctx, drv, [c])
    return {'fails': bool(ctx.violations or ctx.corr_breaks), 'violations': ctx.violations,
            'corr_breaks': ctx.corr_breaks}
