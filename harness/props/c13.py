"""
C13 — magnet links round-trip.

I = real torf (`str(Magnet)`, `Magnet.from_string`, `Torrent.magnet()`, `Magnet.torrent()`),
M = Lean model (quote_plus / unquote_plus on UTF-8 bytes, renderer, urlparse for the magnet shape,
parse_qs, the parser's checks and setters), S = "parsing what was rendered gives the same fields".
"""
import urllib.parse

import copy
import json
from concurrent.futures import ThreadPoolExecutor
from harness import common
from harness.impl import magnet as mg
from harness.impl import fsenv

RULE = ('magnets = constructor keyword sets (hash in 4 notations and mixed case, with/without urn:btih:; names from '
        'a reserved-character / control-character / non-ASCII / non-BMP / percent-lookalike alphabet; xl up to 10^30; '
        '0-5 trackers and webseeds incl. spaces, duplicates; xs; keywords with + % & and non-ASCII), about a quarter '
        'with as_ / x_ parameters / empty dn / empty keywords (the open findings); render -> parse -> field-wise '
        'comparison, then every field of the parsed object is edited and the unchanged magnet is rendered and parsed a '
        'second time (same comparison); mangled links for the parser model (each parsed twice with an edit between); torrents (single/multi file, tiers, webseeds) -> magnet() -> '
        'str -> from_string -> torrent(), twice with edits of the parsed magnet / torrent between. non-trivial = the rendered link needs percent-quoting or has a multi-valued '
        'parameter; distinct = distinct rendered link.'
        ' Histories on one Magnet object (setters; in-place list/dict methods on tr, ws, kt, x through a getter call or a kept '
        'reference; torrent(); no-op steps), judged after every step; torrent -> magnet -> torrent also per locale / file-system '
        'encoding in child interpreters (ASCII fs, UTF-8 mode, stdio variants, shadowed latin-1 / koi8-r / gbk / cp1252 / shift_jis).'
        ' Round 6, size: magnets whose rendered link has b-1, b, b+1 fields for every b in 10..1024 (16 boundaries; trackers / webseeds '
        'from five URL families incl. quoting, IPv6, non-ASCII), random sizes up to 1500 URLs, hundreds of keywords, 150 x_ parameters, '
        'values of 255..20000 characters, xl up to 10^4299; a slice of them mangled for the parser model; torrents with up to 400 '
        '(thorough 1100) trackers / webseeds. Round 6, foreign tracker layouts: torrents whose announce / announce-list / url-list / '
        'httpseeds were written straight into the metainfo or come from a .torrent file bencoded by the harness and read with '
        'Torrent.read_stream() - announce absent / present x announce-list absent / empty / empty tiers / duplicates within and '
        'across tiers / containing announce literally, only in its stored form (space vs +) or not at all (exhaustive over 3 URLs and '
        '<= 2 tiers of <= 2 URLs, random beyond) x url-list absent / blank string / string / list with duplicates; what the getters '
        'Torrent.trackers / Torrent.webseeds show is compared with the model of those getters and is what the round trip must preserve.')

FIELDS = ('infohash', 'dn', 'xl', 'tr', 'xs', 'as_', 'ws', 'kt', 'x')

ALPHA = (list('abcXYZ019') + list('&=+%#?;/:@!$\'()*,[]~_.-"<>\\^`{|}') + [' ', ' ', '\t', '\r', '\x00', '\x01', '\x1f',
         '\x7f', '\x85', '\xa0', 'é', 'ü', 'ß', 'ı', 'İ', 'Ω', 'ж', '日', '本', '​', ' ', '﻿', '�',
         '\U0001F600', '\U00010348', '\U0010FFFF', '%41', '%zz', '%', '%2', '%e9', '+', '++', '%2B', '&amp;', 'a=b'])
URLS = ['http://a/b', 'http://a/b c', 'http://a/b+c', 'https://x.y:80/z?q=1&r=2#frag', 'udp://t:6969/announce',
        'http://[::1]:80/x', 'ftp://h/', 'http://ä.example/ü', 'http://a/%20%2B', 'http://a/b%c', 'wss://w/s',
        'http://a/b;c=d', 'http://u:p@h/', 'http://a/日本', 'http://a/\U0001F600', 'http://a/b  c', ' http://a/lead',
        'http://h/a=b&c=d', 'http://h/+']


def rand_text(rng, maxlen=12):
    return ''.join(rng.choice(ALPHA) for _ in range(rng.randint(1, maxlen)))


def rand_keyword(rng):
    a = [c for c in ALPHA if not any(ch.isspace() for ch in c)]
    return ''.join(rng.choice(a) for _ in range(rng.randint(1, 6)))


def gen_kwargs(rng, findings_share=0.25):
    h = mg.rand_hex40(rng)
    own = rng.choice(list(mg.notations(h).values()) + [mg.randcase(rng, h), mg.randcase(rng, mg.notations(h)['b32-upper'])])
    kw = {'xt': rng.choice(['', 'urn:btih:', 'URN:BTIH:']) + own}
    if rng.random() < 0.7:
        kw['dn'] = rand_text(rng) if rng.random() < 0.9 else rng.choice(['a\nb', '\n', ' lead', 'trail ', 'a  b'])
    if rng.random() < 0.6:
        kw['xl'] = rng.choice([1, 2, 10, 999, 2 ** 32, 2 ** 63, 10 ** 30, rng.randint(1, 10 ** rng.randint(1, 25))])
    if rng.random() < 0.6:
        kw['tr'] = [rng.choice(URLS) for _ in range(rng.randint(0, 5))]
        if rng.random() < 0.1 and kw['tr']:
            kw['tr'] = kw['tr'][0]
    if rng.random() < 0.3:
        kw['xs'] = rng.choice(URLS)
    if rng.random() < 0.4:
        kw['ws'] = [rng.choice(URLS) for _ in range(rng.randint(0, 4))]
    if rng.random() < 0.4:
        kw['kt'] = [rand_keyword(rng) for _ in range(rng.randint(0, 4))]
        if rng.random() < 0.1 and kw['kt']:
            kw['kt'] = kw['kt'][0]
    if rng.random() < findings_share:
        r = rng.random()
        if r < 0.3:
            kw['as_'] = rng.choice(URLS)
        elif r < 0.6:
            for _ in range(rng.randint(1, 2)):
                kw['x_' + rng.choice(['pe', 'k', 'Key', 'a.b', '1'])] = rand_text(rng, 6)
        elif r < 0.75:
            kw['dn'] = ''
        elif r < 0.9:
            kw['kt'] = [rand_keyword(rng) for _ in range(rng.randint(0, 2))] + [''] + [rand_keyword(rng) for _ in range(rng.randint(0, 2))]
        else:
            kw['kt'] = [rng.choice(['a b', 'a\tb', 'a\xa0b', ' a', 'a b'])]
    return kw


FIXED = [
    {'xt': 'ab' * 20},
    {'xt': 'ab' * 20, 'as_': 'http://a/b'},                                   # D13a
    {'xt': 'ab' * 20, 'x_pe': '1.2.3.4:5'},                                   # D13b
    {'xt': 'ab' * 20, 'dn': ''},                                              # D13c
    {'xt': 'ab' * 20, 'kt': ['a', '', 'b']},                                  # D13c
    {'xt': 'ab' * 20, 'kt': ['']},
    {'xt': 'ab' * 20, 'xs': ' http://a/lead'},                                # D13e (repaired: URLError; regression)
    {'xt': 'ab' * 20, 'tr': ['http://good/1', ' http://a/lead']},             # D14g (repaired; regression)
    {'xt': 'ab' * 20, 'ws': ['http://a/b c', ' http://a/lead']},
    {'xt': 'ab' * 20, 'xs': 'http://a/b c d', 'tr': 'http://a/ b', 'ws': ['http://w/x y', 'http://w/x+y']},
    {'xt': 'ab' * 20, 'dn': 'a&b=c+d%e#f?g;h ü\t\r\x00\x7f\U0001F600 x'},
    {'xt': 'AB' * 20, 'dn': '%41+%2B %', 'xl': 10 ** 30, 'tr': ['http://a/b c', 'http://a/b+c', 'http://a/b'], 'kt': ['a+b', 'c%20d', '&', '=']},
    {'xt': 'urn:btih:' + 'VOV2XK5L' * 4, 'ws': ['http://w/1', 'http://w/1', 'http://w/2']},
    {'xt': 'vov2xk5l' * 4, 'dn': 'a\nb'},
    {'xt': 'ab' * 20, 'dn': '\udc80'},                                         # lone surrogate: outside the claim
    {'xt': 'ab' * 20, 'xl': 10 ** 4300},                                       # beyond CPython's int->str limit
]


# ------------------------------------------------------------------ size (round 6): URL lists "of any length"
# numbers of fields around every boundary a limit could plausibly sit at; the model has no limit at all
SIZE_BOUNDS = [10, 16, 32, 50, 64, 100, 128, 200, 250, 256, 300, 400, 500, 512, 1000, 1024]
URL_FAMILIES = [lambda i: 'udp://t%d.example.org:6969/announce' % i,
                lambda i: 'http://%d.tr.example/a b?k=%d&x=1+2' % (i, i),          # needs quoting; a space (stored as '+')
                lambda i: 'https://[::1]:%d/announce' % (1000 + i),
                lambda i: 'http://ä%d.example/ü/日本' % i,
                lambda i: 'wss://w%d/s%%20%d#f' % (i, i)]
LONG_LENGTHS = [255, 256, 1000, 1024, 2048, 4096, 8192, 20000]


def many_urls(rng, n, start=0):
    """n distinct valid URLs (one family, or a mixture), shuffled"""
    fams = [rng.choice(URL_FAMILIES)] if rng.random() < 0.6 else URL_FAMILIES
    us = [fams[i % len(fams)](start + i) for i in range(n)]
    rng.shuffle(us)
    return us


def long_text(rng, n):
    a = rng.choice([list('abcXYZ019'), ALPHA, list('&=+%#? '), ['é', '日', '\U0001F600', 'a']])
    t = ''.join(rng.choice(a) for _ in range(n))[:n].replace('\n', ' ')
    return t if t.strip() else 'x' + t


def gen_sized_kwargs(rng, total=None, maxn=1500):
    """a magnet (inside WF: no as_ / x_ / blank values) whose rendered link has `total` key=value fields"""
    if total is None:
        total = (rng.choice(SIZE_BOUNDS) + rng.choice([-1, 0, 1, 2])) if rng.random() < 0.4 else int(6 * (maxn / 6.0) ** rng.random())
    total = max(2, min(total, maxn + 5))
    kw = {'xt': rng.choice(['', 'urn:btih:']) + mg.rand_hex40(rng)}
    rest = total - 1
    for k, p, v in (('dn', 0.7, lambda: rand_text(rng).replace('\n', ' ').strip() or 'n'), ('xl', 0.5, lambda: rng.randint(1, 10 ** 12)),
                    ('xs', 0.3, lambda: 'http://source.example/x y.torrent'),
                    ('kt', 0.4, lambda: [rand_keyword(rng) for _ in range(rng.choice([1, 2, 3, 10, 100, 101, 300]))])):
        if rest > 0 and rng.random() < p:
            kw[k] = v()
            rest -= 1
    r = rng.random()
    n_tr = rest if r < 0.4 else 0 if r < 0.6 else rng.randint(0, rest)
    kw['tr'] = many_urls(rng, n_tr)
    kw['ws'] = many_urls(rng, rest - n_tr, start=5000)
    for k in ('tr', 'ws'):
        if not kw[k] and rng.random() < 0.5:
            del kw[k]
    return kw


def gen_long_kwargs(rng):
    """few fields, but long: a name / URL / keyword / keyword list / xl of hundreds to thousands of characters; many x_"""
    kw = {'xt': mg.rand_hex40(rng)}
    L = rng.choice(LONG_LENGTHS)
    r = rng.random()
    if r < 0.3:
        kw['dn'] = long_text(rng, L)
    elif r < 0.5:
        kw[rng.choice(['tr', 'ws'])] = ['http://long.example/' + long_text(rng, L).replace(' ', '_'), 'http://a/b']
    elif r < 0.6:
        kw['xs'] = 'http://long.example/?q=' + 'a%20b&' * (L // 6)
    elif r < 0.75:
        kw['kt'] = [''.join(c for c in long_text(rng, L) if not c.isspace()) or 'k']
    elif r < 0.85:
        kw['kt'] = [rand_keyword(rng) for _ in range(rng.choice([100, 101, 255, 256, 1000, 1001]))]
    elif r < 0.93:
        kw['xl'] = 10 ** rng.choice([100, 1000, 4299]) - rng.choice([0, 1])
    else:
        for i in range(rng.choice([10, 99, 100, 101, 150])):            # D13b at any size
            kw['x_k%d' % i] = rand_text(rng, 4)
    return kw


def sized_magnets(ctx, rng):
    """systematic: b-1, b, b+1 fields for every boundary; then random sizes and long values"""
    out = [gen_sized_kwargs(rng, total=b + d) for b in SIZE_BOUNDS for d in (-1, 0, 1)]
    out += [gen_sized_kwargs(rng, maxn=ctx.n(400, 1500)) for _ in range(ctx.n(40, 600))]
    out += [gen_sized_kwargs(rng, total=rng.randint(1200, 1500)) for _ in range(ctx.n(2, 12))]
    out += [gen_long_kwargs(rng) for _ in range(ctx.n(40, 600))]
    return out


def par_run(drv, reqs, weight=None):
    """drv.run over several driver processes (big magnets cost the model up to seconds each)"""
    k = max(1, min(common.NPROC, len(reqs) // 8))
    if k == 1:
        return drv.run(reqs)
    order = sorted(range(len(reqs)), key=(lambda i: -weight(reqs[i])) if weight else (lambda i: 0))
    parts = [order[j::k] for j in range(k)]
    with ThreadPoolExecutor(k) as ex:
        res = list(ex.map(lambda idx: drv.run([reqs[i] for i in idx]), parts))
    out = [None] * len(reqs)
    for idx, rs in zip(parts, res):
        for i, r in zip(idx, rs):
            out[i] = r
    return out


def fields(m):
    return {'infohash': m.infohash, 'dn': m.dn, 'xl': m.xl, 'tr': [str(u) for u in m.tr],
            'xs': None if m.xs is None else str(m.xs), 'as_': None if m.as_ is None else str(m.as_),
            'ws': [str(u) for u in m.ws], 'kt': None if m.kt is None else [str(k) for k in m.kt],
            'x': [[k, v] for k, v in m.x.items()]}


def edit_magnet(m):
    """what a caller may do with a parsed magnet: change every field in place (setters, list methods, dict item).
    Returns the number of edits that went through."""
    n = 0
    for f in (lambda: setattr(m, 'dn', (m.dn or '') + ' (edited)'),
              lambda: setattr(m, 'xl', (m.xl or 0) + 1),
              lambda: m.tr.append('http://edited.example/announce'),
              lambda: m.tr.insert(0, 'http://edited.example/first') if len(m.tr) > 1 else m.tr.clear(),
              lambda: m.ws.clear() if m.ws else m.ws.append('http://edited.example/seed'),
              lambda: setattr(m, 'xs', 'http://edited.example/x.torrent'),
              lambda: setattr(m, 'kt', ['edited'] + list(m.kt or [])),
              lambda: m.x.__setitem__('edited', '1'),
              lambda: setattr(m, 'infohash', 'ef' * 20)):
        try:
            f()
            n += 1
        except Exception:  # noqa
            pass
    return n


def _run_magnet_chunk(cases):
    torf = common.import_torf()
    out = []
    for kw in cases:
        o = {}
        try:
            m = torf.Magnet(**kw)
        except BaseException as e:  # noqa
            o['construct'] = mg.errkind(e)
            out.append(o)
            continue
        o['construct'] = 'ok'
        o['fields'] = fields(m)
        try:
            s = str(m)
            o['uri'] = s
        except BaseException as e:  # noqa
            o['uri_exc'] = type(e).__name__
            out.append(o)
            continue
        try:
            m2 = torf.Magnet.from_string(s)
            o['parsed'] = fields(m2)
        except BaseException as e:  # noqa
            o['parse_exc'] = mg.errkind(e)
            out.append(o)
            continue
        # history: the caller edits the parsed object, then the *unchanged* m is rendered and parsed again
        try:
            o['edits'] = edit_magnet(m2)
            o['original_after_edit'] = fields(m)
            s2 = str(m)
            o['uri_again'] = s2
            o['parsed_again'] = fields(torf.Magnet.from_string(s2))
        except BaseException as e:  # noqa
            o['again_exc'] = mg.errkind(e)
        out.append(o)
    return out


def _strs(f):
    yield f['infohash']
    for k in ('dn', 'xs', 'as_'):
        if f[k] is not None:
            yield f[k]
    for k in ('tr', 'ws', 'kt'):
        yield from (f[k] or [])
    for k, v in f['x']:
        yield k
        yield v


def _mjson(f):
    return {'infohash': mg.cps(f['infohash']), 'dn': mg.ocps(f['dn']), 'xl': f['xl'],
            'tr': [mg.cps(u) for u in f['tr']], 'xs': mg.ocps(f['xs']), 'as_': mg.ocps(f['as_']),
            'ws': [mg.cps(u) for u in f['ws']], 'kt': [mg.cps(k) for k in (f['kt'] or [])],
            'x': [[mg.cps(k), mg.cps(v)] for k, v in f['x']]}


def _munjson(j):
    return {'infohash': mg.uncps(j['infohash']), 'dn': mg.uncps(j['dn']), 'xl': j['xl'],
            'tr': [mg.uncps(u) for u in j['tr']], 'xs': mg.uncps(j['xs']), 'as_': mg.uncps(j['as_']),
            'ws': [mg.uncps(u) for u in j['ws']], 'kt': [mg.uncps(k) for k in j['kt']],
            'x': [[mg.uncps(k), mg.uncps(v)] for k, v in j['x']]}


def _valid_urls(torf_utils, f):
    c = set(f['tr']) | set(f['ws']) | {u for u in (f['xs'], f['as_']) if u is not None}
    return [mg.cps(u) for u in c if torf_utils.is_url(u)]


# ------------------------------------------------------------------ known findings
def _diff(exp, got):
    return [k for k in FIELDS if exp.get(k) != got.get(k)]


def m_as_underscore(case, observed, finding):
    """D13a: the magnet has an acceptable source and parsing the rendered link raises MagnetError"""
    f = case.get('fields') or {}
    return bool(f.get('as_') is not None and observed == {'parse_exc': 'magnet'})


def m_x_dot(case, observed, finding):
    """D13b: the magnet has extension parameters and parsing the rendered link raises MagnetError"""
    f = case.get('fields') or {}
    return bool(f.get('x') and f.get('as_') is None and observed == {'parse_exc': 'magnet'})


def m_blank_dropped(case, observed, finding):
    """D13c: the only differences after the round trip are an empty dn that became None and empty keywords that
    disappeared"""
    f = case.get('fields') or {}
    p = (observed or {}).get('parsed') if isinstance(observed, dict) else None
    if not p or not (f.get('dn') == '' or '' in (f.get('kt') or [])):
        return False
    g = dict(f)
    if g['dn'] == '':
        g['dn'] = None
    g['kt'] = [k for k in (g['kt'] or []) if k != '']
    return g == p


def m_name_newline(case, observed, finding):
    """D13d: torrent name contains a newline; only the name differs, by '\\n' -> ' '"""
    t = case.get('torrent') or {}
    o = observed if isinstance(observed, dict) else {}
    return bool('\n' in (t.get('name') or '') and o.get('back') and
                dict(t, name=t['name'].replace('\n', ' ')) == o['back'])


def m_name_surrogate(case, observed, finding):
    """D13f: the torrent's name contains a lone surrogate (what os.fsdecode makes of an undecodable file name), the torrent
    is exportable, magnet() worked, and rendering the link raised exactly UnicodeEncodeError"""
    t = case.get('torrent') or {}
    o = observed if isinstance(observed, dict) else {}
    return bool(case.get('kind') == 'torrent' and mg.has_surrogate(t.get('name') or '') and o.get('back') is None
                and o.get('exc') == 'other:UnicodeEncodeError' and o.get('magnet_ok') is True and o.get('uri') is None)


MATCHERS = {'name_surrogate': m_name_surrogate, 'as_underscore': m_as_underscore, 'x_dot': m_x_dot, 'blank_dropped': m_blank_dropped,
            'name_newline': m_name_newline}


# ------------------------------------------------------------------ quote_plus / unquote_plus
def eval_quote(ctx, drv, scale=1.0):
    torf = common.import_torf()
    from torf import _utils
    rng = ctx.rng
    strs = ['', ' ', '+', '%', '%41', 'a b+c', '\x00', '\x7f', '\x80', 'é', '￿', '\U0001F600', '~_.-', '/', 'a&b=c']
    strs += [chr(i) for i in range(0, 0x250)]
    for _ in range(int(ctx.n(1500, 60000) * scale)):
        strs.append(rand_text(rng, 10) if rng.random() < 0.6 else
                    ''.join(chr(rng.choice([rng.randrange(0, 0x80), rng.randrange(0x80, 0x800), rng.randrange(0x800, 0xD800),
                                            rng.randrange(0xE000, 0x10000), rng.randrange(0x10000, 0x110000)]))
                            for _ in range(rng.randint(1, 6))))
    replies = drv.run([{'op': 'c13.quote', 's': mg.cps(s)} for s in strs])
    for s, r in zip(strs, replies):
        ctx.case(key=('q', s), nontrivial=any(not (c.isascii() and (c.isalnum() or c in '_.-~')) for c in s), kind='quote')
        q = _utils.urlquote(s)
        back = urllib.parse.unquote_plus(q)            # what parse_qsl does to a value
        case = {'kind': 'quote', 's': s}
        if back != s:
            ctx.violation('unquote_plus(quote_plus(s)) != s', case, s, back, finding_matchers=MATCHERS)
            continue
        if not r['specEq']:
            ctx.machinery_error('model unquotePlus (quotePlus s) != s although C13_unquote_quote is proved', case)
        elif mg.uncps(r['model']['quoted']) != q:
            ctx.corr_break('c13.quote', case, mg.uncps(r['model']['quoted']), q)
    # unquote on arbitrary (not rendered) text: model against urllib only where the model claims to know
    raw = []
    for _ in range(int(ctx.n(1500, 40000) * scale)):
        raw.append(''.join(rng.choice(['%', '%4', '%41', '%e9', '%C3%A9', '%c3', '%zz', '+', ' ', 'a', 'é', '%F0%9F%98%80',
                                       '%00', '%0a', '%%', '%2', '&', '=']) for _ in range(rng.randint(0, 6))))
    replies = drv.run([{'op': 'c13.unquote', 's': mg.cps(s)} for s in raw])
    for s, r in zip(raw, replies):
        ctx.case(key=('u', s), nontrivial='%' in s, kind='unquote')
        if r['hyp'] and s.isascii():
            got = urllib.parse.unquote_plus(s)
            if mg.uncps(r['model']) != got:
                ctx.corr_break('c13.unquote', {'kind': 'unquote', 's': s}, mg.uncps(r['model']), got)
        else:
            ctx.dist['unquote-not-modelled(invalid utf-8 or non-ascii input)'] += 1


# ------------------------------------------------------------------ render -> parse
def in_scope(f):
    """the property's quantifier: Unicode scalar values only (no lone surrogates), keywords without whitespace,
    xl within CPython's int->str limit"""
    if any(mg.has_surrogate(s) for s in _strs(f)):
        return False
    if any(any(c.isspace() for c in k) for k in (f['kt'] or [])):
        return False
    if f['xl'] is not None and f['xl'] >= 10 ** 4300:
        return False
    return True


def eval_magnets(ctx, drv, kws):
    torf = common.import_torf()
    from torf import _utils
    obs = [o for ch in common.pmap(_run_magnet_chunk, common.split(kws, common.NPROC * 4)) for o in ch]
    todo = []
    for kw, o in zip(kws, obs):
        if o['construct'] != 'ok':
            ctx.case(kind='magnet/not-constructible:' + o['construct'])
            continue
        f = o['fields']
        if not in_scope(f):
            ctx.case(kind='magnet/outside-quantifier(surrogate|keyword whitespace|xl>=10^4300)')
            if 'uri_exc' in o and not (any(mg.has_surrogate(s) for s in _strs(f)) or (f['xl'] or 0) >= 10 ** 4300):
                ctx.violation('str(magnet) raised', {'kind': 'magnet', 'kwargs': kw, 'fields': f}, 'a string', o['uri_exc'],
                              finding_matchers=MATCHERS)
            continue
        todo.append((kw, o))
    reqs = [{'op': 'c13.roundtrip', 'm': _mjson(o['fields']), 'valid': _valid_urls(_utils, o['fields'])} for kw, o in todo]
    replies = par_run(drv, reqs, weight=lambda q: len(q['valid']) ** 2)
    for (kw, o), r in zip(todo, replies):
        f = o['fields']
        nf = r.get('fields', 0)
        if nf >= 10:
            ctx.dist['magnet-fields/' + ('10-99' if nf < 100 else '100-999' if nf < 1000 else '>=1000')] += 1
        if max((len(x) for x in _strs(f)), default=0) >= 255 or (f['xl'] or 0) >= 10 ** 100:
            ctx.dist['magnet-long-value(>=255 chars or xl>=10^100)'] += 1
        bad_urls = [u for u in f['tr'] + f['ws'] + [x for x in (f['xs'], f['as_']) if x is not None] if not _utils.is_url(u)]
        case = {'kind': 'magnet', 'kwargs': kw, 'fields': f, 'invalid_stored_urls': bad_urls}
        uri = o.get('uri')
        nontriv = uri is not None and ('%' in uri or '+' in uri or len(f['tr']) > 1 or len(f['ws']) > 1 or len(f['kt'] or []) > 1)
        ctx.case(key=('m', uri), nontrivial=nontriv, kind='magnet/' + ('wf' if r['hyp'] else 'outside-wf'))
        if len(ctx.samples) < 4 and r['hyp'] and nontriv:
            ctx.sample({'kwargs': kw, 'uri': uri, 'parsed': o.get('parsed')})
        # --- implementation against the specification: parsing what was rendered gives the same fields
        if uri is None:
            ctx.violation('str(magnet) raised for a magnet the constructor accepted', case, 'a string',
                          {'uri_exc': o['uri_exc']}, finding_matchers=MATCHERS)
            continue
        if o.get('parsed') != f:
            observed = {'parse_exc': o['parse_exc']} if 'parse_exc' in o else {'parsed': o['parsed'], 'differs': _diff(f, o['parsed'])}
            ctx.violation('Magnet.from_string(str(m)) does not give back the fields of m', case, f, observed,
                          finding_matchers=MATCHERS)
            continue
        # --- ... independent of what was done to earlier results: after the first parsed object was edited in every
        #     field, rendering the unchanged m and parsing again must give the fields of m once more
        if o.get('original_after_edit') != f or o.get('uri_again') != uri or o.get('parsed_again') != f:
            again = o.get('parsed_again')
            observed = {'again_exc': o.get('again_exc'), 'uri_again_same': o.get('uri_again') == uri,
                        'original_changed': _diff(f, o.get('original_after_edit') or {}),
                        'parsed_again': again, 'differs': _diff(f, again or {})}
            ctx.violation('second round trip of the same magnet in one process: after the first parsed object was edited, '
                          'Magnet.from_string(str(m)) of the unchanged m no longer gives back the fields of m', case, f,
                          observed, finding_matchers=MATCHERS)
            continue
        ctx.dist['magnet/second-round-trip-after-edit'] += 1
        if not r['hyp']:
            ctx.dist['outside-wf-but-round-trips'] += 1
            continue
        # --- model against the specification (proved: C13_parse_render)
        mp = r['model']['parsed']
        if not r['specEq'] or 'ok' not in mp:
            ctx.machinery_error('model round trip fails on a WF magnet although C13_parse_render is proved', case)
            continue
        # --- implementation against the model: the rendered link and the parsed fields
        muri = mg.uncps(r['model']['uri'])
        if muri != uri:
            ctx.corr_break('c13.render', case, muri, uri)
        elif _munjson(mp['ok']) != dict(o['parsed'], kt=o['parsed']['kt'] or []):
            ctx.corr_break('c13.parse', case, _munjson(mp['ok']), o['parsed'])


# ------------------------------------------------------------------ histories on ONE magnet object
# render / parse back / torrent() interleaved with edits through the setters AND in place on every container a getter
# hands out (tr, ws: MonitoredList; kt: the stored plain list; x: the stored dict), through a fresh getter call or
# through a reference the caller obtained earlier.  After EVERY step: Magnet.from_string(str(m)) must give back the
# fields m has NOW, and str(m) must be the model's rendering of those fields (C13_render_history_independent).
H_LIST_METHODS = ['append', 'insert', 'remove', 'pop', 'reverse', 'setitem', 'delitem', 'clear', 'extend', 'iadd']
H_KT_ONLY = ['sort', 'setslice', 'imul']
H_X_METHODS = ['setitem', 'delitem', 'pop', 'update', 'clear', 'setdefault']
H_URLS = [u for u in URLS if not u.startswith(' ')] + ['http://edited.example/announce', 'udp://later.example:1/a', 'not a url', '']


def gen_history(rng, findings_share=0.15):
    kw = gen_kwargs(rng, findings_share=findings_share)
    if rng.random() < 0.6 and 'kt' not in kw:
        kw['kt'] = [rand_keyword(rng) for _ in range(rng.randint(1, 3))]
    ops = []
    for _ in range(rng.randint(2, 7)):
        r = rng.random()
        via = rng.choice(['getter', 'held'])
        if r < 0.30:
            meth = rng.choice(H_LIST_METHODS + H_KT_ONLY)
            ops.append(['kt', via, meth, rng.randrange(8), [rand_keyword(rng) for _ in range(rng.randint(1, 2))]])
        elif r < 0.50:
            ops.append([rng.choice(['tr', 'ws']), via, rng.choice(H_LIST_METHODS), rng.randrange(8),
                        [rng.choice(H_URLS) for _ in range(rng.randint(1, 2))]])
        elif r < 0.58:
            ops.append(['x', via, rng.choice(H_X_METHODS), rng.choice(['pe', 'k', 'Key', 'new']), rand_text(rng, 5)])
        elif r < 0.88:
            f = rng.choice(['dn', 'xl', 'xs', 'kt', 'tr', 'ws', 'infohash', 'xt'])
            v = {'dn': lambda: rng.choice([None, rand_text(rng), rand_text(rng)]),
                 'xl': lambda: rng.choice([None, 1, 7, 10 ** 20, 0]),
                 'xs': lambda: rng.choice([None, rng.choice(H_URLS)]),
                 'kt': lambda: rng.choice([None, rand_keyword(rng), [rand_keyword(rng) for _ in range(rng.randint(0, 3))]]),
                 'tr': lambda: rng.choice([None, rng.choice(H_URLS), [rng.choice(H_URLS) for _ in range(rng.randint(0, 3))]]),
                 'ws': lambda: rng.choice([None, [rng.choice(H_URLS) for _ in range(rng.randint(0, 2))]]),
                 'infohash': lambda: rng.choice(['cd' * 20, 'VOV2XK5L' * 4, 'junk']),
                 'xt': lambda: rng.choice(['urn:btih:' + 'EF' * 20, 'ef' * 20, 'urn:btih:'])}[f]()
            ops.append(['set', f, v])
        elif r < 0.94:
            ops.append(['torrent'])
        else:
            ops.append(['noop'])                 # nothing changes: render / parse again
    return {'kwargs': kw, 'ops': ops}


def fixed_histories():
    h = 'ab' * 20
    out = []
    for via in ('getter', 'held'):
        for meth in H_LIST_METHODS + H_KT_ONLY:                     # every in-place method of the plain kt list
            out.append({'kwargs': {'xt': h, 'kt': ['b', 'a', 'c']}, 'ops': [['noop'], ['kt', via, meth, 1, ['k1', 'k2']], ['noop']]})
        for fld in ('tr', 'ws'):
            for meth in H_LIST_METHODS:
                out.append({'kwargs': {'xt': h, fld: ['http://b/2', 'http://a/1', 'http://c/3']},
                            'ops': [['noop'], [fld, via, meth, 1, ['http://n/1', 'http://n/2']], ['noop']]})
        for meth in H_X_METHODS:                                    # D13b while x is non-empty, must round-trip once it is empty
            out.append({'kwargs': {'xt': h, 'x_pe': '1.2.3.4:5'}, 'ops': [['x', via, meth, 'pe', 'v'], ['x', via, 'clear', 'pe', ''], ['noop']]})
    # a reference taken before a setter replaced the list: editing it must not reach the object any more
    out.append({'kwargs': {'xt': h, 'kt': ['a']}, 'ops': [['set', 'kt', ['n1', 'n2']], ['kt', 'held', 'append', 0, ['late']], ['kt', 'getter', 'append', 0, ['x']]]})
    out.append({'kwargs': {'xt': h, 'tr': ['http://a/1']}, 'ops': [['set', 'tr', ['http://n/1']], ['tr', 'held', 'append', 0, ['http://late/1']], ['noop']]})
    out.append({'kwargs': {'xt': h, 'dn': 'n', 'kt': ['a']}, 'ops': [['kt', 'getter', 'append', 0, ['b']], ['set', 'dn', 'm'], ['kt', 'held', 'clear', 0, []], ['torrent'], ['noop']]})
    return out


def _apply_list(lst, meth, i, vals):
    n = len(lst)
    k = i % n if n else 0
    if meth == 'append':
        lst.append(vals[0])
    elif meth == 'insert':
        lst.insert(i % (n + 1), vals[0])
    elif meth == 'remove':
        lst.remove(lst[k]) if n else None
    elif meth == 'pop':
        lst.pop(k) if n else None
    elif meth == 'reverse':
        lst.reverse()
    elif meth == 'sort':
        lst.sort()
    elif meth == 'setitem':
        if n:
            lst[k] = vals[0]
        else:
            lst.append(vals[0])
    elif meth == 'delitem':
        if n:
            del lst[k]
    elif meth == 'clear':
        lst.clear()
    elif meth == 'extend':
        lst.extend(vals)
    elif meth == 'iadd':
        lst += vals                       # on the reference itself: in place, no setter of the magnet is called
    elif meth == 'imul':
        lst *= 2
    elif meth == 'setslice':
        lst[k:] = vals


def _apply_dict(d, meth, k, v):
    if meth == 'setitem':
        d[k] = v
    elif meth == 'delitem':
        d.pop(k, None) if k not in d else d.__delitem__(k)
    elif meth == 'pop':
        d.pop(k, None)
    elif meth == 'update':
        d.update({k: v, 'u2': v + '2'})
    elif meth == 'clear':
        d.clear()
    elif meth == 'setdefault':
        d.setdefault(k, v)


def _run_hist_chunk(cases):
    torf = common.import_torf()
    out = []
    for c in cases:
        try:
            m = torf.Magnet(**c['kwargs'])
        except BaseException as e:  # noqa
            out.append({'construct': mg.errkind(e)})
            continue
        held = {'kt': m.kt, 'tr': m.tr, 'ws': m.ws, 'x': m.x}          # what a caller may have kept from earlier

        def look():
            """render FIRST (before any getter is touched), then read the fields, then parse the link back"""
            o = {}
            try:
                o['uri'] = str(m)
            except BaseException as e:  # noqa
                o['uri_exc'] = type(e).__name__
            try:
                o['fields'] = fields(m)
            except BaseException as e:  # noqa
                o['fields_exc'] = type(e).__name__
            if 'uri' in o:
                try:
                    o['parsed'] = fields(torf.Magnet.from_string(o['uri']))
                except BaseException as e:  # noqa
                    o['parse_exc'] = mg.errkind(e)
            return o
        steps = [look()]
        for op in c['ops']:
            res = 'ok'
            try:
                if op[0] == 'set':
                    setattr(m, op[1], op[2])
                elif op[0] in ('kt', 'tr', 'ws'):
                    _apply_list(getattr(m, op[0]) if op[1] == 'getter' else held[op[0]], op[2], op[3], list(op[4]))
                elif op[0] == 'x':
                    _apply_dict(m.x if op[1] == 'getter' else held['x'], op[2], op[3], op[4])
            except BaseException as e:  # noqa
                res = mg.errkind(e)
            o = look()
            o['op'] = res
            if op[0] == 'torrent':
                try:
                    t = m.torrent()
                    o['torrent'] = {'name': t.name, 'size': t.size, 'trackers': [str(u) for u in t.trackers.flat],
                                    'webseeds': [str(u) for u in t.webseeds], 'infohash': t.infohash}
                except BaseException as e:  # noqa
                    o['torrent'] = {'exc': mg.errkind(e)}
            steps.append(o)
        out.append({'construct': 'ok', 'steps': steps})
    return out


def eval_histories(ctx, drv, cases):
    torf = common.import_torf()
    from torf import _utils
    obs = [o for ch in common.pmap(_run_hist_chunk, common.split(cases, common.NPROC * 4)) for o in ch]
    todo, reqs = [], []
    for c, o in zip(cases, obs):
        if o['construct'] != 'ok':
            ctx.case(kind='history/not-constructible:' + o['construct'])
            continue
        for k, st in enumerate(o['steps']):
            f = st.get('fields')
            judged = f is not None and in_scope(f) and all(isinstance(x, str) for x in (f['kt'] or []))
            todo.append((c, k, st, judged))
            if judged:
                reqs.append({'op': 'c13.roundtrip', 'm': _mjson(f), 'valid': _valid_urls(_utils, f)})
    replies = iter(drv.run(reqs))
    dead = set()
    for c, k, st, judged in todo:
        key = id(c)
        r = next(replies) if judged else None
        if key in dead:
            continue
        op = (['construct'] + c['ops'])[k] if k else ['construct']
        if k == len(c['ops']):
            ctx.case(key=('h', json.dumps(c, sort_keys=True, default=str)), nontrivial=True,
                     kind='history/%d-steps' % len(c['ops']))
        ctx.dist['history-step/' + (op[0] if op[0] in ('set', 'torrent', 'noop', 'construct') else op[0] + '.' + op[2] + '/' + op[1])] += 1
        if not judged:
            ctx.dist['history-step/outside-quantifier(surrogate|keyword whitespace|xl>=10^4300|non-str keyword)'] += 1
            continue
        f, uri = st['fields'], st.get('uri')
        case = {'kind': 'history', 'kwargs': c['kwargs'], 'ops': c['ops'], 'step': k, 'op': op, 'fields': f}
        if len(ctx.samples) < 8 and ctx.dist['sampled-history'] < 2 and k >= 2 and op[0] == 'kt' and r['hyp']:
            ctx.dist['sampled-history'] += 1
            ctx.sample({'history': c, 'step': k, 'fields_now': f, 'uri': uri, 'parsed': st.get('parsed')}, limit=10)
        if uri is None:
            ctx.violation('str(magnet) raised after step %d of a history on one magnet' % k, case, 'a string',
                          {'uri_exc': st.get('uri_exc')}, finding_matchers=MATCHERS)
            dead.add(key)
            continue
        if st.get('parsed') != f:
            observed = ({'parse_exc': st['parse_exc']} if 'parse_exc' in st else
                        {'parsed': st['parsed'], 'differs': _diff(f, st['parsed'])})
            fid = ctx.violation('history on one magnet object, after step %d (%s): Magnet.from_string(str(m)) does not give back '
                                'the fields m has now' % (k, ' '.join(str(x) for x in op[:3])), case, f, observed,
                                finding_matchers=MATCHERS)
            if fid is None:
                dead.add(key)
                continue
        if 'torrent' in st:
            exp_t = {'name': f['dn'], 'size': f['xl'] or 0, 'trackers': f['tr'], 'webseeds': f['ws']}
            got = st['torrent']
            if any(got.get(x) != v for x, v in exp_t.items()):
                ctx.violation('history on one magnet object, step %d: torrent() does not show the name, size, trackers and '
                              'webseeds the magnet has now' % k, case, exp_t, got, finding_matchers=MATCHERS)
                dead.add(key)
                continue
        # --- model: str(m) is the rendering of the fields held NOW (C13_render_history_independent; the model renders
        #     every constructible state, also outside WF: as_ and x. parameters included)
        muri = mg.uncps(r['model']['uri'])
        if r['hyp'] and (not r['specEq'] or 'ok' not in r['model']['parsed']):
            ctx.machinery_error('model round trip fails on a WF state although C13_parse_render is proved', case)
            dead.add(key)
        elif muri != uri:
            ctx.corr_break('c13.render(history)', case, muri, uri)
            dead.add(key)


# ------------------------------------------------------------------ parser model on mangled links
def mangle(rng, uri):
    r = rng.random()
    q = uri[len('magnet:?'):]
    parts = q.split('&')
    if r < 0.1:
        return rng.choice([' ', '\n', '\t ', '\x1f', '\xa0']) + uri + rng.choice(['', ' ', '\n', '\x85'])
    if r < 0.2:
        return rng.choice(['MAGNET:?', 'Magnet:?', 'magnet:', '?', 'http:?', 'mag net:?', 'magnet+x:?', '1magnet:?', ':?', 'magnet:??',
                           'magnet:x?', 'magnet:/x?', 'magnet:?#']) + q
    if r < 0.35:
        parts.insert(rng.randrange(len(parts) + 1), rng.choice(['dn=x', 'xl=5', 'xl=0', 'xl=abc', 'xl=+7', 'xl=%31', 'xt=' + 'a' * 40, 'foo=bar', 'x_a=b', 'x.a=b',
                                                                'as=http://a/b', 'as_=http://a/b', 'kt=a+b++c', 'kt=%20a%09b', 'tr=nourl', 'tr=http://a/b',
                                                                'ws=', 'dn', '', '=v', 'dn=', 'xs=http://a:b/', 'tr=http%3A%2F%2Fa%2Fb', 'dn=%zz%4', 'dn=a%0Ab',
                                                                'dn=a;b', 'dn=a#b', 'dn=a?b', 'dn=a=b', 'DN=x', 'xt=urn:btih:' + 'b' * 40]))
        return 'magnet:?' + '&'.join(parts)
    if r < 0.45:
        del parts[rng.randrange(len(parts))]
        return 'magnet:?' + '&'.join(parts)
    if r < 0.6:
        i = rng.randrange(len(uri) + 1)
        return uri[:i] + rng.choice(['&', '=', '+', '%', ';', '#', '?', ' ', '\t', '\n', '\r', '%41', '%2b', '%zz', 'é', '&&']) + uri[i:]
    if r < 0.7:
        return uri.replace('%', rng.choice(['%', '%25', '%%']), 1).lower() if rng.random() < 0.5 else uri.replace('+', ' ')
    if r < 0.8:
        rng.shuffle(parts)
        return 'magnet:?' + '&'.join(parts)
    return uri


def _parse_real_chunk(uris):
    torf = common.import_torf()
    out = []
    for u in uris:
        try:
            m = torf.Magnet.from_string(u)
            o = {'parsed': fields(m)}
        except BaseException as e:  # noqa
            out.append({'exc': mg.errkind(e)})
            continue
        try:
            edit_magnet(m)
            o['again'] = fields(torf.Magnet.from_string(u))
        except BaseException as e:  # noqa
            o['again'] = {'exc': mg.errkind(e)}
        out.append(o)
    return out


def eval_parser(ctx, drv, uris):
    torf = common.import_torf()
    from torf import _utils
    uris = [u for u in uris if not mg.has_surrogate(u)]
    pr = drv.run([{'op': 'c13.pairs', 'uri': mg.cps(u)} for u in uris])
    reqs = []
    for u, p in zip(uris, pr):
        valid, ints = [], []
        if p['model'] and p['model']['pairs'] is not None:
            for k, v in p['model']['pairs']:
                v = mg.uncps(v)
                for w in {v, v.replace(' ', '+')}:          # URL() validates v, insert() re-validates the stored form
                    if _utils.is_url(w):
                        valid.append(mg.cps(w))
                try:
                    ints.append([mg.cps(v), int(v)])
                except (ValueError, TypeError, OverflowError):
                    pass
        reqs.append({'op': 'c13.parse', 'uri': mg.cps(u), 'valid': valid, 'ints': ints})
    replies = drv.run(reqs)
    obs = [o for ch in common.pmap(_parse_real_chunk, common.split(uris, common.NPROC * 4)) for o in ch]
    for u, r, o in zip(uris, replies, obs):
        ctx.case(key=('p', u), nontrivial=True, kind='parser/' + ('modelled' if r['hyp'] else 'not-modelled'))
        if 'parsed' in o and o.get('again') != o['parsed']:
            # from_string is a function of the string (the model is one): a second parse of the same text must not
            # depend on what the caller did to the first result
            ctx.violation('parsing the same link twice: after the first parsed object was edited the second parse gives '
                          'different fields', {'kind': 'parser', 'uri': u}, o['parsed'],
                          {'again': o.get('again'), 'differs': _diff(o['parsed'], o['again']) if 'exc' not in (o.get('again') or {'exc': 1}) else None},
                          finding_matchers=MATCHERS)
            continue
        if not r['hyp']:
            continue
        m = r['model']
        if 'ok' in m:
            same = 'parsed' in o and _munjson(m['ok']) == dict(o['parsed'], kt=o['parsed']['kt'] or [])
        else:
            same = o.get('exc') == m['err']
        if not same:
            ctx.corr_break('c13.parse', {'kind': 'parser', 'uri': u}, m if 'err' in m else _munjson(m['ok']), o)


# ------------------------------------------------------------------ torrent -> magnet -> torrent
TRACKER_KEYS = ('announce', 'announce-list', 'url-list', 'httpseeds')
T_URLS = [u for u in URLS if not u.startswith(' ')]
LAY_U = ['http://a/1', 'http://b/b c', 'http://b/b+c']          # the 2nd is stored as the 3rd


def _base_torrent(rng):
    L = 16384 * rng.choice([1, 1, 2, 4, 64])
    name = rand_text(rng, 8).replace('/', '-').replace('\x00', '0') if rng.random() < 0.93 else rng.choice(['a\nb', 'x\n'])
    name = name.strip() or 'n'
    if name in ('.', '..'):
        name = 'n'
    t = {'name': name, 'L': L}
    if rng.random() < 0.5:
        t['length'] = rng.choice([1, L - 1, L, L + 1, rng.randint(1, 5 * L)])
    else:
        t['files'] = [(['d%d' % i, rand_keyword(rng).replace('/', '-').replace('\x00', '0').strip('.') or 'f'], rng.randint(1, 2 * L))
                      for i in range(rng.randint(1, 4))]
    return t


def gen_layout(rng):
    """tracker / webseed metainfo fields as another tool (or a user editing torrent.metainfo) may have left them"""
    pool = rng.sample(T_URLS, rng.randint(1, 5))                      # a small pool: collisions are the point
    if rng.random() < 0.3:
        pool += [u.replace(' ', '+') for u in pool if ' ' in u] + [u.replace('+', ' ') for u in pool if '+' in u]
    pick = lambda: rng.choice(pool)
    lay = {}
    if rng.random() < 0.8:
        lay['announce'] = pick()
    if rng.random() < 0.8:
        lay['announce-list'] = [[pick() for _ in range(rng.choice([0, 1, 1, 2, 3]))] for _ in range(rng.choice([0, 1, 1, 2, 3, 4]))]
        r = rng.random()
        if 'announce' in lay and lay['announce-list'] and r < 0.25:          # announce somewhere in the list, not necessarily first
            rng.choice(lay['announce-list']).insert(rng.randint(0, 1), lay['announce'])
    for k in ('url-list', 'httpseeds'):
        if rng.random() < (0.6 if k == 'url-list' else 0.25):
            lay[k] = rng.choice([pick(), pick(), '', ' ', [], [pick() for _ in range(rng.randint(1, 4))]])
    lay['origin'] = rng.choice(['edit', 'read'])
    return lay


def layouts_small_scope():
    """every announce x announce-list over three URLs (two of them equal once stored), <= 2 tiers of <= 2 URLs; url-list shapes
    and the origin rotate"""
    tiers = [[]] + [[a] for a in LAY_U] + [[a, b] for a in LAY_U for b in LAY_U]
    lists = [None, []] + [[t] for t in tiers] + [[t, u] for t in tiers for u in tiers]
    seeds = [None, 'http://w/1', '', ['http://w/1', 'http://w/2 x', 'http://w/1'], [], ' ', ['http://w/2+x', 'http://w/2 x']]
    out = []
    for a in [None] + LAY_U:
        for al in lists:
            k = len(out)
            lay = {'origin': 'read' if k % 2 else 'edit'}
            if a is not None:
                lay['announce'] = a
            if al is not None:
                lay['announce-list'] = copy.deepcopy(al)
            if seeds[k % len(seeds)] is not None:
                lay['url-list'] = copy.deepcopy(seeds[k % len(seeds)])
            if k % 5 == 0:
                lay['httpseeds'] = copy.deepcopy(seeds[(k // 5) % len(seeds)] or [])
            out.append({'name': 'n m', 'L': 16384, 'length': 20000 + k, 'layout': lay})
    return out


def _lay(**kw):
    origin = kw.pop('origin', 'edit')
    return {'name': 'n m', 'L': 16384, 'length': 16385, 'layout': dict({k.replace('_', '-'): v for k, v in kw.items()}, origin=origin)}


_M, _T1, _T2 = 'http://main.example.org/announce', ['http://t1.example.org/announce', 'http://t2.example.org/announce'], ['udp://t3.example.org:6969']
FIXED_TORRENTS = [
    _lay(), _lay(announce=_M), _lay(announce_list=[_T1, _T2]), _lay(announce=_T1[0], announce_list=[_T1, _T2]),
    _lay(announce=_M, announce_list=[_T1, _T2]),                       # announce is not in announce-list: a tier of its own, first
    _lay(announce=_M, announce_list=[_T1, _T2], origin='read'),
    _lay(announce=_M, announce_list=[]), _lay(announce=_M, announce_list=[], origin='read'), _lay(announce=_M, announce_list=[[]]),
    _lay(announce=_T2[0], announce_list=[_T1, _T2]),                   # announce in a later tier: stays where it is
    _lay(announce=_M, announce_list=[[_M, _M], [], [_T1[0], _M], _T1]),
    _lay(announce='http://a/b c', announce_list=[['http://a/b+c', 'http://x/y']]),     # equal only once stored
    _lay(announce_list=[_T1], url_list='http://w/1', httpseeds=['http://h/1']), _lay(url_list=''), _lay(url_list=' '),
    _lay(url_list=['http://w/1', 'http://w/1', 'http://w/2 x', 'http://w/2+x'], origin='read'),
    # validate() accepts these, the getters do not (class of D07i): outside the quantifier, model and code must agree on the error
    _lay(announce=' http://a/lead'), _lay(announce_list=[['http://a/1'], [' http://a/lead']], origin='read'), _lay(url_list=['nope']),
    _lay(announce=_M, url_list=' http://a/lead'),
]


def gen_torrent(rng, foreign=0.5):
    t = _base_torrent(rng)
    if rng.random() < foreign:
        t['layout'] = gen_layout(rng)
    else:
        t['trackers'] = [[rng.choice(T_URLS) for _ in range(rng.randint(1, 3))] for _ in range(rng.randint(0, 3))]
        t['webseeds'] = [rng.choice(T_URLS) for _ in range(rng.randint(0, 3))]
    return t


def gen_sized_torrent(rng, n):
    """n tracker URLs / webseeds: one URL per tier, a few long tiers, or one tier; through the setter or as a foreign layout"""
    t = _base_torrent(rng)
    us = many_urls(rng, n)
    r = rng.random()
    tiers = [[u] for u in us] if r < 0.4 else [us] if r < 0.6 else [us[i:i + 7] for i in range(0, n, 7)]
    ws = many_urls(rng, rng.choice([0, 3, n]), start=7000)
    if rng.random() < 0.5:
        t['trackers'], t['webseeds'] = tiers, ws
    else:
        lay = {'announce-list': tiers, 'url-list': ws, 'origin': rng.choice(['edit', 'read'])}
        if rng.random() < 0.7:
            lay['announce'] = rng.choice([us[0], us[-1], 'http://main.example/announce'])
        t['layout'] = lay
    return t


ENV_NAMES = ['Héllo Wörld', 'ñandú ß', 'Привет мир', 'Ελληνικά', '日本語 テキスト', '中文名字', '한국어', 'a\U0001F600b', '\U00010348',
             'mixed é ж 日 \U0001F600', 'plain ascii', 'a&b=c+d%e#f', 'ı İ ſ K', '€uro “quotes”', 'e\u0301 combining', '\xa0nbsp\xa0',
             'n\udcffx', '\udce9t\udce9', 'ok \udc80 mixed é']      # the last three: undecodable file names (os.fsdecode)


def gen_env_torrent(rng):
    t = gen_torrent(rng)
    r = rng.random()
    if r < 0.75:
        t['name'] = rng.choice(ENV_NAMES)
    elif r < 0.9:
        t['name'] = ''.join(rng.choice(['é', 'ü', 'ж', 'Я', '日', '本', 'Ω', 'ß', '\U0001F600', 'a', 'b', ' ', '-', '€', 'ı'])
                            for _ in range(rng.randint(1, 8))).strip() or 'é'
    return t


def _view(t):
    return {'infohash': t.infohash, 'name': t.name, 'size': t.size,
            'trackers': [str(u) for tier in t.trackers for u in tier], 'webseeds': [str(u) for u in (t.webseeds or [])]}


def _benc(v):
    """bencoding by the harness (a .torrent file as another tool writes it; knows nothing about torf)"""
    if isinstance(v, bool):
        v = int(v)
    if isinstance(v, int):
        return b'i%de' % v
    if isinstance(v, str):
        v = v.encode('utf-8')
    if isinstance(v, bytes):
        return b'%d:' % len(v) + v
    if isinstance(v, (list, tuple)):
        return b'l' + b''.join(_benc(x) for x in v) + b'e'
    items = sorted((k.encode('utf-8'), x) for k, x in v.items())
    return b'd' + b''.join(_benc(k) + _benc(x) for k, x in items) + b'e'


def _meta(t):
    """the tracker / webseed fields the torrent object holds (the model's input); None = key absent; 'odd' if a field has
    another shape than str / list of str / list of lists of str"""
    md, out = t.metainfo, {}
    isl = lambda v: isinstance(v, (list, tuple))
    for k in TRACKER_KEYS:
        v = md.get(k)
        if v is None or (isinstance(v, str) and k != 'announce-list'):
            out[k] = v
        elif k == 'announce-list' and isl(v) and all(isl(tier) and all(isinstance(u, str) for u in tier) for tier in v):
            out[k] = [[str(u) for u in tier] for tier in v]
        elif k in ('url-list', 'httpseeds') and isl(v) and all(isinstance(u, str) for u in v):
            out[k] = [str(u) for u in v]
        else:
            out['odd'] = k
    return out


def _build_torrent(torf, s):
    info = {'name': s['name'], 'piece length': s['L']}
    if 'length' in s:
        info['length'] = s['length']
        size = s['length']
    else:
        info['files'] = [{'path': p, 'length': n} for p, n in s['files']]
        size = sum(n for _, n in s['files'])
    info['pieces'] = bytes(20) * ((size + s['L'] - 1) // s['L'])
    lay = s.get('layout')
    if lay is not None and lay.get('origin') == 'read' and not mg.has_surrogate(s['name']):
        # a third-party .torrent file: bencoded here, read with torf
        md = {'info': info}
        md.update({k: lay[k] for k in TRACKER_KEYS if k in lay})
        t = torf.Torrent.read_stream(_benc(md))
    else:
        t = torf.Torrent()
        t.metainfo['info'] = info
        if lay is None:
            t.trackers = s['trackers']
            t.webseeds = s['webseeds']
        else:
            # the user edits torrent.metainfo directly
            for k in TRACKER_KEYS:
                if k in lay:
                    t.metainfo[k] = copy.deepcopy(lay[k])
    t.validate()
    t.dump()
    return t


def _run_torrent_chunk(specs):
    torf = common.import_torf()
    out = []
    for s in specs:
        o = {}
        try:
            t = _build_torrent(torf, s)
            o['meta'] = _meta(t)
        except BaseException as e:  # noqa
            o['setup_exc'] = f'{type(e).__name__}: {e}'[:200]
            out.append(o)
            continue
        try:
            o['torrent'] = _view(t)
        except BaseException as e:  # noqa
            # exportable (validate() and dump() passed) but a getter raises: the class of finding D07i (C07)
            o['view_exc'] = mg.errkind(e)
            if 'layout' not in s:
                o['setup_exc'] = f'{type(e).__name__}: {e}'[:200]
                out.append(o)
                continue
        try:
            m = t.magnet()
            o['magnet'] = fields(m)
            o['magnet_ok'] = True
            o['uri'] = str(m)
            t2 = torf.Magnet.from_string(o['uri']).torrent()
            o['back'] = _view(t2)
        except BaseException as e:  # noqa
            o['exc'] = mg.errkind(e)
            out.append(o)
            continue
        if 'torrent' not in o:
            out.append(o)
            continue
        # history: the user edits a parsed copy of the link (and the torrent made from it), then exports the
        # unchanged torrent a second time
        try:
            p = torf.Magnet.from_string(o['uri'])
            o['edits'] = edit_magnet(p)
            try:
                t2.name = 'edited'
                t2.trackers = ['http://edited.example/t']
                t2.webseeds = ['http://edited.example/w']
            except Exception:  # noqa
                pass
            o['torrent_after_edit'] = _view(t)
            o['uri2'] = str(t.magnet())
            o['back2'] = _view(torf.Magnet.from_string(o['uri2']).torrent())
        except BaseException as e:  # noqa
            o['exc2'] = mg.errkind(e)
        out.append(o)
    return out


def run_torrents_in_envs(specs_by_env):
    """{env label: specs} -> {env label: (report, observations)}; every label one child interpreter, in parallel"""
    labels = list(specs_by_env)
    jobs = [(lb, 'harness.props.c13', '_run_torrent_chunk', specs_by_env[lb]) for lb in labels]
    res = common.pmap(fsenv.run_job, jobs) if len(jobs) > 1 else [fsenv.run_job(j) for j in jobs]
    return {lb: (r['report'], r['result']) for lb, r in zip(labels, res)}


def _meta_req(_utils, t, meta):
    """driver request for a torrent given by its raw tracker / webseed fields; the is_url oracle answers for every raw URL
    and its stored form"""
    ul = meta.get('url-list')
    raw = ([meta['announce']] if meta.get('announce') is not None else []) + [u for tier in (meta.get('announce-list') or []) for u in tier]
    raw += [ul] if isinstance(ul, str) else list(ul or [])
    cand = set(raw) | {u.replace(' ', '+') for u in raw} | set(t['trackers']) | set(t['webseeds'])
    return {'op': 'c13.torrentmeta',
            't': {'infohash': mg.cps(t['infohash']), 'name': mg.ocps(t['name']), 'size': t['size'], 'announce': mg.ocps(meta.get('announce')),
                  'announceList': None if meta.get('announce-list') is None else [[mg.cps(u) for u in tier] for tier in meta['announce-list']],
                  'urlList': ({'kind': 'absent'} if ul is None else {'kind': 'str', 'v': mg.cps(ul)} if isinstance(ul, str)
                              else {'kind': 'list', 'v': [mg.cps(u) for u in ul]})},
            'valid': [mg.cps(u) for u in cand if _utils.is_url(u)]}


def _unview(j):
    return {'infohash': mg.uncps(j['infohash']), 'name': mg.uncps(j['name']), 'size': j['size'],
            'trackers': [mg.uncps(u) for u in j['trackers']], 'webseeds': [mg.uncps(u) for u in j['webseeds']]}


def eval_torrents(ctx, drv, specs, env=None, obs=None):
    """env = label of harness.impl.fsenv (the cases ran in a child interpreter with that locale / file-system encoding;
    `obs` then holds what it observed); the specification and the model do not mention the environment at all.
    A spec with 'layout' has its tracker / webseed fields written straight into the metainfo (or read from a file bencoded by
    the harness): the model then starts from those raw fields (`c13.torrentmeta`: the getters Torrent.trackers /
    Torrent.webseeds are part of the model); without 'layout' the fields were laid out by torf's setters (`c13.torrent`)."""
    torf = common.import_torf()
    from torf import _utils
    if obs is None and env is not None:
        obs = run_torrents_in_envs({env: specs})[env][1]
    if obs is None:
        obs = [o for ch in common.pmap(_run_torrent_chunk, common.split(specs, common.NPROC * 4)) for o in ch]
    tag = '' if env is None else '@' + env
    todo = []
    for s, o in zip(specs, obs):
        lay = s.get('layout')
        if 'meta' not in o or ('torrent' not in o and lay is None):
            ctx.case(kind='torrent/not-exportable' + tag)
            ctx.dist['torrent-setup:' + o['setup_exc'].split(':')[0]] += 1
        elif 'torrent' not in o:
            # exportable, but Torrent.trackers / Torrent.webseeds raise (validate() accepts what the getters reject: the
            # class of D07i, property C07): outside C13's quantifier; the model of the getters must raise the same kind
            # of error and magnet() with it
            case = {'kind': 'torrent', 'spec': s, 'meta': o['meta'], 'env': env}
            ctx.case(key=('t-unreadable', env, json.dumps(s, sort_keys=True)), nontrivial=False, kind='torrent/getter-raises(D07i class)' + tag)
            if 'odd' in o['meta'] or mg.has_surrogate(s['name']):
                continue
            t0 = {'infohash': 'ab' * 20, 'name': s['name'], 'size': 1, 'trackers': [], 'webseeds': []}
            r = drv.run([_meta_req(_utils, t0, o['meta'])])[0]
            if 'err' not in r['view'] or r['view']['err'] != o['view_exc'] or o.get('exc') != r['view']['err']:
                ctx.corr_break('c13.getter(error)', case, {'view': r['view'], 'magnet': r['model']},
                               {'view_exc': o['view_exc'], 'magnet_exc': o.get('exc'), 'uri': o.get('uri')})
        elif mg.has_surrogate(o['torrent']['name']):
            # an exportable torrent whose name holds a lone surrogate (undecodable file name): no Lean string for it, the
            # round trip is judged against the property directly
            t = o['torrent']
            case = {'kind': 'torrent', 'spec': s, 'torrent': t, 'env': env}
            ctx.case(key=('t-sur', env, json.dumps(s, sort_keys=True)), nontrivial=True, kind='torrent/surrogate-name' + tag)
            if o.get('back') != t:
                ctx.violation('Torrent.magnet() -> str -> from_string -> torrent() does not preserve infohash, name, size, '
                              'tracker order and webseeds (exportable torrent whose name comes from an undecodable file name)',
                              case, t, {k: o.get(k) for k in ('back', 'exc', 'uri', 'magnet_ok')}, finding_matchers=MATCHERS)
        else:
            todo.append((s, o))
    reqs = []
    for s, o in todo:
        t = o['torrent']
        if s.get('layout') is not None and 'odd' not in o['meta']:
            reqs.append(_meta_req(_utils, t, o['meta']))
        else:
            reqs.append({'op': 'c13.torrent', 't': {'infohash': mg.cps(t['infohash']), 'name': mg.cps(t['name']), 'size': t['size'],
                                                    'trackers': [mg.cps(u) for u in t['trackers']],
                                                    'webseeds': [mg.cps(u) for u in t['webseeds']]},
                         'valid': [mg.cps(u) for u in set(t['trackers'] + t['webseeds']) if _utils.is_url(u)]})
    replies = par_run(drv, reqs, weight=lambda q: len(q['valid']) ** 2)
    for (s, o), r in zip(todo, replies):
        t = o['torrent']
        lay = s.get('layout')
        foreign = r.get('view') is not None
        case = {'kind': 'torrent', 'spec': s, 'torrent': t, 'env': env}
        if lay is not None:
            case['meta'] = o['meta']
        n_urls = len(t['trackers']) + len(t['webseeds'])
        if n_urls >= 10:
            ctx.dist['torrent-urls/' + ('10-99' if n_urls < 100 else '100-999' if n_urls < 1000 else '>=1000')] += 1
        if lay is not None:
            m = o['meta']
            flat = [u for tier in (m.get('announce-list') or []) for u in tier]
            a = m.get('announce')
            ctx.dist['layout/' + lay.get('origin', 'edit') + '/announce:' + ('absent' if a is None else 'in-list' if a in flat else
                     'in-list-once-stored' if a.replace(' ', '+') in [u.replace(' ', '+') for u in flat] else 'not-in-list')
                     + '/announce-list:' + ('absent' if m.get('announce-list') is None else 'empty' if not m['announce-list'] else
                                            'only-empty-tiers' if not flat else 'dups' if len(set(flat)) < len(flat) or [] in m['announce-list'] else 'plain')] += 1
            ul = m.get('url-list')
            ctx.dist['layout/url-list:' + ('absent' if ul is None else 'str' if isinstance(ul, str) else 'list')] += 1
        ctx.case(key=('t', env, o.get('uri'), json.dumps(s, sort_keys=True) if (o.get('uri') is None or lay is not None) else None),
                 nontrivial=len(t['trackers']) > 1 or '%' in (o.get('uri') or ''),
                 kind='torrent/' + ('foreign-layout/' if lay is not None else '') + ('ok' if r['hyp'] else 'outside-hyp') + tag)
        if len(ctx.samples) < 6 or (lay is not None and ctx.dist['sampled-layout'] < 2 and len(t['trackers']) > 1 and len(t['trackers']) < 8):
            if lay is not None:
                ctx.dist['sampled-layout'] += 1
            ctx.sample({'torrent': t, 'uri': o.get('uri'), 'metainfo fields': o['meta'] if lay is not None else None}, limit=10)
        if o.get('back') != t:
            ctx.violation('Torrent.magnet() -> str -> from_string -> torrent() does not preserve infohash, name, size, '
                          'tracker order and webseeds' + (' as the getters of the torrent show them (tracker fields not laid out by '
                                                          'torf: written into the metainfo / read from a third-party file)' if lay is not None else '')
                          + (' (child interpreter with environment %s)' % env if env else ''),
                          case, t, {k: o.get(k) for k in ('back', 'exc', 'uri', 'magnet_ok')}, finding_matchers=MATCHERS)
            continue
        if o.get('torrent_after_edit') != t or o.get('uri2') != o.get('uri') or o.get('back2') != t:
            ctx.violation('second export of an unchanged torrent in one process: after the magnet parsed from the first link '
                          '(and the torrent made from it) were edited, Torrent.magnet() -> str -> from_string -> torrent() no '
                          'longer preserves infohash, name, size, tracker order and webseeds', case, t,
                          {k: o.get(k) for k in ('back2', 'exc2', 'uri2', 'torrent_after_edit')}, finding_matchers=MATCHERS)
            continue
        ctx.dist['torrent/second-round-trip-after-edit'] += 1
        if foreign:
            # --- the getters against their model and against the specification of what they must show (C13_meta_getter_flat)
            if 'ok' not in r['view']:
                ctx.corr_break('c13.getter', case, r['view'], t)
                continue
            if not r['specEq']:
                ctx.machinery_error('model of the trackers / webseeds getters differs from flatTrackersSpec / webseedsSpec although '
                                    'C13_meta_getter_flat is proved', {'case': case, 'model': r['view']})
                continue
            if _unview(r['view']['ok']) != t:
                ctx.corr_break('c13.getter', case, _unview(r['view']['ok']), t)
                continue
        if not r['hyp']:
            continue
        m = r['model']
        if 'ok' not in m:
            ctx.machinery_error('torrent round-trip model fails although C13_torrent_roundtrip / C13_meta_roundtrip is proved', {'case': case, 'model': m})
            continue
        mv = _unview(m['ok'])
        if mv != t:
            ctx.machinery_error('torrent round-trip model does not return the torrent although C13_torrent_roundtrip / C13_meta_roundtrip is proved',
                                {'case': case, 'model': mv})
        elif mg.uncps(m['uri']) != o['uri']:
            ctx.corr_break('c13.torrent', case, mg.uncps(m['uri']), o['uri'])


def eval_torrent_envs(ctx, drv, scale=1.0):
    """the torrent -> magnet -> torrent clauses once per locale / file-system encoding (child interpreters)"""
    rng = ctx.rng
    fixed = [dict(gen_torrent(rng), name=n) for n in ENV_NAMES]
    by_env = {e[0]: fixed + [gen_env_torrent(rng) for _ in range(int(ctx.n(60, 1500) * scale))] for e in fsenv.ENVS}
    res = run_torrents_in_envs(by_env)
    reports = {}
    for lb in by_env:
        report, obs = res[lb]
        reports[lb] = report
        eval_torrents(ctx, drv, by_env[lb], env=lb, obs=obs)
    ctx.notes.setdefault('environments', reports)
    exp_fs = {'C-ascii-fs': 'ascii', 'C-utf8-mode': 'utf-8', 'shadow-latin-1': 'latin-1', 'shadow-gbk': 'gbk'}
    for lb, fs in exp_fs.items():
        if reports[lb]['fs'].lower() != fs:
            ctx.machinery_error('environment %s did not get the file-system encoding %s: %r' % (lb, fs, reports[lb]))


# ------------------------------------------------------------------ entry points
def run(ctx, drv):
    ctx.notes['rule'] = RULE
    ctx.notes['assumptions'] = [
        'urllib.parse.quote_plus / unquote_plus / parse_qs / urlparse are modelled by hand for the shapes torf produces '
        '(ASCII links without //netloc); the models are tied to the real functions by this differential run',
        'str.strip / str.split use the str.isspace table of CPython 3.12 (modelled as a character list)',
        'utils.is_url is a predicate parameter evaluated by the real function; int() on digit strings is modelled, else oracle',
        'Python strings with lone surrogates cannot be rendered (UnicodeEncodeError) and are outside the claim; '
        'xl >= 10^4300 cannot be rendered (CPython int->str limit) and is outside the claim',
        'bytes.decode(errors="replace") is only modelled on valid UTF-8 (always the case for rendered links)',
        'histories on one magnet: an edit is whatever the real setter / list / dict method did (the fields are read back after '
        'every step); the model renders the field values read back - it does not model MonitoredList or the setters (C14, C16)',
        'locale / file-system encoding: real child environments by LC_ALL / PYTHONUTF8 / PYTHONCOERCECLOCALE / PYTHONIOENCODING; '
        'legacy charsets are simulated by replacing os.fsencode, os.fsdecode, sys.getfilesystemencoding, '
        'locale.getpreferredencoding, locale.getencoding process-wide in the child before torf is imported',
        'torrent names with lone surrogates (undecodable file names) have no Lean string: judged against the property only',
        'foreign tracker layouts: the model starts from the announce / announce-list / url-list values the torrent object holds '
        'after validate() and dump() (for a file read with read_stream: what read_stream stored); only str / list of str / list of '
        'lists of str shapes are modelled (other shapes pass validate() only as finding D07i of C07); the getters Torrent.trackers / '
        'Torrent.webseeds are C16\'s model (Torf.Lists.getTrackers / urlsReplace), compared here with the real getters on such '
        'metainfo; httpseeds is generated but is not part of a magnet link',
        'an exportable torrent whose trackers / webseeds getter raises URLError (validate() accepts what utils.URL rejects, e.g. a '
        'leading space: class of finding D07i, C07) is outside C13\'s quantifier; model and code must raise the same kind of error',
        'size: the model has no limit on the number of fields, URLs, keywords or on value lengths; the quick tier goes up to 1500 URLs '
        '(finding D08h: the parser is quadratic in the number of trackers)',
    ]
    rng = ctx.rng
    import time
    t_prev = [time.time()]
    walls = ctx.notes.setdefault('phase_wall_s', {})

    def lap(name):
        walls[name] = round(time.time() - t_prev[0], 1)
        t_prev[0] = time.time()
    for c in mg.corpus_cases('C13'):          # past failures first
        ctx.dist['corpus'] += 1
        _eval_case(ctx, drv, c)
    lap('corpus')
    eval_quote(ctx, drv)
    lap('quote')
    kws = FIXED + [gen_kwargs(rng) for _ in range(ctx.n(20000, 300000))]
    sized = sized_magnets(ctx, rng)
    eval_magnets(ctx, drv, kws + sized)
    lap('magnets')
    # parser model on mangled links
    torf = common.import_torf()
    base = []
    for kw in kws[:ctx.n(8000, 60000)] + [kw for kw in sized if len(kw.get('tr', [])) + len(kw.get('ws', [])) <= 320][:ctx.n(30, 300)]:
        try:
            base.append(str(torf.Magnet(**kw)))
        except BaseException:  # noqa
            pass
    eval_parser(ctx, drv, [mangle(rng, u) for u in base])
    lap('parser')
    eval_histories(ctx, drv, fixed_histories() + [gen_history(rng) for _ in range(ctx.n(2500, 40000))])
    lap('histories')
    rest = ([gen_env_torrent(rng) for _ in range(ctx.n(300, 3000))] + [gen_torrent(rng) for _ in range(ctx.n(3000, 40000))]
            + layouts_small_scope()
            + [gen_sized_torrent(rng, b + d) for b in (10, 50, 100, 128) for d in (-1, 0, 1)]
            + [gen_sized_torrent(rng, rng.choice([200, 255, 256, 257, 300, 400, 512] if ctx.thorough else [200, 255, 256, 257, 300])) for _ in range(ctx.n(3, 30))]
            + [gen_sized_torrent(rng, rng.choice([999, 1000, 1001, 1024, 1100])) for _ in range(6 if ctx.thorough else 0)])
    rng.shuffle(rest)                       # the big ones spread over the worker chunks
    eval_torrents(ctx, drv, FIXED_TORRENTS + rest)
    lap('torrents')
    eval_torrent_envs(ctx, drv)
    lap('torrent-envs')
    ctx.exhaustive = False
    for f in ctx.open_findings():
        if f['id'] not in ctx.known:
            ctx.not_reproduced.append(f['id'])


def search(ctx, drv):
    rng = ctx.rng
    eval_magnets(ctx, drv, [gen_kwargs(rng, findings_share=0.05) for _ in range(ctx.n(20000, 300000))] + sized_magnets(ctx, rng))
    eval_histories(ctx, drv, [gen_history(rng, findings_share=0.03) for _ in range(ctx.n(8000, 80000))])
    eval_torrents(ctx, drv, layouts_small_scope() + [gen_torrent(rng) for _ in range(ctx.n(4000, 40000))]
                  + [gen_sized_torrent(rng, rng.choice([99, 100, 101, 128, 200, 256])) for _ in range(ctx.n(12, 60))])
    eval_torrent_envs(ctx, drv, scale=3.0)


def _eval_case(ctx, drv, c):
    k = c.get('kind')
    if k == 'magnet':
        eval_magnets(ctx, drv, [c['kwargs']])
    elif k == 'history':
        eval_histories(ctx, drv, [{'kwargs': c['kwargs'], 'ops': c['ops']}])
    elif k == 'torrent':
        eval_torrents(ctx, drv, [c['spec']], env=c.get('env'))
    elif k == 'parser':
        eval_parser(ctx, drv, [c['uri']])
    else:
        eval_quote(ctx, drv)


def replay(ctx, drv, rp):
    _eval_case(ctx, drv, rp['case'])
    return {'fails': bool(ctx.violations or ctx.known or ctx.corr_breaks), 'violations': ctx.violations,
            'known': list(ctx.known), 'corr_breaks': ctx.corr_breaks}
