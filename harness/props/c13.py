"""
C13 — magnet links round-trip.

I = real torf (`str(Magnet)`, `Magnet.from_string`, `Torrent.magnet()`, `Magnet.torrent()`),
M = Lean model (quote_plus / unquote_plus on UTF-8 bytes, renderer, urlparse for the magnet shape,
parse_qs, the parser's checks and setters), S = "parsing what was rendered gives the same fields".
"""
import urllib.parse

from harness import common
from harness.impl import magnet as mg

RULE = ('magnets = constructor keyword sets (hash in 4 notations and mixed case, with/without urn:btih:; names from '
        'a reserved-character / control-character / non-ASCII / non-BMP / percent-lookalike alphabet; xl up to 10^30; '
        '0-5 trackers and webseeds incl. spaces, duplicates; xs; keywords with + % & and non-ASCII), about a quarter '
        'with as_ / x_ parameters / empty dn / empty keywords (the open findings); render -> parse -> field-wise '
        'comparison, then every field of the parsed object is edited and the unchanged magnet is rendered and parsed a '
        'second time (same comparison); mangled links for the parser model (each parsed twice with an edit between); torrents (single/multi file, tiers, webseeds) -> magnet() -> '
        'str -> from_string -> torrent(), twice with edits of the parsed magnet / torrent between. non-trivial = the rendered link needs percent-quoting or has a multi-valued '
        'parameter; distinct = distinct rendered link')

FIELDS = ('infohash', 'dn', 'xl', 'tr', 'xs', 'as_', 'ws', 'kt', 'x')

ALPHA = (list('abcXYZ019') + list('&=+%#?;/:@!$\'()*,[]~_.-"<>\\^`{|}') + [' ', ' ', '\t', '\r', '\x00', '\x01', '\x1f',
         '\x7f', '\x85', '\xa0', 'é', 'ü', 'ß', 'ı', 'İ', 'Ω', 'ж', '日', '本', '​', ' ', '﻿', '�',
         '\U0001F600', '\U00010348', '\U0010FFFF', '%41', '%zz', '%', '%2', '%e9', '+', '++', '%2B', '&amp;', 'a=b'])
URLS = ['http://a/b', 'http://a/b c', 'http://a/b+c', 'https://x.y:80/z?q=1&r=2#frag', 'udp://t:6969/announce',
        'http://[::1]:80/x', 'ftp://h/', 'http://ä.example/ü', 'http://a/%20%2B', 'http://a/b%c', 'wss://w/s',
        'http://a/b;c=d', 'http://u:p@h/', 'http://a/日本', 'http://a/\U0001F600', 'http://a/b  c', ' http://a/lead',
        'http://h/a=b&c=d', 'http://h/+']


def rand_text(rng, maxlen=12):
    return ''.join(rng.choice(ALPHA) for _ in range(rng.randint(1, maxlen)))


def rand_keyword(rng):
    a = [c for c in ALPHA if not any(ch.isspace() for ch in c)]
    return ''.join(rng.choice(a) for _ in range(rng.randint(1, 6)))


def gen_kwargs(rng, findings_share=0.25):
    h = mg.rand_hex40(rng)
    own = rng.choice(list(mg.notations(h).values()) + [mg.randcase(rng, h), mg.randcase(rng, mg.notations(h)['b32-upper'])])
    kw = {'xt': rng.choice(['', 'urn:btih:', 'URN:BTIH:']) + own}
    if rng.random() < 0.7:
        kw['dn'] = rand_text(rng) if rng.random() < 0.9 else rng.choice(['a\nb', '\n', ' lead', 'trail ', 'a  b'])
    if rng.random() < 0.6:
        kw['xl'] = rng.choice([1, 2, 10, 999, 2 ** 32, 2 ** 63, 10 ** 30, rng.randint(1, 10 ** rng.randint(1, 25))])
    if rng.random() < 0.6:
        kw['tr'] = [rng.choice(URLS) for _ in range(rng.randint(0, 5))]
        if rng.random() < 0.1 and kw['tr']:
            kw['tr'] = kw['tr'][0]
    if rng.random() < 0.3:
        kw['xs'] = rng.choice(URLS)
    if rng.random() < 0.4:
        kw['ws'] = [rng.choice(URLS) for _ in range(rng.randint(0, 4))]
    if rng.random() < 0.4:
        kw['kt'] = [rand_keyword(rng) for _ in range(rng.randint(0, 4))]
        if rng.random() < 0.1 and kw['kt']:
            kw['kt'] = kw['kt'][0]
    if rng.random() < findings_share:
        r = rng.random()
        if r < 0.3:
            kw['as_'] = rng.choice(URLS)
        elif r < 0.6:
            for _ in range(rng.randint(1, 2)):
                kw['x_' + rng.choice(['pe', 'k', 'Key', 'a.b', '1'])] = rand_text(rng, 6)
        elif r < 0.75:
            kw['dn'] = ''
        elif r < 0.9:
            kw['kt'] = [rand_keyword(rng) for _ in range(rng.randint(0, 2))] + [''] + [rand_keyword(rng) for _ in range(rng.randint(0, 2))]
        else:
            kw['kt'] = [rng.choice(['a b', 'a\tb', 'a\xa0b', ' a', 'a b'])]
    return kw


FIXED = [
    {'xt': 'ab' * 20},
    {'xt': 'ab' * 20, 'as_': 'http://a/b'},                                   # D13a
    {'xt': 'ab' * 20, 'x_pe': '1.2.3.4:5'},                                   # D13b
    {'xt': 'ab' * 20, 'dn': ''},                                              # D13c
    {'xt': 'ab' * 20, 'kt': ['a', '', 'b']},                                  # D13c
    {'xt': 'ab' * 20, 'kt': ['']},
    {'xt': 'ab' * 20, 'xs': ' http://a/lead'},                                # D13e (repaired: URLError; regression)
    {'xt': 'ab' * 20, 'tr': ['http://good/1', ' http://a/lead']},             # D14g (repaired; regression)
    {'xt': 'ab' * 20, 'ws': ['http://a/b c', ' http://a/lead']},
    {'xt': 'ab' * 20, 'xs': 'http://a/b c d', 'tr': 'http://a/ b', 'ws': ['http://w/x y', 'http://w/x+y']},
    {'xt': 'ab' * 20, 'dn': 'a&b=c+d%e#f?g;h ü\t\r\x00\x7f\U0001F600 x'},
    {'xt': 'AB' * 20, 'dn': '%41+%2B %', 'xl': 10 ** 30, 'tr': ['http://a/b c', 'http://a/b+c', 'http://a/b'], 'kt': ['a+b', 'c%20d', '&', '=']},
    {'xt': 'urn:btih:' + 'VOV2XK5L' * 4, 'ws': ['http://w/1', 'http://w/1', 'http://w/2']},
    {'xt': 'vov2xk5l' * 4, 'dn': 'a\nb'},
    {'xt': 'ab' * 20, 'dn': '\udc80'},                                         # lone surrogate: outside the claim
    {'xt': 'ab' * 20, 'xl': 10 ** 4300},                                       # beyond CPython's int->str limit
]


def fields(m):
    return {'infohash': m.infohash, 'dn': m.dn, 'xl': m.xl, 'tr': [str(u) for u in m.tr],
            'xs': None if m.xs is None else str(m.xs), 'as_': None if m.as_ is None else str(m.as_),
            'ws': [str(u) for u in m.ws], 'kt': None if m.kt is None else [str(k) for k in m.kt],
            'x': [[k, v] for k, v in m.x.items()]}


def edit_magnet(m):
    """what a caller may do with a parsed magnet: change every field in place (setters, list methods, dict item).
    Returns the number of edits that went through."""
    n = 0
    for f in (lambda: setattr(m, 'dn', (m.dn or '') + ' (edited)'),
              lambda: setattr(m, 'xl', (m.xl or 0) + 1),
              lambda: m.tr.append('http://edited.example/announce'),
              lambda: m.tr.insert(0, 'http://edited.example/first') if len(m.tr) > 1 else m.tr.clear(),
              lambda: m.ws.clear() if m.ws else m.ws.append('http://edited.example/seed'),
              lambda: setattr(m, 'xs', 'http://edited.example/x.torrent'),
              lambda: setattr(m, 'kt', ['edited'] + list(m.kt or [])),
              lambda: m.x.__setitem__('edited', '1'),
              lambda: setattr(m, 'infohash', 'ef' * 20)):
        try:
            f()
            n += 1
        except Exception:  # noqa
            pass
    return n


def _run_magnet_chunk(cases):
    torf = common.import_torf()
    out = []
    for kw in cases:
        o = {}
        try:
            m = torf.Magnet(**kw)
        except BaseException as e:  # noqa
            o['construct'] = mg.errkind(e)
            out.append(o)
            continue
        o['construct'] = 'ok'
        o['fields'] = fields(m)
        try:
            s = str(m)
            o['uri'] = s
        except BaseException as e:  # noqa
            o['uri_exc'] = type(e).__name__
            out.append(o)
            continue
        try:
            m2 = torf.Magnet.from_string(s)
            o['parsed'] = fields(m2)
        except BaseException as e:  # noqa
            o['parse_exc'] = mg.errkind(e)
            out.append(o)
            continue
        # history: the caller edits the parsed object, then the *unchanged* m is rendered and parsed again
        try:
            o['edits'] = edit_magnet(m2)
            o['original_after_edit'] = fields(m)
            s2 = str(m)
            o['uri_again'] = s2
            o['parsed_again'] = fields(torf.Magnet.from_string(s2))
        except BaseException as e:  # noqa
            o['again_exc'] = mg.errkind(e)
        out.append(o)
    return out


def _strs(f):
    yield f['infohash']
    for k in ('dn', 'xs', 'as_'):
        if f[k] is not None:
            yield f[k]
    for k in ('tr', 'ws', 'kt'):
        yield from (f[k] or [])
    for k, v in f['x']:
        yield k
        yield v


def _mjson(f):
    return {'infohash': mg.cps(f['infohash']), 'dn': mg.ocps(f['dn']), 'xl': f['xl'],
            'tr': [mg.cps(u) for u in f['tr']], 'xs': mg.ocps(f['xs']), 'as_': mg.ocps(f['as_']),
            'ws': [mg.cps(u) for u in f['ws']], 'kt': [mg.cps(k) for k in (f['kt'] or [])],
            'x': [[mg.cps(k), mg.cps(v)] for k, v in f['x']]}


def _munjson(j):
    return {'infohash': mg.uncps(j['infohash']), 'dn': mg.uncps(j['dn']), 'xl': j['xl'],
            'tr': [mg.uncps(u) for u in j['tr']], 'xs': mg.uncps(j['xs']), 'as_': mg.uncps(j['as_']),
            'ws': [mg.uncps(u) for u in j['ws']], 'kt': [mg.uncps(k) for k in j['kt']],
            'x': [[mg.uncps(k), mg.uncps(v)] for k, v in j['x']]}


def _valid_urls(torf_utils, f):
    c = set(f['tr']) | set(f['ws']) | {u for u in (f['xs'], f['as_']) if u is not None}
    return [mg.cps(u) for u in c if torf_utils.is_url(u)]


# ------------------------------------------------------------------ known findings
def _diff(exp, got):
    return [k for k in FIELDS if exp.get(k) != got.get(k)]


def m_as_underscore(case, observed, finding):
    """D13a: the magnet has an acceptable source and parsing the rendered link raises MagnetError"""
    f = case.get('fields') or {}
    return bool(f.get('as_') is not None and observed == {'parse_exc': 'magnet'})


def m_x_dot(case, observed, finding):
    """D13b: the magnet has extension parameters and parsing the rendered link raises MagnetError"""
    f = case.get('fields') or {}
    return bool(f.get('x') and f.get('as_') is None and observed == {'parse_exc': 'magnet'})


def m_blank_dropped(case, observed, finding):
    """D13c: the only differences after the round trip are an empty dn that became None and empty keywords that
    disappeared"""
    f = case.get('fields') or {}
    p = (observed or {}).get('parsed') if isinstance(observed, dict) else None
    if not p or not (f.get('dn') == '' or '' in (f.get('kt') or [])):
        return False
    g = dict(f)
    if g['dn'] == '':
        g['dn'] = None
    g['kt'] = [k for k in (g['kt'] or []) if k != '']
    return g == p


def m_name_newline(case, observed, finding):
    """D13d: torrent name contains a newline; only the name differs, by '\\n' -> ' '"""
    t = case.get('torrent') or {}
    o = observed if isinstance(observed, dict) else {}
    return bool('\n' in (t.get('name') or '') and o.get('back') and
                dict(t, name=t['name'].replace('\n', ' ')) == o['back'])


MATCHERS = {'as_underscore': m_as_underscore, 'x_dot': m_x_dot, 'blank_dropped': m_blank_dropped,
            'name_newline': m_name_newline}


# ------------------------------------------------------------------ quote_plus / unquote_plus
def eval_quote(ctx, drv, scale=1.0):
    torf = common.import_torf()
    from torf import _utils
    rng = ctx.rng
    strs = ['', ' ', '+', '%', '%41', 'a b+c', '\x00', '\x7f', '\x80', 'é', '￿', '\U0001F600', '~_.-', '/', 'a&b=c']
    strs += [chr(i) for i in range(0, 0x250)]
    for _ in range(int(ctx.n(1500, 60000) * scale)):
        strs.append(rand_text(rng, 10) if rng.random() < 0.6 else
                    ''.join(chr(rng.choice([rng.randrange(0, 0x80), rng.randrange(0x80, 0x800), rng.randrange(0x800, 0xD800),
                                            rng.randrange(0xE000, 0x10000), rng.randrange(0x10000, 0x110000)]))
                            for _ in range(rng.randint(1, 6))))
    replies = drv.run([{'op': 'c13.quote', 's': mg.cps(s)} for s in strs])
    for s, r in zip(strs, replies):
        ctx.case(key=('q', s), nontrivial=any(not (c.isascii() and (c.isalnum() or c in '_.-~')) for c in s), kind='quote')
        q = _utils.urlquote(s)
        back = urllib.parse.unquote_plus(q)            # what parse_qsl does to a value
        case = {'kind': 'quote', 's': s}
        if back != s:
            ctx.violation('unquote_plus(quote_plus(s)) != s', case, s, back, finding_matchers=MATCHERS)
            continue
        if not r['specEq']:
            ctx.machinery_error('model unquotePlus (quotePlus s) != s although C13_unquote_quote is proved', case)
        elif mg.uncps(r['model']['quoted']) != q:
            ctx.corr_break('c13.quote', case, mg.uncps(r['model']['quoted']), q)
    # unquote on arbitrary (not rendered) text: model against urllib only where the model claims to know
    raw = []
    for _ in range(int(ctx.n(1500, 40000) * scale)):
        raw.append(''.join(rng.choice(['%', '%4', '%41', '%e9', '%C3%A9', '%c3', '%zz', '+', ' ', 'a', 'é', '%F0%9F%98%80',
                                       '%00', '%0a', '%%', '%2', '&', '=']) for _ in range(rng.randint(0, 6))))
    replies = drv.run([{'op': 'c13.unquote', 's': mg.cps(s)} for s in raw])
    for s, r in zip(raw, replies):
        ctx.case(key=('u', s), nontrivial='%' in s, kind='unquote')
        if r['hyp'] and s.isascii():
            got = urllib.parse.unquote_plus(s)
            if mg.uncps(r['model']) != got:
                ctx.corr_break('c13.unquote', {'kind': 'unquote', 's': s}, mg.uncps(r['model']), got)
        else:
            ctx.dist['unquote-not-modelled(invalid utf-8 or non-ascii input)'] += 1


# ------------------------------------------------------------------ render -> parse
def in_scope(f):
    """the property's quantifier: Unicode scalar values only (no lone surrogates), keywords without whitespace,
    xl within CPython's int->str limit"""
    if any(mg.has_surrogate(s) for s in _strs(f)):
        return False
    if any(any(c.isspace() for c in k) for k in (f['kt'] or [])):
        return False
    if f['xl'] is not None and f['xl'] >= 10 ** 4300:
        return False
    return True


def eval_magnets(ctx, drv, kws):
    torf = common.import_torf()
    from torf import _utils
    obs = [o for ch in common.pmap(_run_magnet_chunk, common.split(kws, common.NPROC * 4)) for o in ch]
    todo = []
    for kw, o in zip(kws, obs):
        if o['construct'] != 'ok':
            ctx.case(kind='magnet/not-constructible:' + o['construct'])
            continue
        f = o['fields']
        if not in_scope(f):
            ctx.case(kind='magnet/outside-quantifier(surrogate|keyword whitespace|xl>=10^4300)')
            if 'uri_exc' in o and not (any(mg.has_surrogate(s) for s in _strs(f)) or (f['xl'] or 0) >= 10 ** 4300):
                ctx.violation('str(magnet) raised', {'kind': 'magnet', 'kwargs': kw, 'fields': f}, 'a string', o['uri_exc'],
                              finding_matchers=MATCHERS)
            continue
        todo.append((kw, o))
    reqs = [{'op': 'c13.roundtrip', 'm': _mjson(o['fields']), 'valid': _valid_urls(_utils, o['fields'])} for kw, o in todo]
    replies = drv.run(reqs)
    for (kw, o), r in zip(todo, replies):
        f = o['fields']
        bad_urls = [u for u in f['tr'] + f['ws'] + [x for x in (f['xs'], f['as_']) if x is not None] if not _utils.is_url(u)]
        case = {'kind': 'magnet', 'kwargs': kw, 'fields': f, 'invalid_stored_urls': bad_urls}
        uri = o.get('uri')
        nontriv = uri is not None and ('%' in uri or '+' in uri or len(f['tr']) > 1 or len(f['ws']) > 1 or len(f['kt'] or []) > 1)
        ctx.case(key=('m', uri), nontrivial=nontriv, kind='magnet/' + ('wf' if r['hyp'] else 'outside-wf'))
        if len(ctx.samples) < 4 and r['hyp'] and nontriv:
            ctx.sample({'kwargs': kw, 'uri': uri, 'parsed': o.get('parsed')})
        # --- implementation against the specification: parsing what was rendered gives the same fields
        if uri is None:
            ctx.violation('str(magnet) raised for a magnet the constructor accepted', case, 'a string',
                          {'uri_exc': o['uri_exc']}, finding_matchers=MATCHERS)
            continue
        if o.get('parsed') != f:
            observed = {'parse_exc': o['parse_exc']} if 'parse_exc' in o else {'parsed': o['parsed'], 'differs': _diff(f, o['parsed'])}
            ctx.violation('Magnet.from_string(str(m)) does not give back the fields of m', case, f, observed,
                          finding_matchers=MATCHERS)
            continue
        # --- ... independent of what was done to earlier results: after the first parsed object was edited in every
        #     field, rendering the unchanged m and parsing again must give the fields of m once more
        if o.get('original_after_edit') != f or o.get('uri_again') != uri or o.get('parsed_again') != f:
            again = o.get('parsed_again')
            observed = {'again_exc': o.get('again_exc'), 'uri_again_same': o.get('uri_again') == uri,
                        'original_changed': _diff(f, o.get('original_after_edit') or {}),
                        'parsed_again': again, 'differs': _diff(f, again or {})}
            ctx.violation('second round trip of the same magnet in one process: after the first parsed object was edited, '
                          'Magnet.from_string(str(m)) of the unchanged m no longer gives back the fields of m', case, f,
                          observed, finding_matchers=MATCHERS)
            continue
        ctx.dist['magnet/second-round-trip-after-edit'] += 1
        if not r['hyp']:
            ctx.dist['outside-wf-but-round-trips'] += 1
            continue
        # --- model against the specification (proved: C13_parse_render)
        mp = r['model']['parsed']
        if not r['specEq'] or 'ok' not in mp:
            ctx.machinery_error('model round trip fails on a WF magnet although C13_parse_render is proved', case)
            continue
        # --- implementation against the model: the rendered link and the parsed fields
        muri = mg.uncps(r['model']['uri'])
        if muri != uri:
            ctx.corr_break('c13.render', case, muri, uri)
        elif _munjson(mp['ok']) != dict(o['parsed'], kt=o['parsed']['kt'] or []):
            ctx.corr_break('c13.parse', case, _munjson(mp['ok']), o['parsed'])


# ------------------------------------------------------------------ parser model on mangled links
def mangle(rng, uri):
    r = rng.random()
    q = uri[len('magnet:?'):]
    parts = q.split('&')
    if r < 0.1:
        return rng.choice([' ', '\n', '\t ', '\x1f', '\xa0']) + uri + rng.choice(['', ' ', '\n', '\x85'])
    if r < 0.2:
        return rng.choice(['MAGNET:?', 'Magnet:?', 'magnet:', '?', 'http:?', 'mag net:?', 'magnet+x:?', '1magnet:?', ':?', 'magnet:??',
                           'magnet:x?', 'magnet:/x?', 'magnet:?#']) + q
    if r < 0.35:
        parts.insert(rng.randrange(len(parts) + 1), rng.choice(['dn=x', 'xl=5', 'xl=0', 'xl=abc', 'xl=+7', 'xl=%31', 'xt=' + 'a' * 40, 'foo=bar', 'x_a=b', 'x.a=b',
                                                                'as=http://a/b', 'as_=http://a/b', 'kt=a+b++c', 'kt=%20a%09b', 'tr=nourl', 'tr=http://a/b',
                                                                'ws=', 'dn', '', '=v', 'dn=', 'xs=http://a:b/', 'tr=http%3A%2F%2Fa%2Fb', 'dn=%zz%4', 'dn=a%0Ab',
                                                                'dn=a;b', 'dn=a#b', 'dn=a?b', 'dn=a=b', 'DN=x', 'xt=urn:btih:' + 'b' * 40]))
        return 'magnet:?' + '&'.join(parts)
    if r < 0.45:
        del parts[rng.randrange(len(parts))]
        return 'magnet:?' + '&'.join(parts)
    if r < 0.6:
        i = rng.randrange(len(uri) + 1)
        return uri[:i] + rng.choice(['&', '=', '+', '%', ';', '#', '?', ' ', '\t', '\n', '\r', '%41', '%2b', '%zz', 'é', '&&']) + uri[i:]
    if r < 0.7:
        return uri.replace('%', rng.choice(['%', '%25', '%%']), 1).lower() if rng.random() < 0.5 else uri.replace('+', ' ')
    if r < 0.8:
        rng.shuffle(parts)
        return 'magnet:?' + '&'.join(parts)
    return uri


def _parse_real_chunk(uris):
    torf = common.import_torf()
    out = []
    for u in uris:
        try:
            m = torf.Magnet.from_string(u)
            o = {'parsed': fields(m)}
        except BaseException as e:  # noqa
            out.append({'exc': mg.errkind(e)})
            continue
        try:
            edit_magnet(m)
            o['again'] = fields(torf.Magnet.from_string(u))
        except BaseException as e:  # noqa
            o['again'] = {'exc': mg.errkind(e)}
        out.append(o)
    return out


def eval_parser(ctx, drv, uris):
    torf = common.import_torf()
    from torf import _utils
    uris = [u for u in uris if not mg.has_surrogate(u)]
    pr = drv.run([{'op': 'c13.pairs', 'uri': mg.cps(u)} for u in uris])
    reqs = []
    for u, p in zip(uris, pr):
        valid, ints = [], []
        if p['model'] and p['model']['pairs'] is not None:
            for k, v in p['model']['pairs']:
                v = mg.uncps(v)
                for w in {v, v.replace(' ', '+')}:          # URL() validates v, insert() re-validates the stored form
                    if _utils.is_url(w):
                        valid.append(mg.cps(w))
                try:
                    ints.append([mg.cps(v), int(v)])
                except (ValueError, TypeError, OverflowError):
                    pass
        reqs.append({'op': 'c13.parse', 'uri': mg.cps(u), 'valid': valid, 'ints': ints})
    replies = drv.run(reqs)
    obs = [o for ch in common.pmap(_parse_real_chunk, common.split(uris, common.NPROC * 4)) for o in ch]
    for u, r, o in zip(uris, replies, obs):
        ctx.case(key=('p', u), nontrivial=True, kind='parser/' + ('modelled' if r['hyp'] else 'not-modelled'))
        if 'parsed' in o and o.get('again') != o['parsed']:
            # from_string is a function of the string (the model is one): a second parse of the same text must not
            # depend on what the caller did to the first result
            ctx.violation('parsing the same link twice: after the first parsed object was edited the second parse gives '
                          'different fields', {'kind': 'parser', 'uri': u}, o['parsed'],
                          {'again': o.get('again'), 'differs': _diff(o['parsed'], o['again']) if 'exc' not in (o.get('again') or {'exc': 1}) else None},
                          finding_matchers=MATCHERS)
            continue
        if not r['hyp']:
            continue
        m = r['model']
        if 'ok' in m:
            same = 'parsed' in o and _munjson(m['ok']) == dict(o['parsed'], kt=o['parsed']['kt'] or [])
        else:
            same = o.get('exc') == m['err']
        if not same:
            ctx.corr_break('c13.parse', {'kind': 'parser', 'uri': u}, m if 'err' in m else _munjson(m['ok']), o)


# ------------------------------------------------------------------ torrent -> magnet -> torrent
def gen_torrent(rng):
    L = 16384 * rng.choice([1, 1, 2, 4, 64])
    name = rand_text(rng, 8).replace('/', '-').replace('\x00', '0') if rng.random() < 0.93 else rng.choice(['a\nb', 'x\n'])
    name = name.strip() or 'n'
    if name in ('.', '..'):
        name = 'n'
    t = {'name': name, 'L': L}
    if rng.random() < 0.5:
        t['length'] = rng.choice([1, L - 1, L, L + 1, rng.randint(1, 5 * L)])
    else:
        t['files'] = [(['d%d' % i, rand_keyword(rng).replace('/', '-').replace('\x00', '0').strip('.') or 'f'], rng.randint(1, 2 * L))
                      for i in range(rng.randint(1, 4))]
    urls = [u for u in URLS if not u.startswith(' ')]
    t['trackers'] = [[rng.choice(urls) for _ in range(rng.randint(1, 3))] for _ in range(rng.randint(0, 3))]
    t['webseeds'] = [rng.choice(urls) for _ in range(rng.randint(0, 3))]
    return t


def _view(t):
    return {'infohash': t.infohash, 'name': t.name, 'size': t.size,
            'trackers': [str(u) for tier in t.trackers for u in tier], 'webseeds': [str(u) for u in (t.webseeds or [])]}


def _run_torrent_chunk(specs):
    torf = common.import_torf()
    out = []
    for s in specs:
        o = {}
        try:
            t = torf.Torrent()
            info = {'name': s['name'], 'piece length': s['L']}
            if 'length' in s:
                info['length'] = s['length']
                size = s['length']
            else:
                info['files'] = [{'path': p, 'length': n} for p, n in s['files']]
                size = sum(n for _, n in s['files'])
            info['pieces'] = bytes(20) * ((size + s['L'] - 1) // s['L'])
            t.metainfo['info'] = info
            t.trackers = s['trackers']
            t.webseeds = s['webseeds']
            t.validate()
            t.dump()
            o['torrent'] = _view(t)
        except BaseException as e:  # noqa
            o['setup_exc'] = f'{type(e).__name__}: {e}'[:200]
            out.append(o)
            continue
        try:
            m = t.magnet()
            o['magnet'] = fields(m)
            o['uri'] = str(m)
            t2 = torf.Magnet.from_string(o['uri']).torrent()
            o['back'] = _view(t2)
        except BaseException as e:  # noqa
            o['exc'] = mg.errkind(e)
            out.append(o)
            continue
        # history: the user edits a parsed copy of the link (and the torrent made from it), then exports the
        # unchanged torrent a second time
        try:
            p = torf.Magnet.from_string(o['uri'])
            o['edits'] = edit_magnet(p)
            try:
                t2.name = 'edited'
                t2.trackers = ['http://edited.example/t']
                t2.webseeds = ['http://edited.example/w']
            except Exception:  # noqa
                pass
            o['torrent_after_edit'] = _view(t)
            o['uri2'] = str(t.magnet())
            o['back2'] = _view(torf.Magnet.from_string(o['uri2']).torrent())
        except BaseException as e:  # noqa
            o['exc2'] = mg.errkind(e)
        out.append(o)
    return out


def eval_torrents(ctx, drv, specs):
    torf = common.import_torf()
    from torf import _utils
    obs = [o for ch in common.pmap(_run_torrent_chunk, common.split(specs, common.NPROC * 4)) for o in ch]
    todo = [(s, o) for s, o in zip(specs, obs) if 'torrent' in o and not any(mg.has_surrogate(x) for x in [o['torrent']['name']])]
    for s, o in zip(specs, obs):
        if 'torrent' not in o:
            ctx.case(kind='torrent/not-exportable')
            ctx.dist['torrent-setup:' + o['setup_exc'].split(':')[0]] += 1
    reqs = []
    for s, o in todo:
        t = o['torrent']
        reqs.append({'op': 'c13.torrent', 't': {'infohash': mg.cps(t['infohash']), 'name': mg.cps(t['name']), 'size': t['size'],
                                                'trackers': [mg.cps(u) for u in t['trackers']],
                                                'webseeds': [mg.cps(u) for u in t['webseeds']]},
                     'valid': [mg.cps(u) for u in set(t['trackers'] + t['webseeds']) if _utils.is_url(u)]})
    replies = drv.run(reqs)
    for (s, o), r in zip(todo, replies):
        t = o['torrent']
        case = {'kind': 'torrent', 'spec': s, 'torrent': t}
        ctx.case(key=('t', o.get('uri')), nontrivial=len(t['trackers']) > 1 or '%' in (o.get('uri') or ''), kind='torrent/' + ('ok' if r['hyp'] else 'outside-hyp'))
        if len(ctx.samples) < 6:
            ctx.sample({'torrent': t, 'uri': o.get('uri')})
        if o.get('back') != t:
            ctx.violation('Torrent.magnet() -> str -> from_string -> torrent() does not preserve infohash, name, size, '
                          'tracker order and webseeds', case, t, {k: o.get(k) for k in ('back', 'exc', 'uri')},
                          finding_matchers=MATCHERS)
            continue
        if o.get('torrent_after_edit') != t or o.get('uri2') != o.get('uri') or o.get('back2') != t:
            ctx.violation('second export of an unchanged torrent in one process: after the magnet parsed from the first link '
                          '(and the torrent made from it) were edited, Torrent.magnet() -> str -> from_string -> torrent() no '
                          'longer preserves infohash, name, size, tracker order and webseeds', case, t,
                          {k: o.get(k) for k in ('back2', 'exc2', 'uri2', 'torrent_after_edit')}, finding_matchers=MATCHERS)
            continue
        ctx.dist['torrent/second-round-trip-after-edit'] += 1
        if not r['hyp']:
            continue
        m = r['model']
        if 'ok' not in m:
            ctx.machinery_error('torrent round-trip model fails although C13_torrent_roundtrip is proved', {'case': case, 'model': m})
            continue
        back = m['ok']
        mv = {'infohash': mg.uncps(back['infohash']), 'name': mg.uncps(back['name']), 'size': back['size'],
              'trackers': [mg.uncps(u) for u in back['trackers']], 'webseeds': [mg.uncps(u) for u in back['webseeds']]}
        if mv != t:
            ctx.machinery_error('torrent round-trip model does not return the torrent although C13_torrent_roundtrip is proved',
                                {'case': case, 'model': mv})
        elif mg.uncps(m['uri']) != o['uri']:
            ctx.corr_break('c13.torrent', case, mg.uncps(m['uri']), o['uri'])


# ------------------------------------------------------------------ entry points
def run(ctx, drv):
    ctx.notes['rule'] = RULE
    ctx.notes['assumptions'] = [
        'urllib.parse.quote_plus / unquote_plus / parse_qs / urlparse are modelled by hand for the shapes torf produces '
        '(ASCII links without //netloc); the models are tied to the real functions by this differential run',
        'str.strip / str.split use the str.isspace table of CPython 3.12 (modelled as a character list)',
        'utils.is_url is a predicate parameter evaluated by the real function; int() on digit strings is modelled, else oracle',
        'Python strings with lone surrogates cannot be rendered (UnicodeEncodeError) and are outside the claim; '
        'xl >= 10^4300 cannot be rendered (CPython int->str limit) and is outside the claim',
        'bytes.decode(errors="replace") is only modelled on valid UTF-8 (always the case for rendered links)',
    ]
    rng = ctx.rng
    for c in mg.corpus_cases('C13'):          # past failures first
        ctx.dist['corpus'] += 1
        _eval_case(ctx, drv, c)
    eval_quote(ctx, drv)
    kws = FIXED + [gen_kwargs(rng) for _ in range(ctx.n(20000, 300000))]
    eval_magnets(ctx, drv, kws)
    # parser model on mangled links
    torf = common.import_torf()
    base = []
    for kw in kws[:ctx.n(8000, 60000)]:
        try:
            base.append(str(torf.Magnet(**kw)))
        except BaseException:  # noqa
            pass
    eval_parser(ctx, drv, [mangle(rng, u) for u in base])
    eval_torrents(ctx, drv, [gen_torrent(rng) for _ in range(ctx.n(3000, 40000))])
    ctx.exhaustive = False
    for f in ctx.open_findings():
        if f['id'] not in ctx.known:
            ctx.not_reproduced.append(f['id'])


def search(ctx, drv):
    rng = ctx.rng
    eval_magnets(ctx, drv, [gen_kwargs(rng, findings_share=0.05) for _ in range(ctx.n(20000, 300000))])
    eval_torrents(ctx, drv, [gen_torrent(rng) for _ in range(ctx.n(4000, 40000))])


def _eval_case(ctx, drv, c):
    k = c.get('kind')
    if k == 'magnet':
        eval_magnets(ctx, drv, [c['kwargs']])
    elif k == 'torrent':
        eval_torrents(ctx, drv, [c['spec']])
    elif k == 'parser':
        eval_parser(ctx, drv, [c['uri']])
    else:
        eval_quote(ctx, drv)


def replay(ctx, drv, rp):
    _eval_case(ctx, drv, rp['case'])
    return {'fails': bool(ctx.violations or ctx.known or ctx.corr_breaks), 'violations': ctx.violations,
            'known': list(ctx.known), 'corr_breaks': ctx.corr_breaks}
